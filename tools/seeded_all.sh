#!/bin/sh
# usage: tools/seeded_all.sh [out.md]   -- run every seeded change (seeded/<id>/patch.diff) against the check of its
# property (and C13 for c03-2 and c04-5, whose changes concern colliding keys) in a scratch worktree of /repo HEAD; one line per change.
# A change whose patch no longer applies or that was neutralised by a later repair is reported as such (see meta.json).
OUT=${1:-/verif/seeded/RESULTS.md}
cd /verif
echo "| seeded change | check | violations reported | exit of ./check |" > $OUT
echo "|---|---|---|---|" >> $OUT
for d in seeded/*/; do
  id=$(basename $d)
  pid=$(python3 -c "import json;print(json.load(open('$d/meta.json'))['property'])")
  [ "$id" = "c03-2" ] && pid=C13
  [ "$id" = "c04-5" ] && pid=C13
  WT=/dev/shm/repo-seeded-$$
  git -C /repo worktree add --detach $WT HEAD >/dev/null 2>&1
  if git -C $WT apply $PWD/$d/patch.diff 2>/dev/null; then
    VERIF_REPO=$WT ./check $pid --tier quick > /dev/shm/seeded-$id.log 2>&1; rc=$?
    nv=$(grep -c '^VIOLATION' /dev/shm/seeded-$id.log)
    echo "| $id | $pid | $nv | $rc |" >> $OUT
  else
    echo "| $id | $pid | patch does not apply to HEAD | - |" >> $OUT
  fi
  git -C /repo worktree remove --force $WT >/dev/null 2>&1
done
cat $OUT
