#!/usr/bin/env python3
"""Vacuity audit of the model-checking configurations: for every MC configuration used by a check (quick and
thorough), TLC is asked for a behaviour that REACHES the situation the configuration exists for (a GC pass relocating a
record, a kill inside a pass, a restart, a detected collision, a cancelled pass ...).  A witness that cannot be
reached means the invariants of that configuration hold vacuously (this is how the MaxOps=4 GC configurations were
found to be empty: a pass needs 3 writes + flush + gc = 5 operations).   usage: tools/vacuity.py [PID ...]"""
import os, sys, json
sys.path.insert(0, os.path.join(os.path.dirname(os.path.abspath(__file__)), '..', 'lib'))
import vcommon as V
import fam_seq, fam_crash, fam_conc


def witnesses_seq(over):
    d = dict(fam_seq.MC_DEFAULTS)
    d.update(over)
    w = []
    if d['WithGC'] == 'TRUE' and d['WithCrash'] == 'TRUE':
        w.append(('kill inside a GC pass, then recovery', 'gh.crashed /\\ gh.gcAt'))
    if d['WithGC'] == 'TRUE':
        w.append(('a GC pass relocates a record', 'pc["gc"] = "g_copy"'))
        w.append(('a GC pass releases a record', 'gc.released > 0'))
    if d['WithCrash'] == 'TRUE':
        w.append(('kill and recovery', 'gh.crashed'))
    if int(d['MaxRestarts']) > 0 and d['WithCrash'] != 'TRUE':
        w.append(('clean restart after writes', 'nrestart > 0 /\\ up /\\ Len(recs) > 0'))
    if d['Collide'] == 'TRUE':
        w.append(('collision recorded in the table', 'DOMAIN ctab # {}'))
    if 'cancel' in d['Mutants']:
        w.append(('cancelled pass', 'gc.cancel'))
    if d['CheckVH'] == 'TRUE':
        w.append(('tree-only version change', 'gh.treeOnly # {}'))
    if not w:
        w.append(('rotation to a second file', 'head > 0'))
    return w


def run_wit(module, cfg, name, expr, work, tag):
    open(os.path.join(V.SPEC, '_wit.tla'), 'w').write(
        '---- MODULE _wit ----\nEXTENDS %s\nNoWit == ~(%s)\n====\n' % (module, expr))
    try:
        lines = [l for l in cfg.splitlines() if not l.startswith('INVARIANT')]
        cfg2 = '\n'.join(lines) + '\nINVARIANT NoWit\n'
        r = V.tlc_run('_wit', cfg2, os.path.join(work, tag), timeout=1800)
    finally:
        os.remove(os.path.join(V.SPEC, '_wit.tla'))
    return r['violated'] == 'NoWit', r


def main():
    only = set(sys.argv[1:])
    work = V.mkwork()
    rows = []
    n = 0
    for pid, tiers in list(fam_seq.MC.items()) + [(p, {t: [('MC_Seq', o) for o in l] for t, l in ts.items()}) for p, ts in fam_crash.MC.items()]:
        if only and pid not in only:
            continue
        for tier, lst in tiers.items():
            for module, over in lst:
                for name, expr in witnesses_seq(over):
                    n += 1
                    ok, r = run_wit(module, fam_seq.mc_cfg(over), name, expr, work, 'w%d' % n)
                    rows.append((pid, tier, module, json.dumps(over, sort_keys=True)[:90], name, 'reached' if ok else 'NOT REACHED', round(r['wall'], 1)))
                    print(*rows[-1], flush=True)
    for pid, tiers in fam_conc.MC.items():
        if only and pid not in only:
            continue
        for tier, lst in tiers.items():
            for over in lst:
                d = dict(fam_conc.MC_DEF)
                d.update(over)
                ws = [('two client operations in progress at once', 'Cardinality({p \\in Clients : pc[p] # "idle"}) >= 2')]
                if d['WithGC'] == 'TRUE':
                    ws = [('client write in progress while the pass relocates a record', 'pc["gc"] \\in {"g_copy", "g_repget", "g_repset", "g_hint"} /\\ \\E p \\in Writers : pc[p] # "idle"')]
                for name, expr in ws:
                    n += 1
                    ok, r = run_wit('MC_Conc', fam_conc.mc_cfg(**over), name, expr, work, 'w%d' % n)
                    rows.append((pid, tier, 'MC_Conc', json.dumps(over, sort_keys=True)[:90], name, 'reached' if ok else 'NOT REACHED', round(r['wall'], 1)))
                    print(*rows[-1], flush=True)
    import shutil
    shutil.rmtree(work, ignore_errors=True)
    bad = [r for r in rows if r[5] != 'reached']
    print('%d witnesses, %d not reached' % (len(rows), len(bad)))
    sys.exit(1 if bad else 0)


if __name__ == '__main__':
    main()
