#!/bin/sh
# usage: tools/mutcheck.sh <patch.diff> <PID> [tier]   -- run a check against a scratch worktree of /repo with the patch applied
# (never touches /repo; the evidence file is not rewritten when VERIF_REPO is set)
set -e
PATCH=$(readlink -f $1); PID=$2; TIER=${3:-quick}
WT=/dev/shm/repo-mut-$$
git -C /repo worktree add --detach $WT HEAD >/dev/null 2>&1
trap 'git -C /repo worktree remove --force '$WT' >/dev/null 2>&1' EXIT
git -C $WT apply $PATCH
cd /verif && VERIF_REPO=$WT ./check $PID --tier $TIER 2>&1 | grep -v "^\[.*MC\|DRIFT\|MODEL-ONLY\|KNOWN-FINDING" | tail -5
