//go:build verif
// +build verif

package gobeansdb

// Verification harness of the protocol family (C11, C12), injected into package
// gobeansdb with `go test -overlay` (never copied into /repo).
//
// One scenario = a fresh real HStore (temp home) wrapped in the real
// Storage/StorageClient, one or more real memcache.ServerConn (net.Pipe through
// memcache.VerifNewServerConn, or loopback TCP through Server.Listen/Serve), a list
// of steps (send bytes / wait for quiescence / close) and the observations:
//   Script  : per connection the bytes sent, the replies parsed by the INDEPENDENT
//             reply parser below, closed-by-server, hang
//   Hooks   : the counter / token ledger from the verif hooks
//   Quiesce : cmem.DBRL counters and len(memcache.RL.Chan) after all connections
//             ended and the store was closed (Close forces the flush)
// Nothing here decides a verdict: TLC (Trace_Proto.tla) does.

import (
	"bufio"
	"bytes"
	"crypto/sha1"
	"encoding/hex"
	"encoding/json"
	"flag"
	"fmt"
	"io"
	"net"
	"os"
	"path/filepath"
	"runtime"
	"strconv"
	"strings"
	"sync"
	"testing"
	"time"

	"github.com/douban/gobeansdb/cmem"
	"github.com/douban/gobeansdb/config"
	"github.com/douban/gobeansdb/loghub"
	mc "github.com/douban/gobeansdb/memcache"
	"github.com/douban/gobeansdb/store"
	"github.com/douban/gobeansdb/utils"
)

var (
	vIn   = flag.String("verif.in", "", "scenario file (ndjson)")
	vOut  = flag.String("verif.out", "", "trace file (ndjson)")
	vWork = flag.String("verif.work", "", "scratch directory")
)

type ev map[string]interface{}

type vlog struct {
	mu  sync.Mutex
	w   io.Writer
	seq int
	buf bytes.Buffer
}

var vl = &vlog{}

func (l *vlog) emit(e ev) {
	l.mu.Lock()
	l.seq++
	e["n"] = l.seq
	b, err := json.Marshal(e)
	if err != nil {
		panic(err)
	}
	l.buf.Write(b)
	l.buf.WriteByte('\n')
	l.mu.Unlock()
}

func (l *vlog) flush() {
	l.mu.Lock()
	if l.w != nil {
		l.w.Write(l.buf.Bytes())
	}
	l.buf.Reset()
	l.mu.Unlock()
}

func goid() int64 {
	var b [64]byte
	n := runtime.Stack(b[:], false)
	s := strings.TrimPrefix(string(b[:n]), "goroutine ")
	i := strings.IndexByte(s, ' ')
	id, _ := strconv.ParseInt(s[:i], 10, 64)
	return id
}

// ---- logging hub: Fatalf must not kill the harness process ---------------------

type vFatal struct{ msg string }

func (f vFatal) Error() string { return "FATAL: " + f.msg }

type vHub struct{}

func (h *vHub) Log(name string, level int, file string, line int, msg string) {
	if os.Getenv("VERIF_LOG") != "" {
		fmt.Fprintf(os.Stderr, "[%d] %s:%d %s\n", level, file, line, msg)
	}
	if level == loghub.FATAL {
		panic(vFatal{fmt.Sprintf("%s:%d %s", file, line, msg)})
	}
}
func (h *vHub) Reopen(path string) error           { return nil }
func (h *vHub) GetLastLog() []byte                 { return nil }
func (h *vHub) DumpBuffer(all bool, out io.Writer) {}

// ---- hook: counter ledger, token ledger, ServeOnce points ------------------------

type hookRec struct {
	mu     sync.Mutex
	on     bool
	events []ev
	neterr map[string]bool // remote addr -> the server read EOF / a transport error on that connection
}

var hk = &hookRec{}

func (h *hookRec) reset() {
	h.mu.Lock()
	h.events = nil
	h.neterr = map[string]bool{}
	h.on = true
	h.mu.Unlock()
}

func (h *hookRec) sawNetErr(addr string) bool {
	h.mu.Lock()
	defer h.mu.Unlock()
	return h.neterr[addr]
}

func limName(p *cmem.ResourceLimiter) string {
	switch p {
	case &cmem.DBRL.GetData:
		return "G"
	case &cmem.DBRL.SetData:
		return "S"
	case &cmem.DBRL.FlushData:
		return "F"
	case &cmem.AllocRL:
		return "A"
	}
	return "?"
}

func errStr(x interface{}) string {
	if x == nil {
		return ""
	}
	if e, ok := x.(error); ok && e != nil {
		return e.Error()
	}
	return ""
}

func vhook(point string, a ...interface{}) {
	switch point {
	case "rl.size", "rl.count", "c.alloc", "c.free", "p.token.get", "p.token.put",
		"p.read", "p.process", "p.reply", "p.panic", "p.done":
	default:
		return
	}
	g := goid()
	h := hk
	h.mu.Lock()
	defer h.mu.Unlock()
	if !h.on {
		return
	}
	e := ev{"g": g, "p": point}
	switch point {
	case "rl.size", "rl.count":
		e["lim"] = limName(a[0].(*cmem.ResourceLimiter))
		e["d"] = a[1]
	case "c.alloc", "c.free":
		e["addr"] = fmt.Sprintf("%x", a[0])
		e["d"] = a[1]
	case "p.token.get", "p.token.put":
		e["t"] = a[0]
		e["cmd"] = safeStr(a[1].(string))
	case "p.read":
		e["addr"] = a[0]
		e["cmd"] = safeStr(a[1].(string))
		e["err"] = errStr(a[3])
		if errStr(a[3]) == mc.ErrNetworkError.Error() {
			h.neterr[a[0].(string)] = true
		}
	case "p.process":
		e["addr"] = a[0]
		e["cmd"] = safeStr(a[1].(string))
		e["resp"] = a[2]
		e["err"] = errStr(a[3])
	case "p.reply":
		e["addr"] = a[0]
		e["cmd"] = safeStr(a[1].(string))
		e["status"] = a[2]
	case "p.panic":
		e["addr"] = a[0]
		e["cmd"] = safeStr(a[1].(string))
	case "p.done":
		e["addr"] = a[0]
		e["cmd"] = safeStr(a[1].(string))
	}
	h.events = append(h.events, e)
}

func safeStr(s string) string {
	for i := 0; i < len(s); i++ {
		if s[i] < 0x20 || s[i] > 0x7e {
			return "x:" + hex.EncodeToString([]byte(s))
		}
	}
	if len(s) > 40 {
		return s[:40]
	}
	return s
}

// ---- scenario format ----------------------------------------------------------------

type pconf struct {
	Buckets    int    `json:"buckets"` // 1 or 16
	Served     []int  `json:"served"`  // bucket ids with BucketsStat = 1
	Height     int    `json:"height"`  // tree height
	MaxReq     int    `json:"max_req"`
	BodyInC    int64  `json:"body_c"`
	BodyBig    int64  `json:"body_big"`
	BodyMax    int64  `json:"body_max"`
	FlushMax   int64  `json:"flush_max"`
	Transport  string `json:"transport"` // pipe | tcp
	DeadlineMS int    `json:"deadline_ms"`
}

type pstep struct {
	Op       string  `json:"op"` // send | wait | close | par
	C        string  `json:"c,omitempty"`
	Hex      string  `json:"hex,omitempty"`
	Bytewise bool    `json:"bytewise,omitempty"`
	Par      []pstep `json:"par,omitempty"`
}

type pconn struct {
	Name string            `json:"name"`
	Cmds []json.RawMessage `json:"cmds"`  // abstract commands, carried through to the trace
	Tot  int               `json:"total"` // length of the whole script in bytes
}

type rtItem struct {
	T       string   `json:"t"` // req | resp
	Verb    string   `json:"verb"`
	Keys    []string `json:"keys"`
	Flag    int      `json:"flag"`
	Exptime int      `json:"exptime"`
	Cas     int      `json:"cas"`
	Body    string   `json:"body"` // hex
	NoReply bool     `json:"noreply"`
	Status  string   `json:"status"`
	Msg     string   `json:"msg"`
	WithCas bool     `json:"withcas"`
	Items   []rtItem `json:"items"`
}

type pscen struct {
	ID     string   `json:"id"`
	Family string   `json:"family"`
	Kind   string   `json:"kind"` // proto | rt
	Conf   pconf    `json:"conf"`
	Conns  []pconn  `json:"conns"`
	Steps  []pstep  `json:"steps"`
	RT     []rtItem `json:"rt"`
}

// ---- server side wrapper of a pipe end: makes quiescence a fact ----------------------

type connState struct {
	mu        sync.Mutex
	cond      *sync.Cond
	inRead    bool
	delivered int // bytes the server side has taken from the transport
	written   int // bytes the server side has written
	rbuf      []byte
	eof       bool // client-side reader saw EOF / error
	sent      int  // bytes the client wrote successfully
	werr      string
	cliClosed bool
	srvClosed bool // the server ended the connection by its own decision (not because the client closed)
	hang      bool
	hangInfo  string
	rerr      string
	served    bool // Serve() returned (pipe) / the server closed the socket (tcp)
}

type wrapConn struct {
	net.Conn
	st *connState
}

func (w *wrapConn) Read(p []byte) (int, error) {
	w.st.mu.Lock()
	w.st.inRead = true
	w.st.cond.Broadcast()
	w.st.mu.Unlock()
	n, err := w.Conn.Read(p)
	w.st.mu.Lock()
	w.st.inRead = false
	w.st.delivered += n
	w.st.cond.Broadcast()
	w.st.mu.Unlock()
	return n, err
}

func (w *wrapConn) Write(p []byte) (int, error) {
	n, err := w.Conn.Write(p)
	w.st.mu.Lock()
	w.st.written += n
	w.st.cond.Broadcast()
	w.st.mu.Unlock()
	return n, err
}

type vconn struct {
	name   string
	tcp    bool
	logged bool
	cli    net.Conn
	st     *connState
	addr   string // what the server calls RemoteAddr
}

func (c *vconn) reader() {
	tmp := make([]byte, 65536)
	for {
		n, err := c.cli.Read(tmp)
		c.st.mu.Lock()
		if n > 0 {
			c.st.rbuf = append(c.st.rbuf, tmp[:n]...)
		}
		if err != nil {
			c.st.eof = true
			c.st.rerr = err.Error()
			if c.tcp {
				c.st.served = true // Serve closes the socket after its last ServeOnce (incl. the deferred cleanup)
			}
			c.st.cond.Broadcast()
			c.st.mu.Unlock()
			return
		}
		c.st.cond.Broadcast()
		c.st.mu.Unlock()
	}
}

// waitFor blocks until pred() (evaluated under the lock) or the deadline; returns pred's last value.
func (c *vconn) waitFor(deadline time.Duration, pred func() bool) bool {
	st := c.st
	stop := make(chan struct{})
	go func() {
		select {
		case <-time.After(deadline):
			st.mu.Lock()
			st.cond.Broadcast()
			st.mu.Unlock()
		case <-stop:
		}
	}()
	end := time.Now().Add(deadline)
	st.mu.Lock()
	for !pred() && time.Now().Before(end) {
		st.cond.Wait()
	}
	ok := pred()
	st.mu.Unlock()
	close(stop)
	return ok
}

// ---- runner -----------------------------------------------------------------------------

type prunner struct {
	sc       *pscen
	dir      string
	hs       *store.HStore
	storage  *Storage
	stats    *mc.Stats
	server   *mc.Server
	port     int
	conns    map[string]*vconn
	order    []string
	deadline time.Duration
}

func (r *prunner) setup() error {
	c := &r.sc.Conf
	if c.Buckets == 0 {
		c.Buckets = 16
	}
	if c.Height == 0 {
		c.Height = 3
	}
	if c.MaxReq == 0 {
		c.MaxReq = 16
	}
	if c.DeadlineMS == 0 {
		c.DeadlineMS = 8000
	}
	if c.Transport == "" {
		c.Transport = "pipe"
	}
	r.deadline = time.Duration(c.DeadlineMS) * time.Millisecond
	store.Conf.InitDefault()
	store.Conf.Home = r.dir
	store.Conf.NumBucket = c.Buckets
	store.Conf.BucketsStat = make([]int, c.Buckets)
	for _, b := range c.Served {
		store.Conf.BucketsStat[b] = 1
	}
	store.Conf.TreeHeight = c.Height
	store.Conf.FlushInterval = 1000000 // no time-driven flush: only Close flushes
	if err := store.Conf.Init(); err != nil {
		return err
	}
	store.Conf.SplitCap = 4096 // default 1M slots = an 8 MB allocation at the first write of every bucket
	config.MCConf = config.DefaultMCConfig
	config.MCConf.MaxKeyLen = 250
	config.MCConf.MaxReq = c.MaxReq
	config.MCConf.BodyInC = c.BodyInC
	config.MCConf.BodyBig = c.BodyBig
	config.MCConf.BodyMax = c.BodyMax
	config.MCConf.FlushMax = c.FlushMax
	config.MCConf.TimeoutMS = 1000 * 3600 * 24 // time-dependent paths are out of scope
	hs, err := store.NewHStore()
	if err != nil {
		return err
	}
	r.hs = hs
	r.storage = &Storage{hstore: hs}
	r.stats = mc.NewStats()
	r.conns = map[string]*vconn{}
	if c.Transport == "tcp" {
		for try := 0; try < 20; try++ {
			l, e := net.Listen("tcp", "127.0.0.1:0")
			if e != nil {
				return e
			}
			port := l.Addr().(*net.TCPAddr).Port
			l.Close()
			s := mc.NewServer(r.storage)
			if e = s.Listen(fmt.Sprintf("127.0.0.1:%d", port)); e == nil {
				r.server, r.port = s, port
				break
			}
		}
		if r.server == nil {
			return fmt.Errorf("no free port")
		}
		mc.InitTokens() // Serve() does it again; avoid a window with RL == nil
		go r.server.Serve()
	} else {
		mc.InitTokens()
	}
	return nil
}

func (r *prunner) conn(name string) (*vconn, error) {
	if c, ok := r.conns[name]; ok {
		return c, nil
	}
	st := &connState{}
	st.cond = sync.NewCond(&st.mu)
	c := &vconn{name: name, st: st}
	if r.sc.Conf.Transport == "tcp" {
		cc, err := net.Dial("tcp", fmt.Sprintf("127.0.0.1:%d", r.port))
		if err != nil {
			return nil, err
		}
		c.tcp = true
		c.cli = cc
		c.addr = cc.LocalAddr().String()
	} else {
		cli, srv := net.Pipe()
		c.cli = cli
		sc := mc.VerifNewServerConn(&wrapConn{Conn: srv, st: st})
		c.addr = sc.RemoteAddr
		client := r.storage.Client()
		go func() {
			sc.Serve(client, r.stats)
			st.mu.Lock()
			st.served = true
			st.cond.Broadcast()
			st.mu.Unlock()
		}()
	}
	go c.reader()
	r.conns[name] = c
	r.order = append(r.order, name)
	return c, nil
}

func (c *vconn) send(b []byte, bytewise bool) {
	step := len(b)
	if bytewise {
		step = 1
	}
	for off := 0; off < len(b); off += step {
		end := off + step
		if end > len(b) {
			end = len(b)
		}
		c.cli.SetWriteDeadline(time.Now().Add(20 * time.Second))
		n, err := c.cli.Write(b[off:end])
		c.st.mu.Lock()
		c.st.sent += n
		if err != nil {
			c.st.werr = err.Error()
		}
		c.st.mu.Unlock()
		if err != nil {
			return
		}
	}
}

// quiescent (pipe): the server goroutine is blocked in Read on the transport, has taken every
// byte the client wrote, and the client-side reader holds every byte the server wrote; or the
// connection ended.  No sleeping: all three are facts observed under one lock.
func (c *vconn) wait(deadline time.Duration) {
	st := c.st
	if c.tcp {
		return // tcp scenarios are closed by the client (half-close) and waited for in close()
	}
	ok := c.waitFor(deadline, func() bool {
		if st.served {
			// Serve returned: the reader goroutine still has to hand over what the server wrote last
			return len(st.rbuf) == st.written
		}
		return st.inRead && st.delivered == st.sent && len(st.rbuf) == st.written
	})
	st.mu.Lock()
	if !ok {
		st.hang = true
		st.hangInfo = fmt.Sprintf("wait: inRead=%v delivered=%d sent=%d rbuf=%d written=%d eof=%v rerr=%q served=%v",
			st.inRead, st.delivered, st.sent, len(st.rbuf), st.written, st.eof, st.rerr, st.served)
		if os.Getenv("VERIF_STACKS") != "" {
			buf := make([]byte, 1<<20)
			n := runtime.Stack(buf, true)
			st.hangInfo += "\n" + string(buf[:n])
		}
	}
	if st.served && !st.cliClosed {
		st.srvClosed = true
	}
	st.mu.Unlock()
}

func (c *vconn) close(deadline time.Duration) {
	st := c.st
	if c.tcp {
		// half-close: the server reads EOF after the last byte, answers what is complete, closes
		if tc, ok := c.cli.(*net.TCPConn); ok {
			tc.CloseWrite()
		}
		ok := c.waitFor(deadline, func() bool { return st.served })
		st.mu.Lock()
		st.cliClosed = true
		if !ok {
			st.hang = true
		} else if !hk.sawNetErr(c.addr) {
			st.srvClosed = true // the server never read our EOF: it had closed by its own decision
		}
		st.mu.Unlock()
		c.cli.Close()
		return
	}
	st.mu.Lock()
	if st.served && !st.cliClosed {
		st.srvClosed = true
	}
	st.cliClosed = true
	st.mu.Unlock()
	c.waitFor(deadline, func() bool { return !st.served || len(st.rbuf) == st.written })
	c.cli.Close()
	ok := c.waitFor(deadline, func() bool { return st.served })
	if !ok {
		st.mu.Lock()
		st.hang = true
		st.mu.Unlock()
	}
}

func (r *prunner) step(s *pstep) error {
	switch s.Op {
	case "send":
		c, err := r.conn(s.C)
		if err != nil {
			return err
		}
		b, err := hex.DecodeString(s.Hex)
		if err != nil {
			return err
		}
		c.send(b, s.Bytewise)
	case "wait":
		c, err := r.conn(s.C)
		if err != nil {
			return err
		}
		c.wait(r.deadline)
	case "close":
		c, err := r.conn(s.C)
		if err != nil {
			return err
		}
		c.close(r.deadline)
	case "restart":
		return r.restart()
	case "par":
		var wg sync.WaitGroup
		for i := range s.Par {
			p := &s.Par[i]
			c, err := r.conn(p.C)
			if err != nil {
				return err
			}
			b, err := hex.DecodeString(p.Hex)
			if err != nil {
				return err
			}
			wg.Add(1)
			go func(c *vconn, b []byte, bw bool) {
				defer wg.Done()
				c.send(b, bw)
				c.wait(r.deadline)
			}(c, b, p.Bytewise)
		}
		wg.Wait()
	default:
		return fmt.Errorf("unknown step %q", s.Op)
	}
	return nil
}

func counters() ev {
	d := &cmem.DBRL
	return ev{
		"get":   []int64{d.GetData.Count, d.GetData.Size},
		"set":   []int64{d.SetData.Count, d.SetData.Size},
		"flush": []int64{d.FlushData.Count, d.FlushData.Size},
		"alloc": []int64{cmem.AllocRL.Count, cmem.AllocRL.Size},
	}
}

func (r *prunner) run() {
	sc := r.sc
	hk.reset()
	vl.emit(ev{"a": "Reset", "sid": sc.ID, "conf": sc.Conf, "kind": sc.Kind})
	defer func() {
		if e := recover(); e != nil {
			vl.emit(ev{"a": "Crash", "what": fmt.Sprint(e)})
		}
		hk.mu.Lock()
		hk.on = false
		hk.mu.Unlock()
		vl.emit(ev{"a": "End"})
	}()
	t0 := time.Now()
	if err := r.setup(); err != nil {
		vl.emit(ev{"a": "SetupError", "err": err.Error()})
		return
	}
	t1 := time.Now()
	if sc.Kind == "rt" {
		r.roundTrips()
	}
	for i := range sc.Steps {
		if err := r.step(&sc.Steps[i]); err != nil {
			vl.emit(ev{"a": "SetupError", "err": err.Error()})
			return
		}
	}
	r.endConns()
	r.emitScripts()
	r.quiesce(t0, t1, true)
}

// emitScripts logs, per connection in order of creation, what was sent and what came back
func (r *prunner) emitScripts() {
	sc := r.sc
	byName := map[string]*pconn{}
	for i := range sc.Conns {
		byName[sc.Conns[i].Name] = &sc.Conns[i]
	}
	for _, name := range r.order {
		c := r.conns[name]
		if c.logged {
			continue
		}
		c.logged = true
		c.st.mu.Lock()
		raw := append([]byte(nil), c.st.rbuf...)
		e := ev{"a": "Script", "c": name, "sent": c.st.sent, "closed": c.st.srvClosed, "hang": c.st.hang,
			"served": c.st.served, "werr": c.st.werr, "hanginfo": c.st.hangInfo, "replies": parseReplies(raw), "rawlen": len(raw)}
		c.st.mu.Unlock()
		if pc, ok := byName[name]; ok {
			e["cmds"] = pc.Cmds
			e["total"] = pc.Tot
		}
		if len(raw) <= 600 {
			e["raw"] = hex.EncodeToString(raw)
		}
		vl.emit(e)
	}
}

// quiesce: all connections have ended; close the store (forces the flush of every write buffer)
// and log the ledger and the counters
func (r *prunner) quiesce(t0, t1 time.Time, final bool) {
	t2 := time.Now()
	pre := counters()
	tokens, maxreq := -1, r.sc.Conf.MaxReq
	if mc.RL != nil {
		tokens = len(mc.RL.Chan)
		maxreq = cap(mc.RL.Chan)
	}
	if r.server != nil && final {
		// Server.Serve returns holding the Server mutex when no connection is left, so Shutdown can
		// block for ever on it: run it aside, it has stopped the accept loop by then
		go r.server.Shutdown()
	}
	func() {
		defer func() {
			if e := recover(); e != nil {
				vl.emit(ev{"a": "Crash", "what": fmt.Sprint(e)})
			}
		}()
		r.hs.Close()
	}()
	hk.mu.Lock()
	evs := hk.events
	hk.events = nil
	hk.mu.Unlock()
	t3 := time.Now()
	vl.emit(ev{"a": "Hooks", "ev": evs})
	vl.emit(ev{"a": "Quiesce", "cnt": counters(), "pre": pre, "tokens": tokens, "max_req": maxreq, "final": final,
		"ms": []int64{t1.Sub(t0).Milliseconds(), t2.Sub(t1).Milliseconds(), t3.Sub(t2).Milliseconds()}})
}

// endConns: every connection is closed by the client (if still open) and its server goroutine awaited
func (r *prunner) endConns() {
	for _, name := range r.order {
		c := r.conns[name]
		c.st.mu.Lock()
		closed := c.st.cliClosed || c.st.served
		c.st.mu.Unlock()
		if !closed {
			c.wait(r.deadline)
			c.close(r.deadline)
		} else if !c.tcp {
			c.waitFor(r.deadline, func() bool { return len(c.st.rbuf) == c.st.written })
			c.st.mu.Lock()
			if c.st.served && !c.st.cliClosed {
				c.st.srvClosed = true
			}
			c.st.cliClosed = true
			c.st.mu.Unlock()
			c.cli.Close()
		}
	}
}

// restart: quiescent point in the middle of a scenario; the store is closed (everything flushed)
// and opened again on the same home, so later reads come from the data files
func (r *prunner) restart() error {
	r.endConns()
	r.emitScripts()
	t := time.Now()
	r.quiesce(t, t, false)
	hs, err := store.NewHStore()
	if err != nil {
		return err
	}
	r.hs = hs
	r.storage.hstore = hs
	return nil
}

// ---- independent reply parser ----------------------------------------------------------
// grammar: status line | VALUE k flags n [cas] CRLF <n bytes> CRLF ... END | STAT k v ... END | number

func isNum(s string) bool {
	if s == "" {
		return false
	}
	i := 0
	if s[0] == '-' {
		i = 1
	}
	if i == len(s) {
		return false
	}
	for ; i < len(s); i++ {
		if s[i] < '0' || s[i] > '9' {
			return false
		}
	}
	return true
}

func printable(s string) bool {
	for i := 0; i < len(s); i++ {
		if s[i] < 0x20 || s[i] > 0x7e {
			return false
		}
	}
	return true
}

func parseReplies(b []byte) []ev {
	out := []ev{}
	pos := 0
	line := func() (string, bool) {
		i := bytes.Index(b[pos:], []byte("\r\n"))
		if i < 0 {
			return "", false
		}
		s := string(b[pos : pos+i])
		pos += i + 2
		return s, true
	}
	for pos < len(b) {
		start := pos
		s, ok := line()
		if !ok {
			out = append(out, ev{"t": "PARTIAL", "len": len(b) - start})
			break
		}
		switch {
		case s == "END":
			out = append(out, ev{"t": "VALUES", "items": []ev{}})
		case strings.HasPrefix(s, "VALUE "):
			items := []ev{}
			bad := ""
			for {
				f := strings.Split(s, " ")
				if len(f) != 4 && len(f) != 5 {
					bad = "value header fields"
					break
				}
				if f[1] == "" || !isNum(f[2]) || !isNum(f[3]) || (len(f) == 5 && !isNum(f[4])) {
					bad = "value header numbers"
					break
				}
				n, err := strconv.Atoi(f[3])
				if err != nil || n < 0 {
					bad = "value length"
					break
				}
				if pos+n+2 > len(b) {
					bad = "value body short"
					pos = len(b)
					break
				}
				body := b[pos : pos+n]
				if b[pos+n] != '\r' || b[pos+n+1] != '\n' {
					bad = "value terminator"
					pos = len(b)
					break
				}
				pos += n + 2
				h := sha1.Sum(body)
				it := ev{"kx": hex.EncodeToString([]byte(f[1])), "flag": f[2], "len": n, "h": hex.EncodeToString(h[:8]),
					"cas": len(f) == 5}
				if n <= 160 && printable(string(body)) {
					it["text"] = string(body)
				}
				items = append(items, it)
				s2, ok2 := line()
				if !ok2 {
					bad = "no END"
					pos = len(b)
					break
				}
				if s2 == "END" {
					break
				}
				if !strings.HasPrefix(s2, "VALUE ") {
					bad = "expected VALUE or END"
					break
				}
				s = s2
			}
			if bad != "" {
				out = append(out, ev{"t": "GARBAGE", "why": bad})
			} else {
				out = append(out, ev{"t": "VALUES", "items": items})
			}
		case strings.HasPrefix(s, "STAT "):
			names := []string{}
			bad := ""
			for {
				f := strings.Split(s, " ")
				if len(f) != 3 || f[1] == "" || f[2] == "" {
					bad = "stat line"
					break
				}
				names = append(names, f[1])
				s2, ok2 := line()
				if !ok2 {
					bad = "no END"
					pos = len(b)
					break
				}
				if s2 == "END" {
					break
				}
				if !strings.HasPrefix(s2, "STAT ") {
					bad = "expected STAT or END"
					break
				}
				s = s2
			}
			if bad != "" {
				out = append(out, ev{"t": "GARBAGE", "why": bad})
			} else {
				out = append(out, ev{"t": "STATS", "count": len(names), "names": names})
			}
		case s == "STORED" || s == "NOT_STORED" || s == "DELETED" || s == "NOT_FOUND" || s == "OK" ||
			s == "EXISTS" || s == "ERROR":
			out = append(out, ev{"t": s})
		case strings.HasPrefix(s, "CLIENT_ERROR ") && printable(s):
			out = append(out, ev{"t": "CLIENT_ERROR", "msg": s[len("CLIENT_ERROR "):]})
		case strings.HasPrefix(s, "SERVER_ERROR ") && printable(s):
			out = append(out, ev{"t": "SERVER_ERROR", "msg": s[len("SERVER_ERROR "):]})
		case strings.HasPrefix(s, "VERSION ") && printable(s) && len(s) > len("VERSION "):
			out = append(out, ev{"t": "VERSION", "msg": s[len("VERSION "):]})
		case isNum(s):
			out = append(out, ev{"t": "NUM", "msg": s})
		case s != "" && printable(s) && !strings.Contains(s, " "):
			// not memcached grammar: this server's own one-word status lines (optimize_stat)
			out = append(out, ev{"t": "EXT", "msg": s})
		default:
			out = append(out, ev{"t": "GARBAGE", "why": "status line", "line": safeStr(s)})
		}
	}
	return out
}

// ---- round trip (C11_RoundTrip) ------------------------------------------------------------

func sameKeys(a, b []string) bool {
	if len(a) != len(b) {
		return false
	}
	for i := range a {
		if a[i] != b[i] {
			return false
		}
	}
	return true
}

func (r *prunner) roundTrips() {
	for i, it := range r.sc.RT {
		e := ev{"a": "RT", "i": i, "t": it.T}
		func() {
			defer func() {
				if x := recover(); x != nil {
					e["panic"] = fmt.Sprint(x)
				}
			}()
			body, _ := hex.DecodeString(it.Body)
			if it.T == "req" {
				e["verb"] = it.Verb
				req := &mc.Request{Cmd: it.Verb, Keys: it.Keys, NoReply: it.NoReply}
				switch it.Verb {
				case "set", "add", "replace", "cas", "append", "prepend", "incr", "decr":
					req.Item = &mc.Item{Flag: it.Flag, Exptime: it.Exptime, Cas: it.Cas}
					req.Item.Body = body
				}
				var w bytes.Buffer
				werr := req.Write(&w)
				e["werr"] = errStr(werr)
				e["wire"] = safeStr(w.String())
				if werr != nil {
					e["same"] = false
					return
				}
				back := &mc.Request{}
				rd := bufio.NewReader(bytes.NewReader(w.Bytes()))
				rerr := back.Read(rd)
				e["rerr"] = errStr(rerr)
				same := rerr == nil && back.Cmd == req.Cmd && sameKeys(back.Keys, req.Keys) && back.NoReply == req.NoReply
				if same && req.Item != nil {
					same = back.Item != nil && bytes.Equal(back.Item.Body, req.Item.Body)
					if same && it.Verb != "incr" && it.Verb != "decr" {
						same = back.Item.Flag == req.Item.Flag && back.Item.Exptime == req.Item.Exptime
					}
					if same && it.Verb == "cas" {
						same = back.Item.Cas == req.Item.Cas
					}
				}
				if _, e2 := rd.ReadByte(); e2 == nil {
					same = false // bytes left over
				}
				e["same"] = same
				// give back what Read took
				if back.Item != nil {
					switch back.Cmd {
					case "set", "add", "replace", "cas", "append", "prepend":
						if rerr == nil {
							cmem.DBRL.SetData.SubSizeAndCount(back.Item.CArray.Cap)
							back.Item.CArray.Free()
						}
					case "incr", "decr":
						cmem.DBRL.SetData.SubCount(1)
					}
				}
				if back.Working {
					mc.RL.Put(back)
				}
			} else {
				e["status"] = it.Status
				resp := &mc.Response{Status: it.Status, Msg: it.Msg, Cas: it.WithCas}
				if len(it.Items) > 0 {
					resp.Items = map[string]*mc.Item{}
					for _, x := range it.Items {
						b, _ := hex.DecodeString(x.Body)
						item := &mc.Item{Flag: x.Flag, Cas: x.Cas}
						item.Body = b
						resp.Items[x.Keys[0]] = item
					}
				}
				var w bytes.Buffer
				werr := resp.Write(&w)
				e["werr"] = errStr(werr)
				e["wire"] = safeStr(w.String())
				back := &mc.Response{}
				rd := bufio.NewReader(bytes.NewReader(w.Bytes()))
				rerr := back.Read(rd)
				e["rerr"] = errStr(rerr)
				// a VALUE reply parses back as its items with the status of the closing END line
				stOK := back.Status == resp.Status || (resp.Status == "VALUE" && back.Status == "END")
				same := werr == nil && rerr == nil && stOK && len(back.Items) == len(resp.Items)
				if same && resp.Status != "INCR" && resp.Status != "STAT" {
					same = back.Msg == resp.Msg
				}
				if same && resp.Status == "INCR" {
					same = back.Msg == resp.Msg
				}
				if same {
					for k, x := range resp.Items {
						y, ok := back.Items[k]
						if !ok || !bytes.Equal(x.Body, y.Body) || x.Flag != y.Flag || (resp.Cas && x.Cas != y.Cas) {
							same = false
						}
					}
				}
				if _, e2 := rd.ReadByte(); e2 == nil {
					same = false
				}
				e["same"] = same
				e["back"] = back.Status
				if rerr == nil && resp.Status != "STAT" {
					back.CleanBuffer() // (STAT items were never added to GetData: CleanBuffer would drive it negative)
				}
			}
		}()
		vl.emit(e)
	}
}

// ---- entry points -----------------------------------------------------------------------------

func TestMain(m *testing.M) {
	flag.Parse()
	if *vOut != "" {
		f, err := os.Create(*vOut)
		if err != nil {
			fmt.Fprintln(os.Stderr, err)
			os.Exit(2)
		}
		vl.w = f
		defer f.Close()
	}
	code := m.Run()
	vl.flush()
	os.Exit(code)
}

func TestVerifProto(t *testing.T) {
	if *vIn == "" {
		t.Skip("no -verif.in")
	}
	loghub.ErrorLogger.Hub = &vHub{}
	loghub.ErrorLogger.SetLevel(loghub.ERROR)
	utils.VerifHook = vhook
	f, err := os.Open(*vIn)
	if err != nil {
		t.Fatal(err)
	}
	defer f.Close()
	rd := bufio.NewReaderSize(f, 1<<20)
	n := 0
	for {
		line, err := rd.ReadString('\n')
		if strings.TrimSpace(line) != "" {
			var sc pscen
			if e := json.Unmarshal([]byte(line), &sc); e != nil {
				t.Fatalf("bad scenario: %v", e)
			}
			dir := filepath.Join(*vWork, fmt.Sprintf("p%d", n))
			os.RemoveAll(dir)
			os.MkdirAll(dir, 0777)
			r := &prunner{sc: &sc, dir: dir}
			r.run()
			vl.flush()
			os.RemoveAll(dir)
			n++
		}
		if err != nil {
			break
		}
	}
}
