//go:build verif
// +build verif

package gobeansdb

// Client-level runner for the SEQUENTIAL scenarios of the core specification (C01/C02 observed at
// gobeansdb.StorageClient: Set / Delete / Incr / Get / GetMulti / "?key" / "??key").  It reads the same scenario
// format as the store-level harness and emits the same level-1 events, so the very same trace
// specification (Trace_Bucket.tla) judges it.  One bucket (NumBucket = 1), real key hashes; operations the
// client API does not have (explicit flush, GC) are not part of these scenarios; rotation flushers run to
// completion after the operation that spawned them (RotFlush events).

import (
	"bufio"
	"encoding/json"
	"fmt"
	"math/rand"
	"os"
	"path/filepath"
	"regexp"
	"sort"
	"strconv"
	"strings"
	"sync"
	"testing"
	"time"

	"github.com/douban/gobeansdb/cmem"
	"github.com/douban/gobeansdb/config"
	"github.com/douban/gobeansdb/loghub"
	mc "github.com/douban/gobeansdb/memcache"
	"github.com/douban/gobeansdb/store"
	"github.com/douban/gobeansdb/utils"
)

type cconf struct {
	FileMaxBlk int  `json:"filemax_blk"`
	SplitCap   int  `json:"splitcap"`
	CheckVHash bool `json:"check_vhash"`
	BodyMaxBlk int  `json:"bodymax_blk"`
	Height     int  `json:"height"`
}

type cop struct {
	Op   string   `json:"op"`
	K    string   `json:"k"`
	V    int      `json:"v"`
	NBlk int      `json:"nblk"`
	Rev  int      `json:"rev"`
	Flag int      `json:"flag"`
	D    int      `json:"d"`
	Rm   []string `json:"rm"`
}

type cscen struct {
	ID   string `json:"id"`
	Conf cconf  `json:"conf"`
	Ops  []cop  `json:"ops"`
}

const cNumBase = 100000

// ---- hook: what the write path did during the current call, rotation flushers, background check ----

type chookState struct {
	mu      sync.Mutex
	home    string
	appends []ev            // w.append records of the current operation
	flusher map[int64]int   // goroutine id -> chunk of a rotation flusher that entered
	entered []int           // chunks whose rotation flusher entered (in order)
	exited  map[int]bool
	bgDone  chan struct{}
	main    int64 // the runner's goroutine: flushes it performs itself (Close) are not rotation flushers
}

var chs = &chookState{}

func chook(point string, a ...interface{}) {
	switch point {
	case "w.append":
		chs.mu.Lock()
		chs.appends = append(chs.appends, ev{"k": a[1].(string), "c": a[2].(int), "off": int(a[3].(uint32)) / 256,
			"size": int(a[4].(uint32)), "rot": a[5].(bool), "ver": int(a[6].(int32))})
		chs.mu.Unlock()
	case "f.enter":
		if a[3].(string) != chs.home || a[1].(int) < 0 || goid() == chs.main {
			return
		}
		chs.mu.Lock()
		chs.flusher[goid()] = a[1].(int)
		chs.entered = append(chs.entered, a[1].(int))
		chs.mu.Unlock()
	case "f.exit":
		chs.mu.Lock()
		if c, ok := chs.flusher[goid()]; ok {
			chs.exited[c] = true
			delete(chs.flusher, goid())
		}
		chs.mu.Unlock()
	case "o.bgdone":
		chs.mu.Lock()
		ch := chs.bgDone
		chs.mu.Unlock()
		if ch != nil {
			select {
			case ch <- struct{}{}:
			default:
			}
		}
	}
}

// ---- runner -----------------------------------------------------------------------------------------

type crunner struct {
	sc     *cscen
	dir    string
	keys   []string
	hs     *store.HStore
	cl     mc.StorageClient
	vals   map[string]int
	rotExp int // rotations seen so far (each spawns one flusher)
	rotEm  int // RotFlush events emitted
	ts     int64
}

func cgenBytes(seed, n int) []byte {
	rng := rand.New(rand.NewSource(int64(seed)*7919 + 13))
	b := make([]byte, n)
	for i := range b {
		b[i] = byte(rng.Intn(256))
	}
	return b
}

func (r *crunner) valBytes(v int, key string, nblk int) ([]byte, int) {
	if v >= cNumBase {
		return []byte(strconv.Itoa(v - cNumBase)), v
	}
	if nblk <= 0 {
		nblk = 1
	}
	n := nblk*256 - 24 - len(key) - (v % 16)
	if n < 1 {
		n = 1
	}
	b := cgenBytes(v*8+nblk, n)
	r.vals[string(b)] = v*8 + nblk
	return b, v*8 + nblk
}

func (r *crunner) identify(body []byte) int {
	if v, ok := r.vals[string(body)]; ok {
		return v
	}
	if len(body) > 0 && len(body) < 9 {
		if n, err := strconv.Atoi(string(body)); err == nil && n >= 0 {
			return cNumBase + n
		}
	}
	return -1
}

func (r *crunner) setup() {
	c := &r.sc.Conf
	if c.Height == 0 {
		c.Height = 3
	}
	if c.FileMaxBlk == 0 {
		c.FileMaxBlk = 4
	}
	if c.SplitCap == 0 {
		c.SplitCap = 3
	}
	if c.BodyMaxBlk == 0 {
		c.BodyMaxBlk = 2
	}
	store.Conf.InitDefault()
	store.Conf.Home = r.dir
	store.Conf.NumBucket = 1
	store.Conf.BucketsStat = []int{1}
	store.Conf.TreeHeight = c.Height
	store.Conf.TreeDump = 3
	store.Conf.CheckVHash = c.CheckVHash
	store.Conf.DataFileMaxStr = strconv.Itoa(256 * c.FileMaxBlk)
	store.Conf.FlushInterval = 1000000
	store.Conf.Init()
	store.Conf.SplitCap = int64(c.SplitCap)
	config.MCConf = config.DefaultMCConfig
	config.MCConf.BodyMax = int64(256 * c.BodyMaxBlk)
	store.SecsBeforeDump = 1000000
	seen := map[string]bool{}
	for _, o := range r.sc.Ops {
		if o.K != "" && !seen[o.K] {
			seen[o.K] = true
			r.keys = append(r.keys, o.K)
		}
	}
	sort.Strings(r.keys)
	r.vals = map[string]int{}
	chs.mu.Lock()
	chs.home = r.dir
	chs.appends = nil
	chs.flusher = map[int64]int{}
	chs.entered = nil
	chs.exited = map[int]bool{}
	chs.bgDone = make(chan struct{}, 4)
	chs.main = goid()
	chs.mu.Unlock()
	r.rotExp, r.rotEm = 0, 0
}

func (r *crunner) confEvent() ev {
	c := r.sc.Conf
	hashOf := map[string]string{}
	rank := map[string]int{}
	for i, k := range r.keys {
		hashOf[k] = "h_" + k
		rank[k] = i + 1
	}
	return ev{"a": "Reset", "sid": r.sc.ID, "l": 1, "conf": ev{
		"hashOf": hashOf, "rank": rank, "fileMax": c.FileMaxBlk, "splitCap": c.SplitCap,
		"checkVHash": c.CheckVHash, "dumpEager": false, "bodyMaxBlk": c.BodyMaxBlk, "keys": r.keys}}
}

func (r *crunner) open() error {
	hs, err := store.NewHStore()
	if err != nil {
		return err
	}
	r.hs = hs
	r.cl = (&Storage{hstore: hs}).Client()
	select {
	case <-chs.bgDone:
	case <-time.After(20 * time.Second):
		return fmt.Errorf("open: background check did not finish")
	}
	return nil
}

// "?key": ver vhash flag len ts         "??key": ... chunk offset
func (r *crunner) meta(k string) (ver int, c int, off int, ok bool) {
	it, err := r.cl.Get("??" + k)
	if err != nil || it == nil {
		return 0, -1, 0, false
	}
	f := strings.Fields(string(it.Body))
	if len(f) < 7 {
		return 0, -1, 0, false
	}
	ver, _ = strconv.Atoi(f[0])
	c, _ = strconv.Atoi(f[5])
	o, _ := strconv.Atoi(f[6])
	// the short form must agree with the extended one
	if it2, e2 := r.cl.Get("?" + k); e2 != nil || it2 == nil || !strings.HasPrefix(string(it.Body), string(it2.Body)) {
		return ver, c, o / 256, false
	}
	return ver, c, o / 256, true
}

func (r *crunner) readItem(k string, it *mc.Item, err error) ev {
	e := ev{}
	if err != nil {
		e["res"], e["err"] = "err", err.Error()
		return e
	}
	if it == nil {
		e["res"] = "miss"
		// "tombstone hidden from get, visible to meta-get": reported as the store reports it (a hit with a negative
		// version, which the trace specification treats as a miss)
		if ver, c, off, ok := r.meta(k); ok && ver < 0 {
			e["res"], e["ver"], e["val"], e["flag"], e["c"], e["off"] = "hit", ver, 0, 0, c, off
		}
		return e
	}
	e["res"] = "hit"
	e["flag"] = it.Flag
	e["val"] = r.identify(it.Body)
	e["len"] = len(it.Body)
	cmem.DBRL.GetData.SubSizeAndCount(it.CArray.Cap)
	it.CArray.Free()
	ver, c, off, ok := r.meta(k)
	e["ver"], e["c"], e["off"] = ver, c, off
	if !ok {
		e["res"], e["err"] = "err", "meta-get disagrees or is missing for a key that get returns"
	} else if ver <= 0 {
		// get must hide a tombstone: an item for a key whose meta-get shows a delete is not a miss in disguise
		e["res"], e["err"], e["ver"] = "err", "get returned an item for a deleted key", 0
	}
	return e
}

func (r *crunner) get(k string) ev {
	it, err := r.cl.Get(k)
	return r.readItem(k, it, err)
}

// every key through ONE GetMulti call
func (r *crunner) readAll() ev {
	m := ev{}
	items, err := r.cl.GetMulti(r.keys)
	for _, k := range r.keys {
		m[k] = r.readItem(k, items[k], err)
	}
	return m
}

func (r *crunner) metaAll() ev {
	m := ev{}
	for _, k := range r.keys {
		ver, _, _, _ := r.meta(k)
		m[k] = ver
	}
	return m
}

// rotation flushers spawned by the operation just finished run to completion now
func (r *crunner) settleRot(spawned int) {
	r.rotExp += spawned
	deadline := time.Now().Add(20 * time.Second)
	for time.Now().Before(deadline) {
		chs.mu.Lock()
		n := len(chs.entered)
		done := n >= r.rotExp
		if done {
			for _, c := range chs.entered {
				if !chs.exited[c] {
					done = false
				}
			}
		}
		chs.mu.Unlock()
		if done {
			break
		}
		time.Sleep(200 * time.Microsecond)
	}
	chs.mu.Lock()
	ent := append([]int{}, chs.entered...)
	chs.mu.Unlock()
	for r.rotEm < len(ent) {
		c := ent[r.rotEm]
		vl.emit(ev{"a": "RotFlush", "l": 1, "p": "rotf" + strconv.Itoa(c), "c": c, "ran": true})
		r.rotEm++
	}
}

func (r *crunner) takeAppends() []ev {
	chs.mu.Lock()
	a := chs.appends
	chs.appends = nil
	chs.mu.Unlock()
	return a
}

var cidx = regexp.MustCompile(`^\d{3}\.\d{3}\.idx\.(s|hash|m)$`)

func (r *crunner) removeIndex(pats []string) []string {
	removed := []string{}
	all := []string{}
	filepath.Walk(r.dir, func(p string, info os.FileInfo, err error) error {
		if err == nil && !info.IsDir() && cidx.MatchString(filepath.Base(p)) {
			all = append(all, p)
		}
		return nil
	})
	sort.Strings(all)
	del := map[string]bool{}
	for _, pat := range pats {
		if strings.HasPrefix(pat, "@subset:") {
			seed, _ := strconv.Atoi(pat[8:])
			rng := rand.New(rand.NewSource(int64(seed)))
			for _, p := range all {
				if rng.Intn(2) == 0 {
					del[p] = true
				}
			}
			continue
		}
		if strings.HasPrefix(pat, "@") {
			continue
		}
		for _, p := range all {
			if ok, _ := filepath.Match(pat, filepath.Base(p)); ok {
				del[p] = true
			}
		}
	}
	for _, p := range all {
		if del[p] {
			os.Remove(p)
			removed = append(removed, filepath.Base(p))
		}
	}
	return removed
}

func (r *crunner) headFromFiles() int {
	head := 0
	filepath.Walk(r.dir, func(p string, info os.FileInfo, err error) error {
		b := filepath.Base(p)
		if err == nil && !info.IsDir() && strings.HasSuffix(b, ".data") && info.Size() > 0 {
			if n, e := strconv.Atoi(b[:3]); e == nil && n+1 > head {
				head = n + 1
			}
		}
		return nil
	})
	return head
}

func (r *crunner) step(i int, o *cop) (stop bool) {
	e := ev{"l": 1, "i": i}
	defer func() {
		if x := recover(); x != nil {
			if f, ok := x.(vFatal); ok {
				e["fatal"] = f.msg
				e["a"] = "Fatal"
				vl.emit(e)
				stop = true
				return
			}
			panic(x)
		}
	}()
	r.takeAppends()
	switch o.Op {
	case "set", "del":
		e["a"], e["p"], e["k"] = "Set", "c1", o.K
		r.ts++
		var ok bool
		var err error
		if o.Op == "del" {
			e["rev"], e["val"], e["flag"], e["nblk"], e["vh"] = -1, 0, 0, 1, 0
			ok, err = r.cl.Delete(o.K)
			if err == nil && !ok {
				e["res"] = "NOT_FOUND"
			}
		} else {
			body, vid := r.valBytes(o.V, o.K, o.NBlk)
			it := &mc.Item{Flag: o.Flag, Exptime: o.Rev, ReceiveTime: time.Unix(1600000000+r.ts, 0)}
			it.CArray.Alloc(len(body))
			copy(it.CArray.Body, body)
			cmem.DBRL.SetData.AddSizeAndCount(it.CArray.Cap)
			e["rev"], e["val"], e["flag"], e["vh"] = o.Rev, vid, o.Flag, int(store.Getvhash(body))
			nb := (24 + len(o.K) + len(body) + 255) / 256
			e["nblk"] = nb
			ok, err = r.cl.Set(o.K, it, false)
		}
		if err != nil {
			e["res"], e["err"] = "err", err.Error()
		} else if ok {
			e["res"] = "ok"
		} else if _, has := e["res"]; !has {
			e["res"] = "err"
		}
		ap := r.takeAppends()
		e["wrote"] = len(ap) > 0
		e["c"], e["off"], e["ver"] = -1, 0, 0
		rot := 0
		for _, a := range ap {
			e["c"], e["off"], e["ver"] = a["c"], a["off"], a["ver"]
			e["nblk"] = a["size"].(int) / 256
			if a["rot"].(bool) {
				rot++
			}
		}
		if len(ap) == 0 {
			if ver, _, _, mok := r.meta(o.K); mok {
				e["ver"] = ver
			}
		}
		vl.emit(e)
		r.settleRot(rot)
		return
	case "get":
		g := r.get(o.K)
		for k, v := range g {
			e[k] = v
		}
		e["a"], e["p"], e["k"] = "Get", "c1", o.K
	case "incr":
		cmem.DBRL.SetData.AddCount(1)
		n, _ := r.cl.Incr(o.K, o.D)
		e["a"], e["p"], e["k"], e["d"], e["res"] = "Incr", "c1", o.K, o.D, n
		e["vh"] = int(store.Getvhash([]byte(strconv.Itoa(n))))
		rot := 0
		for _, a := range r.takeAppends() {
			if a["rot"].(bool) {
				rot++
			}
		}
		vl.emit(e)
		r.settleRot(rot)
		return
	case "readall":
		e["a"], e["reads"] = "ReadAll", r.readAll()
	case "close":
		e["a"], e["p"] = "Close", "closer"
		r.hs.Close()
		r.hs, r.cl = nil, nil
	case "open":
		removed := r.removeIndex(o.Rm)
		head := r.headFromFiles()
		if err := r.open(); err != nil {
			e["err"] = err.Error()
		}
		e["a"], e["p"], e["removed"], e["head"], e["ctab"] = "Open", "c1", removed, head, []string{}
		if r.cl != nil {
			e["meta"] = r.metaAll()
		}
	default:
		return // operations the client API does not have are not part of these scenarios
	}
	vl.emit(e)
	return
}

func (r *crunner) run() {
	r.setup()
	vl.emit(r.confEvent())
	if err := r.open(); err != nil {
		vl.emit(ev{"a": "End", "l": 1, "err": err.Error()})
		return
	}
	for i := range r.sc.Ops {
		if r.step(i, &r.sc.Ops[i]) {
			break
		}
	}
	if r.cl != nil {
		vl.emit(ev{"a": "ReadAll", "l": 1, "final": true, "reads": r.readAll()})
		r.hs.Close()
	}
	vl.emit(ev{"a": "End", "l": 1})
}

func TestVerifClient(t *testing.T) {
	if *vIn == "" {
		t.Skip("no -verif.in")
	}
	loghub.ErrorLogger.Hub = &vHub{}
	loghub.ErrorLogger.SetLevel(loghub.ERROR)
	utils.VerifHook = chook
	f, err := os.Open(*vIn)
	if err != nil {
		t.Fatal(err)
	}
	defer f.Close()
	rd := bufio.NewReaderSize(f, 1<<20)
	n := 0
	for {
		line, err := rd.ReadString('\n')
		if strings.TrimSpace(line) != "" {
			var sc cscen
			if e := json.Unmarshal([]byte(line), &sc); e != nil {
				t.Fatalf("bad scenario: %v", e)
			}
			dir := filepath.Join(*vWork, fmt.Sprintf("c%d", n))
			os.RemoveAll(dir)
			os.MkdirAll(dir, 0777)
			r := &crunner{sc: &sc, dir: dir}
			r.run()
			vl.flush()
			os.RemoveAll(dir)
			n++
		}
		if err != nil {
			break
		}
	}
}
