//go:build verif
// +build verif

package store

// C10 "server-side compression is invisible to clients": scenario interpreter.
//
// One scenario = one CASE enumerated by TLC from spec/Compress.tla (value class, size
// point, content / requested probe ratio, client flag, read path).  The harness CONSTRUCTS
// the value bytes, measures the inputs of Decision (probe ratio, full ratio, sniffed type)
// with quicklz / net/http, stores the value through the real HStore and logs what it
// observes after every step of the path.  It decides nothing: every comparison that leads
// to a verdict is made by TLC (Trace_Compress.tla), except byte equality of the reply with
// the harness's own copy of the value, which is logged as a boolean.

import (
	"bufio"
	"bytes"
	"encoding/json"
	"fmt"
	"io/ioutil"
	"net/http"
	"os"
	"path/filepath"
	"sort"
	"strconv"
	"strings"
	"testing"

	"github.com/douban/gobeansdb/cmem"
	"github.com/douban/gobeansdb/config"
	"github.com/douban/gobeansdb/quicklz"
)

type ccase struct {
	Class    string   `json:"class"`
	SP       string   `json:"sp"`       // size point (name)
	Content  string   `json:"content"`  // const|periodic|text|random|mix|head_c_tail_i|head_i_tail_c|wav|mp3
	Permille int      `json:"permille"` // requested probe ratio for content "mix" (x/1000)
	CFlag    int      `json:"cflag"`    // client flag
	Path     string   `json:"path"`     // read path (name)
	Len      int      `json:"len"`      // value length in bytes
	KSz      int      `json:"ksz"`      // key length in bytes
	Ops      []string `json:"ops"`      // the path spelled out by the specification
}

type cscen struct {
	ID     string `json:"id"`
	Family string `json:"family"`
	Seed   int    `json:"seed"`
	BodyMB int    `json:"bodymax_mb"`
	Case   ccase  `json:"case"`
}

// ---------------------------------------------------------------- value construction

type c10xs uint64

func (x *c10xs) next() byte {
	v := uint64(*x)
	v ^= v << 13
	v ^= v >> 7
	v ^= v << 17
	*x = c10xs(v)
	return byte(v >> 24)
}

func c10newXS(seed int) *c10xs {
	x := c10xs(uint64(seed)*0x9E3779B97F4A7C15 + 0x2545F4914F6CDD1D)
	for i := 0; i < 8; i++ {
		x.next()
	}
	return &x
}

func c10fillRandom(b []byte, x *c10xs) {
	for i := range b {
		b[i] = x.next()
	}
}

func c10fillConst(b []byte, c byte) {
	for i := range b {
		b[i] = c
	}
}

func c10fillPeriodic(b []byte, x *c10xs) {
	var per [37]byte
	for i := range per {
		per[i] = x.next()
	}
	for i := range b {
		b[i] = per[i%len(per)]
	}
}

var c10words = strings.Fields("the quick brown fox jumps over a lazy dog while beansdb stores every value " +
	"in an append only data file and keeps an index of keys in memory so that reads need one seek " +
	"compression is tried on a probe of ten kilobytes and kept when the ratio is good enough")

func c10fillText(b []byte, x *c10xs) {
	i := 0
	for i < len(b) {
		w := c10words[int(x.next())%len(c10words)]
		n := copy(b[i:], w)
		i += n
		if i < len(b) {
			b[i] = ' '
			i++
		}
	}
}

// measured size of the C compressor's output (the same call TryCompress makes)
func c10clen(b []byte) int {
	if len(b) == 0 {
		return 0
	}
	arr, ok := quicklz.CCompress(b)
	if !ok {
		return -1
	}
	n := len(arr.Body)
	arr.Free()
	return n
}

func c10above(c, n int) bool { return c*10 > n*7 }

// region of n bytes = r random bytes followed by a constant run; r is searched so that the
// MEASURED ratio of the region is the closest reachable one on the requested side of 0.7
// (permille < 700: just below or equal; permille > 700: just above).
func c10mixRegion(n int, permille int, x *c10xs) []byte {
	rnd := make([]byte, n)
	c10fillRandom(rnd, x)
	build := func(r int) []byte {
		b := make([]byte, n)
		copy(b, rnd[:r])
		c10fillConst(b[r:], 'm')
		return b
	}
	isAbove := func(r int) bool { return c10above(c10clen(build(r)), n) }
	lo, hi := 0, n // smallest r with isAbove(r) (if monotone)
	if !isAbove(n) {
		return build(n)
	}
	for lo < hi {
		mid := (lo + hi) / 2
		if isAbove(mid) {
			hi = mid
		} else {
			lo = mid + 1
		}
	}
	r := lo
	if permille > 700 {
		for r < n && !isAbove(r) {
			r++
		}
		return build(r)
	}
	r--
	for r > 0 && isAbove(r) {
		r--
	}
	if r < 0 {
		r = 0
	}
	return build(r)
}

const c10probe = 10240

func c10buildValue(c *ccase, seed int) []byte {
	n := c.Len
	b := make([]byte, n)
	x := c10newXS(seed)
	switch c.Content {
	case "const":
		c10fillConst(b, 'c')
	case "periodic":
		c10fillPeriodic(b, x)
	case "text":
		c10fillText(b, x)
	case "random":
		c10fillRandom(b, x)
	case "mix":
		pn := n
		if pn > c10probe {
			pn = c10probe
		}
		reg := c10mixRegion(pn, c.Permille, x)
		for off := 0; off < n; off += pn { // the tail repeats the same mix with fresh random bytes
			k := copy(b[off:], reg)
			if off > 0 {
				r := 0
				for r < k && reg[r] != 'm' {
					r++
				}
				c10fillRandom(b[off:off+c10min(r, k)], x)
			}
		}
	case "head_c_tail_i": // the probe compresses, the whole value does not
		h := c10min(n, c10probe)
		c10fillText(b[:h], x)
		c10fillRandom(b[h:], x)
	case "head_i_tail_c": // the probe does not compress, the whole value would
		h := c10min(n, c10probe)
		c10fillRandom(b[:h], x)
		c10fillConst(b[h:], 't')
	case "wav":
		c10fillConst(b, 0)
		copy(b, []byte("RIFF\x24\x08\x00\x00WAVEfmt \x10\x00\x00\x00\x01\x00\x02\x00\x44\xac\x00\x00\x10\xb1\x02\x00\x04\x00\x10\x00data"))
	case "mp3":
		c10fillConst(b, 0)
		copy(b, []byte("ID3\x03\x00\x00\x00\x00\x0f\x76TIT2"))
	default:
		c10fillConst(b, '?')
	}
	// make values of one scenario distinct from each other even for constant content
	return b
}

func c10min(a, b int) int {
	if a < b {
		return a
	}
	return b
}

// ---------------------------------------------------------------- independent value hash
// transcribed from the beansdb definition (NOT calling store.Getvhash / utils.Fnv1a):
// fnv1a over SIGN-EXTENDED bytes; hash = len*97 + fnv(v) if len <= 1024,
// else (len*97 + fnv(v[:512]))*97 + fnv(v[len-512:]); truncated to 16 bits.
func c10refFnv(b []byte) uint32 {
	h := uint32(2166136261)
	for _, c := range b {
		var s uint32
		if c >= 0x80 {
			s = 0xffffff00 | uint32(c)
		} else {
			s = uint32(c)
		}
		h ^= s
		h *= 16777619
	}
	return h
}

func c10refVHash(v []byte) int {
	n := len(v)
	h := uint32(n) * 97
	if n <= 1024 {
		h += c10refFnv(v)
	} else {
		h += c10refFnv(v[:512])
		h *= 97
		h += c10refFnv(v[n-512:])
	}
	return int(h & 0xffff)
}

// ---------------------------------------------------------------- codec cross-check

func c10safely(f func() bool) (ok bool, perr string) {
	defer func() {
		if e := recover(); e != nil {
			ok = false
			perr = fmt.Sprint(e)
		}
	}()
	return f(), ""
}

// both directions between the C and the Go QuickLZ, and the safe entry points
func c10codecCross(v []byte, stored []byte) ev {
	out := ev{}
	errs := []string{}
	put := func(name string, f func() bool) {
		ok, perr := c10safely(f)
		out[name] = ok
		if perr != "" {
			errs = append(errs, name+": "+perr)
		}
	}
	cc, okc := quicklz.CCompress(v)
	if !okc {
		out["skipped"] = "CCompress failed (oom)"
		return out
	}
	defer cc.Free()
	put("c2g", func() bool { return bytes.Equal(quicklz.Decompress(cc.Body), v) })
	put("c2gs", func() bool {
		d, err := quicklz.DecompressSafe(cc.Body)
		return err == nil && bytes.Equal(d, v)
	})
	put("c2cs", func() bool {
		d, err := quicklz.CDecompressSafe(cc.Body)
		if err != nil {
			return false
		}
		defer d.Free()
		return bytes.Equal(d.Body, v)
	})
	var gc []byte
	put("gcomp", func() bool { gc = quicklz.Compress(v, 3); return len(gc) > 0 })
	if len(gc) > 0 {
		put("g2cs", func() bool {
			d, err := quicklz.CDecompressSafe(gc)
			if err != nil {
				return false
			}
			defer d.Free()
			return bytes.Equal(d.Body, v)
		})
		put("g2gs", func() bool {
			d, err := quicklz.DecompressSafe(gc)
			return err == nil && bytes.Equal(d, v)
		})
		out["sized"] = quicklz.SizeDecompressed(gc) == len(v) && quicklz.SizeCompressed(gc) == len(gc) &&
			quicklz.SizeDecompressed(cc.Body) == len(v) && quicklz.SizeCompressed(cc.Body) == len(cc.Body)
	} else {
		out["g2cs"], out["g2gs"], out["sized"] = false, false, false
	}
	if stored != nil { // what the store actually kept, read by the Go implementation
		put("s2g", func() bool {
			d, err := quicklz.DecompressSafe(stored)
			return err == nil && bytes.Equal(d, v)
		})
	} else {
		out["s2g"] = true
	}
	if len(errs) > 0 {
		out["errs"] = errs
	}
	return out
}

// ---------------------------------------------------------------- the interpreter

type crunner struct {
	r      *runner
	cs     *cscen
	key    string // model key of the case value
	vals   map[string][]byte
	ts     uint32
	nset   int
	filler int
}

func (c *crunner) realKey(m string, ksz int) string {
	s := m + "-c10"
	for len(s) < ksz {
		s += "x"
	}
	return s[:c10max(ksz, 1)] // the first byte tells the keys apart
}

func c10max(a, b int) int {
	if a > b {
		return a
	}
	return b
}

func (c *crunner) ki(m string) *KeyInfo {
	key := []byte(c.r.real(m))
	return NewKeyInfoFromBytes(key, getKeyHash(key), false)
}

// set value v for model key m with client flag; logs the inputs of Decision
func (c *crunner) set(m string, v []byte, cflag int, role string) ev {
	e := ev{"a": "CSet", "l": 1, "k": m, "role": role, "cflag": cflag, "len": len(v)}
	key := []byte(c.r.real(m))
	e["ksz"] = len(key)
	e["recsize"] = 24 + len(key) + len(v)
	pl := c10min(len(v), c10probe)
	e["probe_len"] = pl
	e["probe_c"] = c10clen(v[:pl])
	e["full_c"] = c10clen(v)
	mime := http.DetectContentType(v[:pl])
	e["mime"] = mime
	_, nc := Conf.NotCompress[mime]
	e["nocomp"] = nc
	e["vh"] = c10refVHash(v)
	c.vals[m] = v
	c.nset++
	e["id"] = c.nset

	p := &Payload{}
	p.Flag = uint32(cflag)
	p.Ver = 0
	c.ts++
	p.TS = c.ts
	p.CArray.Alloc(len(v))
	copy(p.CArray.Body, v)
	cmem.DBRL.SetData.AddSizeAndCount(p.CArray.Cap)
	vs.setProc("c1")
	err := c.r.store.Set(c.ki(m), p)
	if err == nil {
		e["res"] = "ok"
	} else {
		e["res"], e["err"] = "err", err.Error()
	}
	// what the store kept (internal: inputs of the drift comparison and of the codec check only)
	e["sflag"] = int(p.Flag)
	e["slen"] = len(p.Body)
	e["svh"] = c10refVHash(p.Body) // hash of the STORED bytes: lets TLC name "vhash of compressed bytes"
	var stored []byte
	if p.Flag&FLAG_COMPRESS != 0 {
		stored = append([]byte(nil), p.Body...)
	}
	if len(v) > 0 {
		e["codec"] = c10codecCross(v, stored)
	} else {
		e["codec"] = ev{"c2g": true, "c2gs": true, "c2cs": true, "gcomp": true, "g2cs": true, "g2gs": true, "sized": true, "s2g": true, "empty": true}
	}
	return e
}

func (c *crunner) getObs(m string) ev {
	g := ev{"res": "miss", "eq": false, "flag": -1, "len": -1, "ver": 0, "c": -1, "off": -1}
	vs.setProc("c1")
	p, pos, err := c.r.store.Get(c.ki(m), false)
	if err != nil {
		g["res"], g["err"] = "err", err.Error()
		return g
	}
	if p == nil {
		return g
	}
	g["res"] = "hit"
	g["ver"] = int(p.Ver)
	g["flag"] = int(p.Flag)
	g["len"] = len(p.Body)
	g["eq"] = bytes.Equal(p.Body, c.vals[m])
	g["c"], g["off"] = pos.ChunkID, int(pos.Offset)/256
	cmem.DBRL.GetData.SubSizeAndCount(p.CArray.Cap)
	p.CArray.Free()
	return g
}

func (c *crunner) treeObs(m string) ev {
	t := ev{"found": false, "vh": -1, "ver": 0}
	p, _, err := c.r.store.Get(c.ki(m), true)
	if err != nil || p == nil {
		return t
	}
	t["found"], t["vh"], t["ver"] = true, int(p.ValueHash), int(p.Ver)
	return t
}

// newest on-disk record of the key, read with the independent scanner
func (c *crunner) diskObs(m string) ev {
	d := ev{"found": false, "flag": -1, "vsz": -1, "nblk": -1, "nrec": 0, "c": -1, "ver": 0, "vh": -1}
	real := c.r.real(m)
	names, _ := filepath.Glob(GetBucketPath(c.r.sc.Conf.Bucket) + "/*.data")
	sort.Strings(names)
	nrec := 0
	for _, p := range names {
		ch, err := strconv.Atoi(filepath.Base(p)[:3])
		if err != nil {
			continue
		}
		b, err := ioutil.ReadFile(p)
		if err != nil {
			continue
		}
		for _, x := range refScanBytes(b) {
			if x.Key != real {
				continue
			}
			nrec++
			if int(x.Ver) >= d["ver"].(int) {
				d["found"], d["flag"], d["vsz"], d["nblk"], d["c"], d["ver"] = true, int(x.Flag), len(x.Body), x.NBlk, ch, int(x.Ver)
				d["vh"] = c10refVHash(x.Body)
			}
		}
	}
	d["nrec"] = nrec
	return d
}

// hint items of the key in the hint files on disk (the store is closed or quiescent)
func (c *crunner) hintObs(m string) []ev {
	out := []ev{}
	real := c.r.real(m)
	names, _ := filepath.Glob(GetBucketPath(c.r.sc.Conf.Bucket) + "/*.idx.s")
	sort.Strings(names)
	for _, p := range names {
		ch, err := strconv.Atoi(filepath.Base(p)[:3])
		if err != nil {
			continue
		}
		func() {
			defer func() { recover() }()
			rd := newHintFileReader(p, ch, 1<<14)
			if rd.open() != nil {
				return
			}
			defer rd.close()
			for {
				it, e := rd.next()
				if e != nil || it == nil {
					return
				}
				if it.Key == real {
					out = append(out, ev{"c": ch, "vh": int(it.Vhash), "ver": int(it.Ver), "off": int(it.Pos.Offset) / 256})
				}
			}
		}()
	}
	return out
}

func (c *crunner) observe(e ev, m string) {
	if c.r.store != nil {
		e["get"] = c.getObs(m)
		e["tree"] = c.treeObs(m)
	} else {
		e["get"] = ev{"res": "down", "eq": false, "flag": -1, "len": -1, "ver": 0, "c": -1, "off": -1}
		e["tree"] = ev{"found": false, "vh": -1, "ver": 0}
	}
	e["disk"] = c.diskObs(m)
	e["hints"] = c.hintObs(m)
}

func (c *crunner) op(name string) (e ev, stop bool) {
	cs := &c.cs.Case
	e = ev{"a": "C" + strings.Title(name), "l": 1}
	defer func() {
		if x := recover(); x != nil {
			if f, ok := x.(vFatal); ok {
				e["fatal"] = f.msg
				stop = true
				return
			}
			panic(x)
		}
	}()
	switch name {
	case "prev": // an older value of the same key (compressible text, no client flag), superseded by the case value
		n := 3000 + c.cs.Seed%7
		b := make([]byte, n)
		c10fillText(b, c10newXS(c.cs.Seed+77))
		e = c.set(c.key, b, 0, "prev")
	case "set":
		e = c.set(c.key, c10buildValue(cs, c.cs.Seed), cs.CFlag, "case")
	case "filler": // a small record of another key so that the next file exists (GC eligibility)
		c.filler++
		b := []byte(fmt.Sprintf("filler-%d", c.filler))
		e = c.set("f", b, 0, "filler")
		e["a"] = "CFiller"
		delete(e, "codec")
		return
	case "get":
		e["a"] = "CGet"
	case "flush":
		vs.setProc("flusher")
		c.r.store.flushdatas(true)
	case "close":
		vs.setProc("closer")
		c.r.store.Close()
		c.r.store, c.r.bkt = nil, nil
	case "open", "open_rmhint", "open_rmtree", "open_rmall":
		pats := map[string][]string{"open": nil, "open_rmhint": {"*.idx.s", "*.idx.m"}, "open_rmtree": {"*.idx.hash"},
			"open_rmall": {"*.idx.s", "*.idx.m", "*.idx.hash"}}[name]
		removed := []string{}
		home := GetBucketPath(c.r.sc.Conf.Bucket)
		for _, pat := range pats {
			ms, _ := filepath.Glob(filepath.Join(home, pat))
			for _, p := range ms {
				os.Remove(p)
				removed = append(removed, filepath.Base(p))
			}
		}
		sort.Strings(removed)
		e["a"], e["removed"], e["rmhint"], e["rmtree"] = "COpen", removed, name == "open_rmhint" || name == "open_rmall", name == "open_rmtree" || name == "open_rmall"
		vs.setProc("opener")
		if err := c.r.open(); err != nil {
			e["err"] = err.Error()
			if strings.Contains(err.Error(), "did not finish") { // the harness's own 20 s wait, not the store
				e["harness_timeout"] = true
			}
			stop = true
			return
		}
		e["head"] = c.r.bkt.datas.newHead
	case "gc":
		vs.setProc("gc")
		e["a"] = "CGC"
		b, en, err := c.r.bkt.gcCheckRange(0, -1, 0)
		if err != nil {
			e["res"], e["err"], e["released"], e["rb"], e["re"] = "refused", err.Error(), 0, -1, -1
		} else {
			c.r.store.gcMgr.gc(c.r.bkt, b, en, false)
			st := c.r.bkt.GCHistory[len(c.r.bkt.GCHistory)-1]
			e["res"], e["rb"], e["re"], e["released"] = "ok", b, en, int(st.NumReleased)
			if st.Err != nil {
				e["res"], e["err"] = "err", st.Err.Error()
			}
		}
	default:
		e["res"] = "unknown-op"
	}
	c.observe(e, c.key)
	return
}

func (c *crunner) run(dir string) {
	cs := c.cs
	sc := &scen{ID: cs.ID, Family: "compress"}
	sc.Conf = sconf{Buckets: 16, Bucket: 15, Height: 3, FileMaxBlk: 1 << 22, SplitCap: 16, BodyMaxBlk: 1, RotFlush: "auto"}
	c.key = "k"
	sc.Keys = map[string]string{"k": c.realKey("k", cs.Case.KSz), "f": c.realKey("f", 8)}
	r := &runner{sc: sc, dir: dir}
	r.vals = map[string]int{}
	r.pendingRot = map[int]bool{}
	r.keys = []string{"f", "k"}
	c.r = r
	c.vals = map[string][]byte{}
	vs.reset()
	r.setup()
	defer func() { getKeyHash = getKeyHashDefalut }()
	mb := cs.BodyMB
	if mb <= 0 {
		mb = 1
	}
	config.MCConf.BodyMax = int64(mb) << 20
	conf := ev{}
	cb, _ := json.Marshal(cs.Case)
	json.Unmarshal(cb, &conf)
	vl.emit(ev{"a": "Reset", "sid": cs.ID, "l": 1, "case": conf, "seed": cs.Seed})
	if err := r.open(); err != nil {
		vl.emit(ev{"a": "Abort", "l": 1, "err": err.Error(), "harness_timeout": strings.Contains(err.Error(), "did not finish")})
		vl.emit(ev{"a": "End", "l": 1, "sid": cs.ID})
		return
	}
	for _, name := range cs.Case.Ops {
		e, stop := c.op(name)
		vl.emit(e)
		if stop {
			vl.emit(ev{"a": "Abort", "l": 1, "err": "stopped at " + name})
			break
		}
	}
	if r.store != nil {
		// the final shutdown runs the store's code too: a Fatalf there (e.g. flush refusing a record)
		// is an observation, not a harness crash
		func() {
			defer func() {
				if x := recover(); x != nil {
					if f, ok := x.(vFatal); ok {
						vl.emit(ev{"a": "Abort", "l": 1, "err": "final close: " + f.msg})
						return
					}
					panic(x)
				}
			}()
			r.store.Close()
		}()
		r.store, r.bkt = nil, nil
	}
	vl.emit(ev{"a": "End", "l": 1, "sid": cs.ID})
}

func TestVerifCompress(t *testing.T) {
	if *vIn == "" {
		t.Skip("no -verif.in")
	}
	vInstall()
	f, err := os.Open(*vIn)
	if err != nil {
		t.Fatal(err)
	}
	defer f.Close()
	rd := bufio.NewReaderSize(f, 1<<20)
	n := 0
	for {
		line, err := rd.ReadString('\n')
		if strings.TrimSpace(line) != "" {
			var cs cscen
			if e := json.Unmarshal([]byte(line), &cs); e != nil {
				t.Fatalf("bad scenario: %v", e)
			}
			dir := filepath.Join(*vWork, fmt.Sprintf("c%d", n))
			os.RemoveAll(dir)
			os.MkdirAll(dir, 0777)
			c := &crunner{cs: &cs}
			c.run(dir)
			vl.flush()
			os.RemoveAll(dir)
			n++
		}
		if err != nil {
			break
		}
	}
}
