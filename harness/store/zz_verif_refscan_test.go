//go:build verif
// +build verif

package store

// Independent record scanner (does not use the repository's reader): walks a data file
// in 256-byte steps, parses the 24-byte little-endian header, checks sizes and the
// IEEE CRC-32 with the standard library.

import (
	"crypto/sha1"
	"encoding/binary"
	"encoding/hex"
	stdcrc "hash/crc32"
	"io/ioutil"
	"path/filepath"
	"strconv"

	"github.com/douban/gobeansdb/quicklz"
)

type refRec struct {
	Off  int
	NBlk int
	Key  string
	Ver  int32
	Flag uint32
	TS   uint32
	Body []byte
}

func refScanBytes(b []byte) (recs []refRec) {
	for off := 0; off+24 <= len(b); {
		crc := binary.LittleEndian.Uint32(b[off:])
		ts := binary.LittleEndian.Uint32(b[off+4:])
		flag := binary.LittleEndian.Uint32(b[off+8:])
		ver := int32(binary.LittleEndian.Uint32(b[off+12:]))
		ksz := int(binary.LittleEndian.Uint32(b[off+16:]))
		vsz := int(binary.LittleEndian.Uint32(b[off+20:]))
		ok := ksz > 0 && ksz <= 250 && vsz >= 0 && vsz <= 60<<20 && off+24+ksz+vsz <= len(b)
		if ok {
			h := stdcrc.NewIEEE()
			h.Write(b[off+4 : off+24+ksz+vsz])
			ok = h.Sum32() == crc
		}
		if !ok {
			off += 256
			continue
		}
		size := 24 + ksz + vsz
		padded := (size + 255) / 256 * 256
		recs = append(recs, refRec{Off: off / 256, NBlk: padded / 256, Key: string(b[off+24 : off+24+ksz]),
			Ver: ver, Flag: flag, TS: ts, Body: b[off+24+ksz : off+size]})
		off += padded
	}
	return
}

// scan every data file of the bucket: chunk -> [[key, ver, valueid, off, nblk], ...]
func (r *runner) refScanAll() ev {
	out := ev{}
	names, _ := filepath.Glob(r.bkt.Home + "/*.data")
	for _, p := range names {
		c, err := strconv.Atoi(filepath.Base(p)[:3])
		if err != nil {
			continue
		}
		b, err := ioutil.ReadFile(p)
		if err != nil {
			continue
		}
		l := []interface{}{}
		for _, x := range refScanBytes(b) {
			val := 0
			if x.Ver > 0 {
				body := x.Body
				if x.Flag&FLAG_COMPRESS != 0 {
					// a server-compressed record: the value is identified by its decompressed bytes (quicklz is the one
					// piece of the repository this scanner borrows; an undecodable body stays unidentified = -1)
					if d, err := quicklz.DecompressSafe(body); err == nil {
						body = d
					}
				}
				val = r.identify(body, x.Flag)
			}
			l = append(l, []interface{}{mk(x.Key), x.Ver, val, x.Off, x.NBlk})
		}
		out[strconv.Itoa(c)] = l
	}
	return out
}

type fileInv struct {
	Size int
	Data []byte
}

func (r *runner) inventory() map[int]fileInv {
	out := map[int]fileInv{}
	names, _ := filepath.Glob(r.bkt.Home + "/*.data")
	for _, p := range names {
		c, err := strconv.Atoi(filepath.Base(p)[:3])
		if err != nil {
			continue
		}
		b, err := ioutil.ReadFile(p)
		if err != nil {
			continue
		}
		out[c] = fileInv{len(b), b}
	}
	return out
}

func sha(b []byte) string {
	s := sha1.Sum(b)
	return hex.EncodeToString(s[:8])
}

// frame: for every data file that existed before: [beforeBlocks, afterBlocks (-1 = gone), prefixUnchanged]
func frameOf(before, after map[int]fileInv) (ev, []int) {
	out := ev{}
	created := []int{}
	for c, b := range before {
		a, ok := after[c]
		if !ok {
			out[strconv.Itoa(c)] = []interface{}{b.Size / 256, -1, false}
			continue
		}
		same := a.Size >= b.Size && sha(a.Data[:b.Size]) == sha(b.Data)
		out[strconv.Itoa(c)] = []interface{}{b.Size / 256, a.Size / 256, same}
	}
	for c := range after {
		if _, ok := before[c]; !ok {
			created = append(created, c)
		}
	}
	return out, created
}
