//go:build verif
// +build verif

package store

// Crash family (C06, C07): directory snapshots at every file-system mutation boundary
// (fs.pre / fs.post hooks), torn variants of data appends, and recovery of every snapshot
// by a FRESH child process (logger.Fatalf is os.Exit(1) there, as in the real server).

import (
	"bufio"
	"encoding/binary"
	"encoding/json"
	"fmt"
	"io"
	"io/ioutil"
	"os"
	"os/exec"
	"path/filepath"
	"sort"
	"strconv"
	"strings"
	"testing"

	"github.com/douban/gobeansdb/utils"
)

type snapInfo struct {
	Idx    int    `json:"idx"`
	Dir    string `json:"dir"`   // snapshot home (a full copy of Conf.Home)
	Kind   string `json:"kind"`  // fs kind
	Phase  string `json:"phase"` // pre | post | torn
	Path   string `json:"path"`
	Torn   int    `json:"torn"`  // bytes of the new data present (torn variants)
	Inside bool   `json:"inside"` // the cut falls inside a record (TornTail)
	NRecs  int    `json:"nrecs"` // records appended so far (w.append count)
	Op     int    `json:"op"`    // index of the operation in progress
	InGC   bool   `json:"ingc"`
}

type crashCtl struct {
	root    string // where snapshots go
	home    string // Conf.Home
	bhome   string // bucket home
	snaps   []snapInfo
	nrecs   int
	op      int
	ingc    bool
	lastPre map[string][]byte // data file image at fs.pre (for torn variants)
	maxTorn int
	seed    int
}

func copyTree(src, dst string) error {
	return filepath.Walk(src, func(p string, st os.FileInfo, err error) error {
		if err != nil {
			return nil
		}
		rel, _ := filepath.Rel(src, p)
		t := filepath.Join(dst, rel)
		if st.IsDir() {
			return os.MkdirAll(t, 0777)
		}
		b, e := ioutil.ReadFile(p)
		if e != nil {
			return nil
		}
		return ioutil.WriteFile(t, b, 0666)
	})
}

func (c *crashCtl) take(kind, phase, path string, torn int, inside bool) string {
	idx := len(c.snaps)
	dir := filepath.Join(c.root, fmt.Sprintf("snap%04d", idx))
	copyTree(c.home, dir)
	c.snaps = append(c.snaps, snapInfo{Idx: idx, Dir: dir, Kind: kind, Phase: phase, Path: baseName(path),
		Torn: torn, Inside: inside, NRecs: c.nrecs, Op: c.op, InGC: c.ingc})
	return dir
}

// fs.* callback
func (c *crashCtl) onFS(kind, phase, path string) {
	isData := kind == "data.flush" || kind == "data.gcappend"
	if phase == "pre" {
		// (the pre-image equals the previous post-image in sequential runs: not recovered again)
		if isData {
			b, _ := ioutil.ReadFile(path)
			c.lastPre[path] = b
		}
		return
	}
	// post
	if isData {
		pre := c.lastPre[path]
		post, _ := ioutil.ReadFile(path)
		c.tornVariants(kind, path, pre, post)
	}
	c.take(kind, "post", path, 0, false)
}

// synthesise what a kill in the middle of the write would leave: the pre-image plus the first n
// changed bytes, n at every 256-byte boundary and at a few unaligned cuts
func (c *crashCtl) tornVariants(kind, path string, pre, post []byte) {
	lo := 0
	for lo < len(pre) && lo < len(post) && pre[lo] == post[lo] {
		lo++
	}
	if kind == "data.flush" {
		lo = len(pre) // pure append
	} else {
		lo = lo / 256 * 256
	}
	hi := len(post)
	if hi <= lo {
		return
	}
	cuts := []int{}
	for n := 256; lo+n < hi; n += 256 {
		cuts = append(cuts, n)
	}
	cuts = append(cuts, 7, 24+3, 200, (hi-lo)-1, (hi-lo)-130)
	seen := map[int]bool{}
	recs := refScanBytes(post)
	count := 0
	for _, n := range cuts {
		if n <= 0 || lo+n >= hi || seen[n] || count >= c.maxTorn {
			continue
		}
		seen[n] = true
		count++
		img := make([]byte, 0, len(post))
		img = append(img, pre...)
		if len(img) < lo+n {
			img = append(img, make([]byte, lo+n-len(img))...)
		}
		copy(img[lo:lo+n], post[lo:lo+n])
		// inside a record? (cut position not at a record boundary of the new image)
		inside := true
		for _, r := range recs {
			if r.Off*256 == lo+n {
				inside = false
			}
		}
		dir := c.take(kind, "torn", path, n, inside)
		rel, _ := filepath.Rel(c.home, path)
		ioutil.WriteFile(filepath.Join(dir, rel), img, 0666)
	}
}

// ---- child side -------------------------------------------------------------------

type childReq struct {
	Conf  sconf             `json:"conf"`
	Keys  []string          `json:"keys"`
	Real  map[string]string `json:"real"`
	Snaps []snapInfo        `json:"snaps"`
	Vals  map[string]int    `json:"vals"` // hex(bytes) -> id is too big; children get sizes/ids by regeneration
	Gen   []genSpec         `json:"gen"`
}

type genSpec struct {
	V    int    `json:"v"`
	Key  string `json:"key"`
	NBlk int    `json:"nblk"`
}

// TestVerifChild opens each snapshot in turn in THIS (fresh) process and prints one JSON line per
// snapshot; a Fatalf ends the process with status 1 after printing which snapshot refused.
func TestVerifChild(t *testing.T) {
	if *vChild == "" {
		t.Skip("no -verif.child")
	}
	b, err := ioutil.ReadFile(*vChild)
	if err != nil {
		t.Fatal(err)
	}
	var req childReq
	if err := json.Unmarshal(b, &req); err != nil {
		t.Fatal(err)
	}
	out := bufio.NewWriter(os.Stdout)
	defer out.Flush()
	logger.Hub = &childHub{out: out}
	logger.SetLevel(4)
	utils.VerifHook = vhook
	for _, sn := range req.Snaps {
		sc := &scen{ID: "child", Conf: req.Conf, Keys: req.Real}
		r := &runner{sc: sc, dir: sn.Dir, keys: req.Keys, vals: map[string]int{}, pendingRot: map[int]bool{}, rotHandled: map[int]bool{}}
		for _, g := range req.Gen {
			r.valBytes(g.V, g.Key, g.NBlk)
		}
		vs.reset()
		r.setup()
		vs.gateRot = false
		curSnap = sn.Idx
		res := ev{"idx": sn.Idx}
		if err := r.open(); err != nil {
			res["started"], res["err"] = false, err.Error()
		} else {
			res["started"] = true
			res["reads"] = r.readAll()
			res["head"] = r.bkt.datas.newHead
		}
		jb, _ := json.Marshal(res)
		fmt.Fprintf(out, "VERIF-CHILD %s\n", jb)
		out.Flush()
	}
}

var curSnap int

type childHub struct{ out *bufio.Writer }

func (h *childHub) Log(name string, level int, file string, line int, msg string) {
	if level == 4 { // FATAL: exactly what the real hub does, plus a marker for the parent
		jb, _ := json.Marshal(ev{"idx": curSnap, "started": false, "fatal": fmt.Sprintf("%s:%d %s", file, line, msg)})
		fmt.Fprintf(h.out, "VERIF-CHILD %s\n", jb)
		h.out.Flush()
		os.Exit(1)
	}
}
func (h *childHub) Reopen(path string) error            { return nil }
func (h *childHub) GetLastLog() []byte                  { return nil }
func (h *childHub) DumpBuffer(all bool, out2 io.Writer) {}

// ---- parent side ------------------------------------------------------------------

// durable records of a snapshot: independent scan of its data files
func scanSnapshot(bhome string, ident func([]byte, uint32) int) ([]interface{}, bool, []int) {
	out := []interface{}{}
	unaligned := false
	names, _ := filepath.Glob(bhome + "/*.data")
	sort.Strings(names)
	for _, p := range names {
		b, err := ioutil.ReadFile(p)
		if err != nil {
			continue
		}
		if len(b)%256 != 0 {
			unaligned = true
		}
		c, _ := strconv.Atoi(filepath.Base(p)[:3])
		for _, x := range refScanBytes(b) {
			val := 0
			if x.Ver > 0 {
				val = ident(x.Body, x.Flag)
			}
			out = append(out, []interface{}{mk(x.Key), x.Ver, val, c, x.Off})
		}
	}
	// hint files whose datasize exceeds the data file (finding F11 signature)
	ahead := []int{}
	hs, _ := filepath.Glob(bhome + "/*.idx.s")
	for _, p := range hs {
		f, err := os.Open(p)
		if err != nil {
			continue
		}
		var h [16]byte
		n, _ := f.ReadAt(h[:], 0)
		f.Close()
		if n < 16 {
			continue
		}
		ds := int64(binary.LittleEndian.Uint32(h[12:16]))
		c, _ := strconv.Atoi(filepath.Base(p)[:3])
		st, err := os.Stat(filepath.Join(bhome, fmt.Sprintf("%03d.data", c)))
		sz := int64(0)
		if err == nil {
			sz = st.Size()
		}
		if ds > sz {
			ahead = append(ahead, c)
		}
	}
	return out, unaligned, ahead
}

func (r *runner) recoverSnaps(c *crashCtl, gen []genSpec) []ev {
	if len(c.snaps) == 0 {
		return nil
	}
	results := map[int]ev{}
	pending := c.snaps
	for len(pending) > 0 {
		req := childReq{Conf: r.sc.Conf, Keys: r.keys, Real: r.sc.Keys, Snaps: pending, Gen: gen}
		req.Conf.Micro = false
		jb, _ := json.Marshal(req)
		reqf := filepath.Join(c.root, "child.json")
		ioutil.WriteFile(reqf, jb, 0666)
		cmd := exec.Command(os.Args[0], "-test.run", "^TestVerifChild$", "-verif.child", reqf)
		cmd.Dir, _ = os.Getwd()
		outb, _ := cmd.Output()
		done := 0
		for _, line := range strings.Split(string(outb), "\n") {
			if !strings.HasPrefix(line, "VERIF-CHILD ") {
				continue
			}
			var e ev
			if json.Unmarshal([]byte(line[len("VERIF-CHILD "):]), &e) == nil {
				idx := int(e["idx"].(float64))
				results[idx] = e
				done++
			}
		}
		if done == 0 { // the child died without a word: do not loop forever
			for _, s := range pending {
				results[s.Idx] = ev{"idx": s.Idx, "started": false, "childdied": true}
			}
			break
		}
		rest := []snapInfo{}
		for _, s := range pending {
			if _, ok := results[s.Idx]; !ok {
				rest = append(rest, s)
			}
		}
		pending = rest
	}
	out := []ev{}
	for _, s := range c.snaps {
		e := results[s.Idx]
		if e == nil {
			e = ev{"started": false, "childdied": true}
		}
		rel, _ := filepath.Rel(c.home, c.bhome)
		dur, unaligned, ahead := scanSnapshot(filepath.Join(s.Dir, rel), r.identify)
		e["a"], e["l"] = "Recovered", 1
		e["kind"], e["phase"], e["path"], e["torn"], e["inside"] = s.Kind, s.Phase, s.Path, s.Torn, s.Inside
		e["nrecs"], e["op"], e["ingc"] = s.NRecs, s.Op, s.InGC
		e["durable"], e["unaligned"], e["hintahead"] = dur, unaligned, ahead
		out = append(out, e)
		os.RemoveAll(s.Dir)
	}
	c.snaps = nil
	return out
}
