//go:build verif
// +build verif

package store

// Verification harness, injected into package store with `go test -overlay`
// (never copied into /repo).  This file: event log, hook dispatcher, gates.

import (
	"bytes"
	"encoding/json"
	"flag"
	"fmt"
	"io"
	"os"
	"runtime"
	"strconv"
	"strings"
	"sync"
	"testing"
	"time"

	"github.com/douban/gobeansdb/loghub"
	"github.com/douban/gobeansdb/utils"
)

var (
	vIn    = flag.String("verif.in", "", "scenario file (ndjson)")
	vOut   = flag.String("verif.out", "", "trace file (ndjson)")
	vWork  = flag.String("verif.work", "", "scratch directory")
	vChild = flag.String("verif.child", "", "child mode: json request")
)

type ev map[string]interface{}

type vlog struct {
	mu  sync.Mutex
	w   io.Writer
	seq int
	buf bytes.Buffer
}

var vl = &vlog{}

func (l *vlog) emit(e ev) {
	l.mu.Lock()
	l.seq++
	e["n"] = l.seq
	b, err := json.Marshal(e)
	if err != nil {
		panic(err)
	}
	l.buf.Write(b)
	l.buf.WriteByte('\n')
	l.mu.Unlock()
}

func (l *vlog) flush() {
	l.mu.Lock()
	if l.w != nil {
		l.w.Write(l.buf.Bytes())
	}
	l.buf.Reset()
	l.mu.Unlock()
}

// goroutine id (verif builds only)
func goid() int64 {
	var b [64]byte
	n := runtime.Stack(b[:], false)
	s := strings.TrimPrefix(string(b[:n]), "goroutine ")
	i := strings.IndexByte(s, ' ')
	id, _ := strconv.ParseInt(s[:i], 10, 64)
	return id
}

// ---- process naming ---------------------------------------------------------

type vstate struct {
	mu       sync.Mutex
	procOf   map[int64]string // goroutine -> process name
	micro    bool             // log micro events
	gateRot  bool             // park spawned rotation flushers at f.enter
	rotGate  map[int]chan struct{}
	rotDone  map[int]chan struct{}
	rotSeen  map[int]bool
	bgDone   chan struct{}
	snap     func(kind, phase, path string) // fs.* callback (crash family)
	gate     func(proc, point string)       // generic gate (conc family)
	gateArgs func(proc, point string, a []interface{})
	keyName  map[string]string              // real key -> model key
	hashName map[uint64]string              // real hash -> model hash id
	bucket   int
	home     string // Conf.Home of the running scenario
	crash    *crashCtl
}

var vs = &vstate{}

func (s *vstate) reset() {
	s.mu.Lock()
	s.procOf = map[int64]string{}
	s.rotGate = map[int]chan struct{}{}
	s.rotDone = map[int]chan struct{}{}
	s.rotSeen = map[int]bool{}
	s.bgDone = make(chan struct{}, 16)
	s.keyName = map[string]string{}
	s.hashName = map[uint64]string{}
	s.snap = nil
	s.gate = nil
	s.gateArgs = nil
	s.crash = nil
	s.mu.Unlock()
}

func (s *vstate) setProc(name string) {
	s.mu.Lock()
	s.procOf[goid()] = name
	s.mu.Unlock()
}

func (s *vstate) proc() string {
	s.mu.Lock()
	p, ok := s.procOf[goid()]
	s.mu.Unlock()
	if !ok {
		return ""
	}
	return p
}

func (s *vstate) rotChans(c int) (gate, done chan struct{}) {
	s.mu.Lock()
	defer s.mu.Unlock()
	if s.rotGate[c] == nil {
		s.rotGate[c] = make(chan struct{})
		s.rotDone[c] = make(chan struct{})
	}
	return s.rotGate[c], s.rotDone[c]
}

func mk(k string) string { // model name of a real key
	vs.mu.Lock()
	defer vs.mu.Unlock()
	if m, ok := vs.keyName[k]; ok {
		return m
	}
	return k
}

func mh(h uint64) string {
	vs.mu.Lock()
	defer vs.mu.Unlock()
	if m, ok := vs.hashName[h]; ok {
		return m
	}
	return fmt.Sprintf("%016x", h)
}

func blk(x interface{}) int { // bytes -> 256-byte blocks
	switch v := x.(type) {
	case uint32:
		return int(v) / 256
	case int:
		return v / 256
	}
	return -1
}

func chunkOfPath(p string) int {
	i := strings.LastIndexByte(p, '/')
	n, err := strconv.Atoi(p[i+1 : i+4])
	if err != nil {
		return -1
	}
	return n
}

// the hook installed into utils.VerifHook
func vhook(point string, a ...interface{}) {
	p := vs.proc()
	switch point {
	case "f.enter":
		chunk := a[1].(int)
		if p == "" && chunk >= 0 { // goroutine spawned by a rotation
			vs.mu.Lock()
			zombie := vs.home != "" && !strings.HasPrefix(a[3].(string), vs.home)
			vs.mu.Unlock()
			if zombie { // belongs to a store of an earlier scenario: it died with that "process"
				select {}
			}
			p = "rotf" + strconv.Itoa(chunk)
			vs.setProc(p)
			vs.mu.Lock()
			vs.rotSeen[chunk] = true
			g := vs.gateRot
			vs.mu.Unlock()
			if g {
				gate, _ := vs.rotChans(chunk)
				<-gate
			}
		}
	case "f.exit":
		chunk := a[1].(int)
		if strings.HasPrefix(p, "rotf") {
			if vs.micro {
				vl.emit(ev{"a": "f.exit", "p": p, "c": chunk, "l": 2})
			}
			_, done := vs.rotChans(chunk)
			close(done)
			return
		}
	case "o.bgstart":
		vs.setProc("bg")
		p = "bg"
	case "o.bgdone":
		vs.bgDone <- struct{}{}
	case "g.enter":
		if p == "" {
			vs.setProc("gc")
			p = "gc"
		}
	case "w.append":
		if vs.crash != nil {
			vs.crash.nrecs++
		}
	case "fs.pre", "fs.post":
		if vs.snap != nil {
			vs.snap(a[0].(string), point[3:], a[1].(string))
		}
	}
	if vs.gate != nil {
		vs.gate(p, point)
	}
	if ga := vs.gateArgs; ga != nil {
		ga(p, point, a)
		p = vs.proc()
	}
	if !vs.micro {
		return
	}
	e := ev{"a": point, "p": p, "l": 2}
	switch point {
	case "w.lock":
		e["k"] = mk(a[1].(string))
	case "w.unlock":
		e["k"] = mk(a[1].(string))
		e["ok"] = a[2]
	case "w.readold":
		e["k"] = mk(a[1].(string))
		e["found"] = a[2]
	case "w.append":
		e["k"], e["c"], e["off"], e["nblk"], e["rot"], e["ver"] = mk(a[1].(string)), a[2], blk(a[3]), blk(a[4]), a[5], a[6]
	case "tree.set":
		if a[1].(int) == 0 && Conf.TreeDepth > 0 {
			return // the (unused) upper tree
		}
		e["h"], e["c"], e["off"], e["ver"], e["vh"] = mh(a[2].(uint64)), a[3], blk(a[4]), a[5], a[6]
	case "tree.get":
		e["h"], e["found"], e["c"], e["off"], e["ver"] = mh(a[2].(uint64)), a[3], a[4], blk(a[5]), a[6]
	case "tree.remove":
		e["h"] = mh(a[2].(uint64))
	case "hint.set":
		e["c"], e["k"], e["off"], e["ver"], e["rot"], e["nsplit"] = a[1], mk(a[2].(string)), blk(a[3]), a[4], a[6], a[7]
	case "h.dump":
		e["c"], e["s"], e["nkey"], e["datasize"] = a[1], a[2], a[3], blk(a[4])
	case "f.enter", "f.lock", "f.unlock", "f.begin":
		e["c"] = a[1]
	case "f.snap":
		e["c"], e["cnt"], e["gc"] = a[1], a[2], a[3]
	case "f.detach":
		e["c"], e["cnt"] = a[1], a[2]
	case "f.written":
		e["c"], e["cnt"], e["nblk"] = a[1], a[2], blk(a[3])
	case "r.buf":
		e["c"], e["off"], e["hit"] = a[1], blk(a[2]), a[3]
	case "r.file", "r.file.begin":
		e["c"], e["off"] = chunkOfPath(a[0].(string)), blk(a[1])
		if len(a) > 2 {
			e["ok"] = a[2]
		}
	case "fs.pre", "fs.post":
		e["kind"], e["path"] = a[0], baseName(a[1].(string))
	case "g.request":
		e["begin"], e["end"], e["pretend"] = a[1], a[2], a[3]
	case "g.enter":
		e["begin"], e["end"], e["merge"] = a[1], a[2], a[3]
	case "g.register":
		e["begin"], e["end"] = a[1], a[2]
	case "g.dst":
		e["dst"] = a[1]
	case "g.src", "g.dstswitch":
		e["src"], e["dst"] = a[1], a[2]
	case "g.newest":
		e["k"], e["c"], e["off"], e["ver"], e["found"], e["keep"], e["nblk"] = mk(a[1].(string)), a[2], blk(a[3]), a[4], a[5], a[6], blk(a[7])
	case "g.copy":
		e["c"], e["off"], e["nblk"], e["k"], e["ver"] = a[1], blk(a[2]), blk(a[3]), mk(a[4].(string)), a[5]
	case "g.repoint.mid":
		e["k"], e["found"], e["c"], e["off"] = mk(a[1].(string)), a[2], a[3], blk(a[4])
	case "g.repoint":
		e["k"], e["c"], e["off"], e["ver"] = mk(a[1].(string)), a[2], blk(a[3]), a[4]
	case "g.hint":
		e["k"], e["c"], e["off"], e["ver"], e["rot"] = mk(a[1].(string)), a[2], blk(a[3]), a[4], a[5]
	case "g.srcend":
		e["src"], e["dst"], e["before"], e["released"] = a[1], a[2], a[3], a[4]
	case "g.end":
		e["begin"], e["end"], e["src"], e["dst"], e["released"] = a[1], a[2], a[3], a[4], a[5]
	case "g.clear":
		e["c"], e["nwbuf"] = a[1], a[2]
	case "g.clearhints":
		e["c"] = a[1]
	case "g.beginwrite":
		e["c"], e["src"], e["rewriting"], e["whead"] = a[1], a[2], a[3], blk(a[4])
	case "g.endwrite":
		e["c"], e["size"] = a[1], blk(a[2])
	}
	vl.emit(e)
}

func baseName(p string) string {
	i := strings.LastIndexByte(p, '/')
	return p[i+1:]
}

// ---- fatal interception -------------------------------------------------------
// logger.Fatalf = os.Exit(1) in the real hub; inside the harness process it becomes
// a panic that the scenario runner recovers and records.

type vFatal struct{ msg string }

func (f vFatal) Error() string { return "FATAL: " + f.msg }

type vHub struct{ level int }

func (h *vHub) Log(name string, level int, file string, line int, msg string) {
	if level >= h.level && os.Getenv("VERIF_LOG") != "" {
		fmt.Fprintf(os.Stderr, "[%d] %s:%d %s\n", level, file, line, msg)
	}
	if level == loghub.FATAL {
		panic(vFatal{fmt.Sprintf("%s:%d %s", file, line, msg)})
	}
}
func (h *vHub) Reopen(path string) error           { return nil }
func (h *vHub) GetLastLog() []byte                 { return nil }
func (h *vHub) DumpBuffer(all bool, out io.Writer) {}

func vInstall() {
	logger.Hub = &vHub{level: loghub.WARN}
	logger.SetLevel(loghub.WARN)
	utils.VerifHook = vhook
}

func TestMain(m *testing.M) {
	flag.Parse()
	if *vOut != "" {
		f, err := os.Create(*vOut)
		if err != nil {
			fmt.Fprintln(os.Stderr, err)
			os.Exit(2)
		}
		vl.w = f
		defer f.Close()
	}
	vs.reset()
	code := m.Run()
	vl.flush()
	os.Exit(code)
}

var _ = time.Now
