//go:build verif
// +build verif

package store

// Scenario interpreter (sequential families): executes one scenario against the
// real HStore built from /repo's working tree and logs one event per operation
// (level 1) plus the hook micro-events (level 2).

import (
	"bufio"
	"encoding/json"
	"fmt"
	"os"
	"path/filepath"
	"sort"
	"strconv"
	"strings"
	"testing"
	"time"

	"github.com/douban/gobeansdb/cmem"
	"github.com/douban/gobeansdb/config"
)

type sconf struct {
	Buckets    int        `json:"buckets"`
	Bucket     int        `json:"bucket"`
	Height     int        `json:"height"`
	FileMaxBlk int        `json:"filemax_blk"`
	SplitCap   int        `json:"splitcap"`
	CheckVHash bool       `json:"check_vhash"`
	Collide    [][]string `json:"collide"`
	RotFlush   string     `json:"rotflush"` // "auto" (default) | "manual"
	Micro      bool       `json:"micro"`
	DumpEager  bool       `json:"dump_eager"`
	BodyMaxBlk int        `json:"bodymax_blk"`
	RealHash   bool       `json:"realhash"` // keep the real key hash (keys must route to Bucket)
	Crash      bool       `json:"crash"`    // snapshot every fs boundary and recover it in a child process
	MaxTorn    int        `json:"maxtorn"`
	// hint_index_interval in bytes (0 = default 4K): a small value gives a hint-file index entry for (almost) every item,
	// so that groups of same-hash keys straddle index entries
	HintInterval int `json:"hint_interval"`
}

type sop struct {
	Op    string   `json:"op"`
	K     string   `json:"k,omitempty"`
	V     int      `json:"v,omitempty"`
	Rev   int      `json:"rev,omitempty"`
	Flag  int      `json:"flag,omitempty"`
	NBlk  int      `json:"nblk,omitempty"`
	Comp  int      `json:"comp,omitempty"` // > 0: a COMPRESSIBLE value of this many bytes (the server compresses it; id 50000+)
	D     int      `json:"d,omitempty"`
	C     int      `json:"c,omitempty"`
	Rm    []string `json:"rm,omitempty"`
	Begin int      `json:"begin,omitempty"`
	End   int      `json:"end,omitempty"`
	Merge bool     `json:"merge,omitempty"`
	TS    int      `json:"ts,omitempty"`
	Twice bool     `json:"twice,omitempty"`
	// gc: do NOT let the pending post-rotation flushers run first (the pass meets a just rotated file whose tail is
	// still in the write buffer; rotflush "manual" scenarios only)
	KeepRot bool `json:"keeprot,omitempty"`
	At    []atSpec `json:"at,omitempty"`
	Free  freeSpec `json:"free,omitempty"`
	P     string   `json:"p,omitempty"`
}

type scen struct {
	ID     string            `json:"id"`
	Family string            `json:"family"`
	Conf   sconf             `json:"conf"`
	Keys   map[string]string `json:"keys"` // model key -> real key
	Ops    []sop             `json:"ops"`
}

const numBase = 100000

type runner struct {
	sc     *scen
	dir    string
	store  *HStore
	bkt    *Bucket
	vals   map[string]int // bytes -> value id
	keys   []string       // model keys, sorted
	realOf map[string]string
	ts     uint32
	pendingRot map[int]bool // spawned rotation flushers not yet released (manual mode)
	crash      *crashCtl
	gen        []genSpec
	rotHandled map[int]bool
}

// deterministic, incompressible bytes for value id v
func genBytes(v, n int) []byte {
	b := make([]byte, n)
	x := uint64(v)*0x9E3779B97F4A7C15 + 0x1234567
	for i := range b {
		x ^= x << 13
		x ^= x >> 7
		x ^= x << 17
		b[i] = byte(x >> 24)
	}
	return b
}

func (r *runner) valBytes(v int, key string, nblk int) []byte {
	if v >= numBase {
		return []byte(strconv.Itoa(v - numBase))
	}
	if nblk <= 0 {
		nblk = 1
	}
	n := nblk*256 - 24 - len(key) - (v % 16)
	if n < 1 {
		n = 1
	}
	b := genBytes(v*8+nblk, n)
	// the model's value id names the BYTES: id = v*8 + nblk (the same v with another size is another value)
	if _, ok := r.vals[string(b)]; !ok {
		r.gen = append(r.gen, genSpec{v, key, nblk})
	}
	r.vals[string(b)] = v*8 + nblk
	return b
}

// a compressible value: a short seeded phrase repeated up to n bytes; its id is 50000 + v*64 + n/256 (< numBase)
func (r *runner) compBytes(v, n int) []byte {
	phrase := []byte("the quick brown fox " + strconv.Itoa(v) + " jumps over the lazy dog; ")
	b := make([]byte, 0, n+len(phrase))
	for len(b) < n {
		b = append(b, phrase...)
	}
	b = b[:n]
	r.vals[string(b)] = 50000 + (v%64)*64 + (n/256)%64
	return b
}

func (r *runner) identify(body []byte, flag uint32) int {
	if v, ok := r.vals[string(body)]; ok {
		return v
	}
	if len(body) > 0 && len(body) < 9 {
		if n, err := strconv.Atoi(string(body)); err == nil && n >= 0 {
			return numBase + n
		}
	}
	return -1
}

func (r *runner) setup() {
	c := &r.sc.Conf
	if c.Buckets == 0 {
		c.Buckets = 16
		c.Bucket = 15
	}
	if c.Height == 0 {
		c.Height = 3
	}
	if c.FileMaxBlk == 0 {
		c.FileMaxBlk = 4
	}
	if c.SplitCap == 0 {
		c.SplitCap = 3
	}
	if c.BodyMaxBlk == 0 {
		c.BodyMaxBlk = 2
	}
	Conf.InitDefault()
	Conf.Home = r.dir
	Conf.NumBucket = c.Buckets
	Conf.BucketsStat = make([]int, c.Buckets)
	Conf.BucketsStat[c.Bucket] = 1
	Conf.TreeHeight = c.Height
	Conf.TreeDump = 3
	Conf.CheckVHash = c.CheckVHash
	Conf.DataFileMaxStr = strconv.Itoa(256 * c.FileMaxBlk)
	Conf.Init()
	Conf.SplitCap = int64(c.SplitCap)
	if c.HintInterval > 0 {
		Conf.IndexIntervalSize = int64(c.HintInterval)
	}
	config.MCConf.BodyMax = int64(256 * c.BodyMaxBlk)
	if c.DumpEager {
		SecsBeforeDump = -1
	} else {
		SecsBeforeDump = 1000000
	}
	// key naming and hashing
	r.realOf = map[string]string{}
	for m, real := range r.sc.Keys {
		r.realOf[m] = real
	}
	depth := uint(Conf.TreeDepth)
	group := map[string]string{} // model key -> representative
	for _, g := range c.Collide {
		for _, k := range g {
			group[k] = g[0]
		}
	}
	base := func(key []byte) uint64 {
		if c.RealHash || depth == 0 {
			return getKeyHashDefalut(key)
		}
		shift := depth * 4
		return (getKeyHashDefalut(key) >> shift) | (uint64(c.Bucket) << (64 - shift))
	}
	modelOf := map[string]string{}
	vs.mu.Lock()
	for _, m := range r.keys {
		real := r.real(m)
		modelOf[real] = m
		vs.keyName[real] = m
	}
	vs.mu.Unlock()
	getKeyHash = func(key []byte) uint64 {
		if m, ok := modelOf[string(key)]; ok {
			if rep, ok2 := group[m]; ok2 {
				return base([]byte(r.real(rep)))
			}
		}
		return base(key)
	}
	vs.mu.Lock()
	for _, m := range r.keys {
		h := getKeyHash([]byte(r.real(m)))
		name := "h_" + m
		if rep, ok := group[m]; ok {
			name = "h_" + rep
		}
		vs.hashName[h] = name
	}
	vs.bucket = c.Bucket
	vs.home = r.dir
	vs.micro = c.Micro
	vs.gateRot = true
	vs.mu.Unlock()
}

func (r *runner) real(m string) string {
	if s, ok := r.realOf[m]; ok {
		return s
	}
	return m
}

func (r *runner) confEvent() ev {
	c := r.sc.Conf
	hashOf := map[string]string{}
	rank := map[string]int{}
	reals := make([]string, 0)
	for _, m := range r.keys {
		hashOf[m] = mh(getKeyHash([]byte(r.real(m))))
		reals = append(reals, r.real(m))
	}
	sort.Strings(reals)
	for _, m := range r.keys {
		rank[m] = sort.SearchStrings(reals, r.real(m)) + 1
	}
	return ev{"a": "Reset", "sid": r.sc.ID, "l": 1, "conf": ev{
		"hashOf": hashOf, "rank": rank, "fileMax": c.FileMaxBlk, "splitCap": c.SplitCap,
		"checkVHash": c.CheckVHash, "dumpEager": c.DumpEager, "bodyMaxBlk": c.BodyMaxBlk,
		"keys": r.keys}}
}

func (r *runner) open() (err error) {
	r.store, err = NewHStore()
	if err != nil {
		return
	}
	r.bkt = r.store.buckets[r.sc.Conf.Bucket]
	// wait for the background hint re-check started by Bucket.open
	select {
	case <-vs.bgDone:
	case <-time.After(20 * time.Second):
		err = fmt.Errorf("open: background check did not finish")
	}
	return
}

func (r *runner) get(m string) ev {
	key := []byte(r.real(m))
	ki := NewKeyInfoFromBytes(key, getKeyHash(key), false)
	p, pos, err := r.store.Get(ki, false)
	e := ev{"k": m}
	if err != nil {
		e["res"] = "err"
		e["err"] = err.Error()
		if _, mpos, merr := r.store.Get(ki, true); merr == nil { // where the index points (for diagnosis / finding signatures)
			e["c"] = mpos.ChunkID
			e["off"] = int(mpos.Offset) / 256
		}
		return e
	}
	if p == nil {
		e["res"] = "miss"
		return e
	}
	e["res"] = "hit"
	e["ver"] = p.Ver
	e["flag"] = p.Flag
	e["c"] = pos.ChunkID
	e["off"] = int(pos.Offset) / 256
	if p.Ver > 0 {
		e["val"] = r.identify(p.Body, p.Flag)
		e["len"] = len(p.Body)
	} else {
		e["val"] = 0
	}
	cmem.DBRL.GetData.SubSizeAndCount(p.CArray.Cap)
	p.CArray.Free()
	return e
}

func (r *runner) ctabKeys() []string {
	ck := []string{}
	ct := r.bkt.hints.collisions
	ct.Lock()
	for _, grp := range ct.Items {
		for k := range grp {
			ck = append(ck, mk(k))
		}
	}
	ct.Unlock()
	sort.Strings(ck)
	return ck
}

func (r *runner) readAll() ev {
	m := ev{}
	for _, k := range r.keys {
		g := r.get(k)
		delete(g, "k")
		m[k] = g
	}
	return m
}

func (r *runner) listFiles() ev {
	out := ev{}
	home := r.bkt.Home
	names, _ := filepath.Glob(home + "/*")
	for _, p := range names {
		st, err := os.Stat(p)
		if err == nil && !st.IsDir() {
			out[filepath.Base(p)] = st.Size()
		}
	}
	return out
}

func (r *runner) releaseRot(c int, wait bool) bool {
	vs.mu.Lock()
	seen := vs.rotSeen[c]
	vs.mu.Unlock()
	if !seen {
		// the goroutine may not have reached f.enter yet
		deadline := time.Now().Add(2 * time.Second)
		for !seen && time.Now().Before(deadline) {
			time.Sleep(200 * time.Microsecond)
			vs.mu.Lock()
			seen = vs.rotSeen[c]
			vs.mu.Unlock()
		}
		if !seen {
			return false
		}
	}
	gate, done := vs.rotChans(c)
	select {
	case <-gate: // already released
	default:
		close(gate)
	}
	if wait {
		select {
		case <-done:
		case <-time.After(20 * time.Second):
			return false
		}
	}
	return true
}

// wait until every spawned-but-unreleased rotation flusher has arrived at its gate
func (r *runner) waitParked() {
	for c := range r.pendingRot {
		deadline := time.Now().Add(2 * time.Second)
		for time.Now().Before(deadline) {
			vs.mu.Lock()
			seen := vs.rotSeen[c]
			vs.mu.Unlock()
			if seen {
				break
			}
			time.Sleep(100 * time.Microsecond)
		}
	}
}

func (r *runner) step(i int, o *sop) (e ev, stop bool) {
	e = ev{"a": o.Op, "l": 1, "i": i}
	defer func() {
		if x := recover(); x != nil {
			if f, ok := x.(vFatal); ok {
				e["fatal"] = f.msg
				stop = true
				return
			}
			panic(x)
		}
	}()
	auto := r.sc.Conf.RotFlush != "manual"
	headBefore := -1
	if r.bkt != nil && r.bkt.datas != nil {
		headBefore = r.bkt.datas.newHead
	}
	switch o.Op {
	case "set", "del":
		key := []byte(r.real(o.K))
		ki := NewKeyInfoFromBytes(key, getKeyHash(key), false)
		var p *Payload
		r.ts++
		vs.setProc("c1")
		if o.Op == "del" {
			p = GetPayloadForDelete()
			p.TS = r.ts
			e["a"], e["rev"], e["val"], e["flag"], e["nblk"], e["vh"] = "Set", -1, 0, 0, 1, 0
		} else {
			var body []byte
			if o.Comp > 0 {
				body = r.compBytes(o.V, o.Comp)
			} else {
				body = r.valBytes(o.V, string(key), o.NBlk)
			}
			p = &Payload{}
			p.Flag = uint32(o.Flag)
			p.Ver = int32(o.Rev)
			p.TS = r.ts
			if o.TS != 0 {
				p.TS = uint32(o.TS)
			}
			p.CArray.Alloc(len(body))
			copy(p.CArray.Body, body)
			cmem.DBRL.SetData.AddSizeAndCount(p.CArray.Cap)
			rec := &Record{key, p}
			vid := o.V
			if o.Comp > 0 {
				vid = r.vals[string(body)]
			} else if o.V < numBase {
				nb := o.NBlk
				if nb <= 0 {
					nb = 1
				}
				vid = o.V*8 + nb
			}
			e["a"], e["rev"], e["val"], e["flag"] = "Set", o.Rev, vid, o.Flag
			e["vh"] = Getvhash(body)
			_, sz := rec.Sizes()
			e["nblk"] = int(sz) / 256 // uncompressed; corrected below from the stored record
		}
		e["k"], e["p"] = o.K, "c1"
		err := r.store.Set(ki, p)
		if err == nil {
			e["res"] = "ok"
		} else if err.Error() == "NOT_FOUND" {
			e["res"] = "NOT_FOUND"
		} else {
			e["res"], e["err"] = "err", err.Error()
		}
		if p.RecSize > 0 {
			e["nblk"] = int(p.RecSize) / 256
		}
		e["ver"] = p.Ver // the version the write got (0/-1 = nothing was written)
		e["wrote"] = p.RecSize > 0 // a record was appended for this write
		e["c"], e["off"] = -1, 0
		if p.RecSize > 0 { // where the index points now (layout conformance / drift only)
			if _, mpos, merr := r.store.Get(ki, true); merr == nil {
				e["c"], e["off"] = mpos.ChunkID, int(mpos.Offset)/256
			}
		}
	case "get":
		vs.setProc("c1")
		g := r.get(o.K)
		for k, v := range g {
			e[k] = v
		}
		e["a"], e["p"] = "Get", "c1"
	case "incr":
		vs.setProc("c1")
		key := []byte(r.real(o.K))
		ki := NewKeyInfoFromBytes(key, getKeyHash(key), false)
		cmem.DBRL.SetData.AddCount(1) // as Request.Read does for incr
		n := r.store.Incr(ki, o.D)
		e["a"], e["p"], e["k"], e["d"], e["res"] = "Incr", "c1", o.K, o.D, n
		e["vh"] = Getvhash([]byte(strconv.Itoa(n)))
	case "flush":
		vs.setProc("flusher")
		r.store.flushdatas(true)
		e["a"], e["p"] = "Flush", "flusher"
	case "cancel":
		// the admin request "stop the running pass" (HStore.CancelGC), made while the pass is parked
		vs.setProc("admin")
		src, dst := r.store.CancelGC(r.sc.Conf.Bucket)
		e["a"], e["p"], e["src"], e["dst"] = "Cancel", "admin", src, dst
	case "rotflush":
		e["a"], e["p"], e["c"] = "RotFlush", "rotf"+strconv.Itoa(o.C), o.C
		if r.pendingRot[o.C] {
			e["ran"] = r.releaseRot(o.C, true)
			delete(r.pendingRot, o.C)
		} else {
			e["ran"] = false
		}
	case "hintdump":
		vs.setProc("flusher")
		r.bkt.hints.dumpAndMerge(false)
		e["a"], e["p"] = "HintDump", "flusher"
	case "close":
		vs.setProc("closer")
		r.store.Close()
		// the process "exits": goroutines still parked at a gate die with it
		r.waitParked()
		r.pendingRot = map[int]bool{}
		r.rotHandled = map[int]bool{}
		vs.mu.Lock()
		vs.rotGate = map[int]chan struct{}{}
		vs.rotDone = map[int]chan struct{}{}
		vs.rotSeen = map[int]bool{}
		vs.mu.Unlock()
		e["a"], e["p"] = "Close", "closer"
		e["files"] = r.listFiles()
		r.store, r.bkt = nil, nil
	case "open":
		home := GetBucketPath(r.sc.Conf.Bucket)
		removed := []string{}
		for _, pat := range o.Rm {
			if strings.HasPrefix(pat, "@subset:") {
				// a seeded subset of ALL index files that exist right now (each with probability 1/2)
				seed, _ := strconv.Atoi(pat[len("@subset:"):])
				ms, _ := filepath.Glob(filepath.Join(home, "*.idx.*"))
				sort.Strings(ms)
				x := uint64(seed)*0x9E3779B97F4A7C15 + 12345
				for _, p := range ms {
					x ^= x << 13
					x ^= x >> 7
					x ^= x << 17
					if strings.HasSuffix(p, ".tmp") || (x>>20)&1 == 0 {
						continue
					}
					os.Remove(p)
					removed = append(removed, filepath.Base(p))
				}
				continue
			}
			if pat == "@lastsplits" { // the last hint split of every chunk + the tree dump
				ms, _ := filepath.Glob(filepath.Join(home, "*.idx.s"))
				sort.Strings(ms)
				for i, p := range ms {
					if i == len(ms)-1 || filepath.Base(ms[i+1])[:3] != filepath.Base(p)[:3] {
						os.Remove(p)
						removed = append(removed, filepath.Base(p))
					}
				}
				pat = "*.idx.hash"
			}
			ms, _ := filepath.Glob(filepath.Join(home, pat))
			for _, p := range ms {
				os.Remove(p)
				removed = append(removed, filepath.Base(p))
			}
		}
		sort.Strings(removed)
		vs.setProc("opener")
		err := r.open()
		e["a"], e["removed"] = "Open", removed
		if err != nil {
			e["err"] = err.Error()
			stop = true
			return
		}
		e["head"] = r.bkt.datas.newHead
		e["treeid"] = []int{r.bkt.TreeID.Chunk, r.bkt.TreeID.Split}
		e["files"] = r.listFiles()
		e["meta"] = r.metaAll()
		// keys present in the (durable) collision table after opening
		e["ctab"] = r.ctabKeys()
	case "gc":
		// sequential family: no rotation flush is pending when GC is requested (the race
		// "GC over a just rotated, not yet flushed file" belongs to the schedule family)
		if !o.KeepRot {
			for c := range r.pendingRot {
				ok := r.releaseRot(c, true)
				vl.emit(ev{"a": "RotFlush", "l": 1, "p": "rotf" + strconv.Itoa(c), "c": c, "ran": ok})
				delete(r.pendingRot, c)
			}
		}
		vs.setProc("gc")
		e["a"], e["p"], e["begin"], e["end"], e["merge"] = "GC", "gc", o.Begin, o.End, o.Merge
		old, sure := r.ages()
		e["old"], e["agesure"] = old, sure
		e["head"] = r.bkt.datas.newHead
		before := r.inventory()
		b, en, err := r.bkt.gcCheckRange(o.Begin, o.End, 0)
		if err != nil {
			e["res"], e["err"] = "err", err.Error()
		} else {
			vl.emit(ev{"a": "GCStart", "l": 1, "p": "gc", "begin": o.Begin, "end": o.End, "merge": o.Merge, "rb": b, "re": en,
				"old": old, "agesure": sure})
			if len(o.At) > 0 {
				r.gcWithAt(o, b, en)
			} else {
				r.store.gcMgr.gc(r.bkt, b, en, o.Merge)
			}
			st := r.bkt.GCHistory[len(r.bkt.GCHistory)-1]
			e["res"], e["rb"], e["re"], e["released"] = "ok", b, en, st.NumReleased
			if st.Err != nil {
				e["res"], e["err"] = "err", st.Err.Error()
			}
			e["files"] = r.listFiles()
			after := r.inventory()
			e["frame"], e["created"] = frameOf(before, after)
			e["scan"] = r.refScanAll()
			e["reads"] = r.readAll()
			if o.Twice && st.Err == nil {
				b2, en2, err2 := r.bkt.gcCheckRange(b, en, 0)
				if err2 == nil && b2 == b && en2 == en {
					r.store.gcMgr.gc(r.bkt, b2, en2, o.Merge)
					st2 := r.bkt.GCHistory[len(r.bkt.GCHistory)-1]
					e["released2"] = st2.NumReleased
					e["scan2"] = r.refScanAll()
				}
			}
		}
	case "gc2":
		r.gc2(o, e)
	case "gcp":
		r.gcp(o, e)
	case "free":
		r.free(o, e)
	case "readall":
		vs.setProc("c1")
		e["a"], e["reads"] = "ReadAll", r.readAll()
	default:
		e["res"] = "unknown-op"
	}
	// cheap scalar state of the bucket after the operation (compared with the specification's state: drift)
	if r.bkt != nil && r.bkt.datas != nil && e["a"] != "Close" {
		ds := r.bkt.datas
		sizes, nbuf := []int{}, []int{}
		for c := 0; c <= ds.newHead && c < len(ds.chunks); c++ {
			sizes = append(sizes, int(ds.chunks[c].size)/256)
			nbuf = append(nbuf, len(ds.chunks[c].wbuf))
		}
		e["st"] = ev{"head": ds.newHead, "size": sizes, "nbuf": nbuf, "nextgc": r.bkt.NextGCChunk}
	}
	// which keys the collision table knows after this operation (an observed fact used by finding signatures only)
	if r.bkt != nil && r.bkt.hints != nil && (e["a"] == "Set" || e["a"] == "Get" || e["a"] == "Incr") {
		e["ctab"] = r.ctabKeys()
	}
	// a rotation spawned a flusher goroutine: by default let it run to completion now
	if r.bkt != nil && r.bkt.datas != nil && headBefore >= 0 && r.bkt.datas.newHead > headBefore {
		rot := []int{}
		for c := headBefore; c < r.bkt.datas.newHead; c++ {
			if !r.rotHandled[c] {
				rot = append(rot, c)
				r.rotHandled[c] = true
			}
		}
		if len(rot) == 0 {
			return
		}
		e["spawned"] = rot
		if !auto {
			for _, c := range rot {
				r.pendingRot[c] = true
			}
		}
		if auto {
			vl.emit(e)
			for _, c := range rot {
				ok := r.releaseRot(c, true)
				vl.emit(ev{"a": "RotFlush", "l": 1, "p": "rotf" + strconv.Itoa(c), "c": c, "ran": ok})
			}
			return nil, false
		}
	}
	return
}

// GC age predicate input: for every data file, is its first record older than "now"?
// (read with the harness's own header parse; a file whose first timestamp is within a
// second of now makes the answer unsure)
func (r *runner) ages() (map[string]bool, bool) {
	out := map[string]bool{}
	sure := true
	now := time.Now().Unix()
	names, _ := filepath.Glob(r.bkt.Home + "/*.data")
	for _, p := range names {
		c, err := strconv.Atoi(filepath.Base(p)[:3])
		if err != nil {
			continue
		}
		f, err := os.Open(p)
		if err != nil {
			continue
		}
		var h [8]byte
		n, _ := f.ReadAt(h[:], 0)
		f.Close()
		if n < 8 {
			continue
		}
		ts := int64(uint32(h[4]) | uint32(h[5])<<8 | uint32(h[6])<<16 | uint32(h[7])<<24)
		d := now - ts
		out[strconv.Itoa(c)] = d > 0
		if d >= -1 && d <= 1 {
			sure = false
		}
	}
	return out, sure
}

// memOnly meta of every key (version memory after open: used only for DELETED keys, C02)
func (r *runner) metaAll() ev {
	out := ev{}
	for _, m := range r.keys {
		key := []byte(r.real(m))
		ki := NewKeyInfoFromBytes(key, getKeyHash(key), false)
		p, _, err := r.store.Get(ki, true)
		if err != nil || p == nil {
			out[m] = 0
		} else {
			out[m] = p.Ver
		}
	}
	return out
}

func countersNow() [8]int64 {
	d := &cmem.DBRL
	return [8]int64{d.SetData.Count, d.SetData.Size, d.GetData.Count, d.GetData.Size, d.FlushData.Count, d.FlushData.Size,
		d.AllocRL.Count, d.AllocRL.Size}
}

func (r *runner) run() {
	c0 := countersNow()
	r.vals = map[string]int{}
	r.pendingRot = map[int]bool{}
	r.rotHandled = map[int]bool{}
	ks := map[string]bool{}
	for _, o := range r.sc.Ops {
		if o.K != "" {
			ks[o.K] = true
		}
	}
	for k := range r.sc.Keys {
		ks[k] = true
	}
	for k := range ks {
		r.keys = append(r.keys, k)
	}
	sort.Strings(r.keys)
	vs.reset()
	r.setup()
	defer func() { getKeyHash = getKeyHashDefalut }()
	vl.emit(r.confEvent())
	if err := r.open(); err != nil {
		vl.emit(ev{"a": "Abort", "l": 1, "err": err.Error()})
		return
	}
	if r.sc.Conf.Crash {
		root := r.dir + "-snaps"
		os.RemoveAll(root)
		os.MkdirAll(root, 0777)
		defer os.RemoveAll(root)
		mt := r.sc.Conf.MaxTorn
		if mt == 0 {
			mt = 6
		}
		r.crash = &crashCtl{root: root, home: r.dir, bhome: GetBucketPath(r.sc.Conf.Bucket), lastPre: map[string][]byte{}, maxTorn: mt}
		vs.mu.Lock()
		vs.crash = r.crash
		vs.snap = r.crash.onFS
		vs.mu.Unlock()
	}
	for i := range r.sc.Ops {
		if r.crash != nil {
			r.crash.op = i
			r.crash.ingc = r.sc.Ops[i].Op == "gc"
		}
		e, stop := r.step(i, &r.sc.Ops[i])
		if e != nil {
			vl.emit(e)
		}
		if r.crash != nil {
			// marker: the Recovered observations of the boundaries inside this operation are
			// produced at the end of the scenario (one child process for all snapshots) and
			// belong here in the trace; the orchestrator moves them (pure reordering by "op")
			vl.emit(ev{"a": "RecoveredHere", "l": 1, "op": i})
		}
		if stop {
			break
		}
	}
	if r.store != nil {
		vs.setProc("c1")
		vl.emit(ev{"a": "ReadAll", "l": 1, "reads": r.readAll(), "final": true})
	}
	r.waitParked()
	if r.crash == nil && r.store != nil && r.sc.Family != "free" && r.sc.Family != "gc2" {
		// quiescence: let the pending rotation flushers run, then a clean close
		for c := range r.pendingRot {
			r.releaseRot(c, true)
			delete(r.pendingRot, c)
		}
		r.store.Close()
		r.store, r.bkt = nil, nil
	}
	if r.crash != nil {
		for _, re := range r.recoverSnaps(r.crash, r.gen) {
			vl.emit(re)
		}
	}
	// buffer accounting at quiescence (C12 seen from the store): after the final close every counter is back where it
	// was when the scenario started (the harness accounts SetData before a set exactly as Request.Read does)
	if r.crash == nil && r.store == nil && !r.sc.Conf.Micro {
		c1 := countersNow()
		vl.emit(ev{"a": "Counters", "l": 1, "d": []int64{c1[0] - c0[0], c1[1] - c0[1], c1[2] - c0[2], c1[3] - c0[3],
			c1[4] - c0[4], c1[5] - c0[5], c1[6] - c0[6], c1[7] - c0[7]}})
	}
	vl.emit(ev{"a": "End", "l": 1, "sid": r.sc.ID})
}

func TestVerifRun(t *testing.T) {
	if *vIn == "" {
		t.Skip("no -verif.in")
	}
	vInstall()
	f, err := os.Open(*vIn)
	if err != nil {
		t.Fatal(err)
	}
	defer f.Close()
	rd := bufio.NewReaderSize(f, 1<<20)
	n := 0
	for {
		line, err := rd.ReadString('\n')
		if strings.TrimSpace(line) != "" {
			var sc scen
			if e := json.Unmarshal([]byte(line), &sc); e != nil {
				t.Fatalf("bad scenario: %v", e)
			}
			dir := filepath.Join(*vWork, fmt.Sprintf("s%d", n))
			os.RemoveAll(dir)
			os.MkdirAll(dir, 0777)
			r := &runner{sc: &sc, dir: dir}
			r.run()
			vl.flush()
			os.RemoveAll(dir)
			n++
		}
		if err != nil {
			break
		}
	}
}
