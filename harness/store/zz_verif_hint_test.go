//go:build verif
// +build verif

package store

// Property C14 (hint files): executes abstract cases on the REAL HintBuffer.Dump /
// hintFileReader / loadHintIndex / hintFileIndex.get / merge() + CollisionTable and logs
// what the code did.  No verdicts here: every event is an observation that
// Trace_HintFile.tla compares with HintFile.tla.

import (
	"bufio"
	"encoding/json"
	"fmt"
	"os"
	"path/filepath"
	"sort"
	"strconv"
	"strings"
	"testing"
)

// one source file of a case: the items are Set into a HintBuffer in this order
type hintSetItem struct {
	H   string `json:"h"`  // 16 hex digits
	K   string `json:"k"`  // key, 1..250 bytes (printable ASCII)
	C   int    `json:"c"`  // Pos.ChunkID stored in the item (the store writes 0)
	O   uint32 `json:"o"`  // Pos.Offset
	V   int32  `json:"v"`  // version
	VH  uint16 `json:"vh"` // value hash
	Z   uint32 `json:"z"`  // record size passed to Set (datasize = max(o+z))
}

type hintFileCase struct {
	Chunk int           `json:"chunk"`
	Set   []hintSetItem `json:"set"`
}

type hintCase struct {
	ID       string         `json:"id"`
	Interval int64          `json:"interval"` // Conf.IndexIntervalSize
	Files    []hintFileCase `json:"files"`
	Absent   [][2]string    `json:"absent"` // (hash hex, key) looked up in every file and in the merged file
	IdxLk    bool           `json:"idxlk"`  // add lookups placed relative to the real index entries
	LkMem    bool           `json:"lkmem"`  // also look up through the in-memory index returned by Dump/merge
	Merge    bool           `json:"merge"`  // merge all non-empty files
}

func hx(h uint64) string { return fmt.Sprintf("%016x", h) }

func unhx(s string) uint64 {
	v, err := strconv.ParseUint(s, 16, 64)
	if err != nil {
		panic(err)
	}
	return v
}

func hintItemRow(it *HintItem) []interface{} {
	return []interface{}{hx(it.Keyhash), it.Key, it.Pos.ChunkID, it.Pos.Offset, it.Ver, it.Vhash}
}

func idxRows(arr []hintIndexItem) [][]interface{} {
	out := make([][]interface{}, len(arr))
	for i, e := range arr {
		out[i] = []interface{}{hx(e.keyhash), e.offset}
	}
	return out
}

func errStr(err error) string {
	if err == nil {
		return ""
	}
	return err.Error()
}

type hintQuery struct {
	h uint64
	k string
}

// lookups whose place depends on the REAL index: just above / at each of the last index
// entries, and far above everything (inputs only; TLC decides what the answer must be)
func idxQueries(arr []hintIndexItem) (qs []hintQuery) {
	n := len(arr)
	from := n - 3
	if from < 0 {
		from = 0
	}
	for _, e := range arr[from:] {
		qs = append(qs, hintQuery{e.keyhash, "~no-such-key~"}, hintQuery{e.keyhash, "!"})
		if e.keyhash != ^uint64(0) {
			qs = append(qs, hintQuery{e.keyhash + 1, "~no-such-key~"})
		}
		if e.keyhash != 0 {
			qs = append(qs, hintQuery{e.keyhash - 1, "~no-such-key~"})
		}
	}
	if n > 0 {
		qs = append(qs, hintQuery{arr[0].keyhash, "~no-such-key~"})
	}
	return
}

// run the queries through one index and log the answers in batches
func hintLookups(f int, via string, idx *hintFileIndex, qs []hintQuery) {
	const batch = 1000
	for s := 0; s < len(qs); s += batch {
		e := s + batch
		if e > len(qs) {
			e = len(qs)
		}
		rows := make([][]interface{}, 0, e-s)
		for _, q := range qs[s:e] {
			row := []interface{}{hx(q.h), q.k}
			func() {
				defer func() {
					if p := recover(); p != nil {
						row = append(row[:2], "err", fmt.Sprintf("panic: %v", p))
					}
				}()
				it, err := idx.get(q.h, q.k)
				switch {
				case err != nil:
					row = append(row, "err", err.Error())
				case it == nil:
					row = append(row, "none", "")
				default:
					row = append(row, "found", "")
					row = append(row, hintItemRow(it)...)
				}
			}()
			rows = append(rows, row)
		}
		vl.emit(ev{"a": "Lookup", "f": f, "via": via, "q": rows})
	}
}

// read a hint file with the sequential reader and with loadHintIndex
func hintReadBack(f int, path string, chunk int) (loaded *hintFileIndex) {
	e := ev{"a": "Read", "f": f}
	func() {
		defer func() {
			if p := recover(); p != nil {
				e["err"] = fmt.Sprintf("panic: %v", p)
			}
		}()
		r := newHintFileReader(path, chunk, 4096)
		if err := r.open(); err != nil {
			e["err"] = "open: " + err.Error()
			return
		}
		defer r.close()
		e["io"], e["nkey"], e["ds"], e["size"] = r.indexOffset, r.numKey, r.datasize, r.size
		items := [][]interface{}{}
		for {
			it, err := r.next()
			if err != nil {
				e["err"] = err.Error()
				break
			}
			if it == nil {
				break
			}
			items = append(items, hintItemRow(it))
			if int64(len(items)) > r.size { // a reader that never ends
				e["err"] = "runaway"
				break
			}
		}
		e["items"] = items
	}()
	func() {
		defer func() {
			if p := recover(); p != nil {
				e["lerr"] = fmt.Sprintf("panic: %v", p)
			}
		}()
		li, err := loadHintIndex(path)
		if err != nil {
			e["lerr"] = err.Error()
			return
		}
		loaded = li
		e["lidx"] = idxRows(li.index)
		e["lio"], e["lnkey"], e["lds"] = li.indexOffset, li.numKey, li.datasize
	}()
	vl.emit(e)
	return
}

func ctRows(ct *CollisionTable) [][]interface{} {
	var its []HintItem
	for _, m := range ct.Items {
		for _, it := range m {
			its = append(its, it)
		}
	}
	sort.Slice(its, func(i, j int) bool {
		if its[i].Keyhash != its[j].Keyhash {
			return its[i].Keyhash < its[j].Keyhash
		}
		return its[i].Key < its[j].Key
	})
	rows := make([][]interface{}, len(its))
	for i := range its {
		rows[i] = hintItemRow(&its[i])
	}
	return rows
}

func runHintCase(c *hintCase, dir string) {
	vl.emit(ev{"a": "Reset", "sid": c.ID, "interval": c.Interval})
	Conf.InitDefault()
	Conf.IndexIntervalSize = c.Interval
	Conf.NoMerged = false
	absent := make([]hintQuery, len(c.Absent))
	for i, a := range c.Absent {
		absent[i] = hintQuery{unhx(a[0]), a[1]}
	}
	var srcPaths []string
	var srcChunks []int
	var srcIdx []int
	var all []hintQuery
	split := map[int]int{}
	for fi := range c.Files {
		fc := &c.Files[fi]
		f := fi + 1
		Conf.SplitCap = int64(len(fc.Set) + 1)
		buf := NewHintBuffer()
		refused := 0
		qs := make([]hintQuery, 0, len(fc.Set)+len(absent))
		for _, s := range fc.Set {
			it := newHintItem(unhx(s.H), s.V, s.VH, Position{s.C, s.O}, s.K)
			if !buf.Set(it, s.Z) {
				refused++
			}
			qs = append(qs, hintQuery{it.Keyhash, it.Key})
		}
		path := getIndexPath(dir, fc.Chunk, split[fc.Chunk], "s")
		split[fc.Chunk]++
		var mem *hintFileIndex
		de := ev{"a": "Dump", "f": f, "chunk": fc.Chunk, "nset": len(fc.Set), "refused": refused}
		func() {
			defer func() {
				if p := recover(); p != nil {
					de["err"] = fmt.Sprintf("panic: %v", p)
				}
			}()
			idx, err := buf.Dump(path)
			if err != nil {
				de["err"] = err.Error()
				return
			}
			mem = idx
			de["midx"], de["mnkey"], de["mds"] = idxRows(idx.index), idx.numKey, idx.datasize
		}()
		vl.emit(de)
		if mem == nil {
			continue
		}
		loaded := hintReadBack(f, path, fc.Chunk)
		qs = append(qs, absent...)
		all = append(all, qs[:len(fc.Set)]...)
		if loaded != nil {
			lq := qs
			if c.IdxLk {
				lq = append(append([]hintQuery{}, qs...), idxQueries(loaded.index)...)
			}
			hintLookups(f, "load", loaded, lq)
		}
		if c.LkMem {
			mq := qs
			if c.IdxLk {
				mq = append(append([]hintQuery{}, qs...), idxQueries(mem.index)...)
			}
			hintLookups(f, "mem", mem, mq)
		}
		if len(fc.Set) > 0 {
			srcPaths = append(srcPaths, path)
			srcChunks = append(srcChunks, fc.Chunk)
			srcIdx = append(srcIdx, f)
		}
	}
	if c.Merge && len(srcPaths) > 0 {
		for _, forGC := range []bool{false, true} {
			readers := make([]*hintFileReader, len(srcPaths))
			for i := range srcPaths {
				readers[i] = newHintFileReader(srcPaths[i], srcChunks[i], 4096)
			}
			dst := filepath.Join(dir, "merged.idx.m")
			os.Remove(dst)
			ct := newCollisionTable()
			state := 0
			me := ev{"a": "Merge", "srcs": srcIdx, "forgc": forGC}
			var mem *hintFileIndex
			func() {
				defer func() {
					if p := recover(); p != nil {
						me["err"] = fmt.Sprintf("panic: %v", p)
					}
				}()
				idx, err := merge(readers, dst, ct, &state, forGC)
				if err != nil {
					me["err"] = err.Error()
					return
				}
				mem = idx
				if idx != nil {
					me["midx"], me["mnkey"], me["mds"] = idxRows(idx.index), idx.numKey, idx.datasize
				}
			}()
			me["ct"] = ctRows(ct)
			_, serr := os.Stat(dst)
			me["dst"] = serr == nil
			vl.emit(me)
			if forGC || mem == nil {
				continue
			}
			loaded := hintReadBack(0, dst, 0)
			qs := append(append([]hintQuery{}, all...), absent...)
			if loaded != nil {
				lq := qs
				if c.IdxLk {
					lq = append(append([]hintQuery{}, qs...), idxQueries(loaded.index)...)
				}
				hintLookups(0, "load", loaded, lq)
			}
			if c.LkMem {
				hintLookups(0, "mem", mem, qs)
			}
		}
	}
	vl.emit(ev{"a": "End", "sid": c.ID})
}

func TestVerifHint(t *testing.T) {
	if *vIn == "" {
		t.Skip("no -verif.in")
	}
	vInstall()
	f, err := os.Open(*vIn)
	if err != nil {
		t.Fatal(err)
	}
	defer f.Close()
	rd := bufio.NewReaderSize(f, 1<<20)
	n := 0
	for {
		line, err := rd.ReadString('\n')
		if strings.TrimSpace(line) != "" {
			var c hintCase
			if e := json.Unmarshal([]byte(line), &c); e != nil {
				t.Fatalf("bad case: %v", e)
			}
			dir := filepath.Join(*vWork, fmt.Sprintf("h%d", n))
			os.RemoveAll(dir)
			os.MkdirAll(dir, 0777)
			runHintCase(&c, dir)
			vl.flush()
			os.RemoveAll(dir)
			n++
		}
		if err != nil {
			break
		}
	}
}
