//go:build verif
// +build verif

package store

// Schedule family (C04, C05, C17 single pass).
//  * gcAt: client operations executed at exact GC hook points.  GC holds no lock at its
//    hook points, so running the client operation synchronously from inside the hook is
//    the same as another goroutine running it while the GC goroutine is parked there.
//  * gc2: two GC requests through HStore.GC with the first pass parked before it registers.
//  * free: N client goroutines hammering shared keys (invoke/response history).

import (
	"math/rand"
	"runtime"
	"strconv"
	"sync"
	"time"

	"github.com/douban/gobeansdb/cmem"
)

type atSpec struct {
	Point string `json:"point"`
	K     string `json:"k"`
	Nth   int    `json:"nth"`
	Do    []sop  `json:"do"`
}

func (r *runner) gcWithAt(o *sop, b, en int) {
	counts := map[string]int{}
	var mu sync.Mutex
	inHook := false
	vs.mu.Lock()
	vs.gateArgs = func(p, point string, a []interface{}) {
		if p != "gc" || inHook {
			return
		}
		key, c, off := "", -1, -1
		switch point {
		case "g.newest":
			key, c, off = mk(a[1].(string)), a[2].(int), blk(a[3])
		case "g.copy":
			key = mk(a[4].(string))
		case "g.repoint.mid", "g.repoint", "g.hint":
			key = mk(a[1].(string))
		case "g.srcend":
			c = a[1].(int)
		case "g.before", "g.dst":
		default:
			return
		}
		mu.Lock()
		id := point + "/" + key
		counts[id]++
		nth := counts[id]
		mu.Unlock()
		for _, at := range o.At {
			if at.Point != point || at.K != key || (at.Nth != 0 && at.Nth != nth) {
				continue
			}
			inHook = true
			vl.emit(ev{"a": "GCAt", "l": 1, "point": point, "k": key, "c": c, "off": off, "nth": nth})
			for i := range at.Do {
				d := at.Do[i]
				e, _ := r.step(-1, &d)
				if e != nil {
					vl.emit(e)
				}
			}
			vs.setProc("gc")
			inHook = false
		}
	}
	vs.mu.Unlock()
	r.store.gcMgr.gc(r.bkt, b, en, o.Merge)
	vs.mu.Lock()
	vs.gateArgs = nil
	vs.mu.Unlock()
}

// two GC requests for one bucket: the first pass is parked at g.enter (before it registers)
// while the second request is made.  Logs what each request returned and every
// register/end of a pass.
func (r *runner) gc2(o *sop, e ev) {
	var mu sync.Mutex
	passes := 0
	park := make(chan struct{})
	first := true
	regs := []interface{}{}
	done := make(chan struct{}, 4)
	vs.mu.Lock()
	vs.gateArgs = func(p, point string, a []interface{}) {
		switch point {
		case "g.enter":
			mu.Lock()
			passes++
			me := passes
			f := first
			first = false
			mu.Unlock()
			vs.setProc("gc" + strconv.Itoa(me))
			if f {
				<-park
			}
		case "g.register":
			mu.Lock()
			regs = append(regs, []interface{}{"register", vs.proc()})
			mu.Unlock()
		case "g.end":
			mu.Lock()
			regs = append(regs, []interface{}{"end", vs.proc()})
			mu.Unlock()
			done <- struct{}{}
		}
	}
	vs.mu.Unlock()
	vs.setProc("req")
	b1, e1, err1 := r.store.GC(r.sc.Conf.Bucket, o.Begin, o.End, 0, false, false)
	// give the first pass time to reach its gate (it parks there; nothing depends on this delay
	// for correctness: if it has not arrived yet the second request simply races as in production)
	for i := 0; i < 2000; i++ {
		mu.Lock()
		n := passes
		mu.Unlock()
		if n >= 1 || err1 != nil {
			break
		}
		time.Sleep(100 * time.Microsecond)
	}
	b2, e2, err2 := r.store.GC(r.sc.Conf.Bucket, o.Begin, o.End, 0, false, false)
	close(park)
	started := 0
	if err1 == nil {
		started++
	}
	if err2 == nil {
		started++
	}
	for i := 0; i < started; i++ {
		select {
		case <-done:
		case <-time.After(20 * time.Second):
		}
	}
	vs.mu.Lock()
	vs.gateArgs = nil
	vs.mu.Unlock()
	errs := func(x error) string {
		if x == nil {
			return ""
		}
		return x.Error()
	}
	e["a"], e["p"] = "GC2", "req"
	e["r1"], e["r2"] = []interface{}{b1, e1, errs(err1)}, []interface{}{b2, e2, errs(err2)}
	mu.Lock()
	e["passes"] = regs
	mu.Unlock()
	e["reads"] = r.readAll()
}

// pretend mode (C17: "in pretend mode changes nothing"): two dry-run requests through HStore.GC, then a real one.
// Logs whether a pass was left registered, whether any data file changed, and what each request returned.
func (r *runner) gcp(o *sop, e ev) {
	errs := func(x error) string {
		if x == nil {
			return ""
		}
		return x.Error()
	}
	registered := func() int {
		r.store.gcMgr.mu.Lock()
		defer r.store.gcMgr.mu.Unlock()
		return len(r.store.gcMgr.stat)
	}
	vs.setProc("req")
	before := r.inventory()
	b1, e1, err1 := r.store.GC(r.sc.Conf.Bucket, o.Begin, o.End, 0, false, true)
	reg1 := registered()
	b2, e2, err2 := r.store.GC(r.sc.Conf.Bucket, o.Begin, o.End, 0, false, true)
	reg2 := registered()
	after := r.inventory()
	changed := len(before) != len(after)
	for c, x := range before {
		y, ok := after[c]
		if !ok || y.Size != x.Size || sha(y.Data) != sha(x.Data) {
			changed = true
		}
	}
	b3, e3, err3 := r.store.GC(r.sc.Conf.Bucket, o.Begin, o.End, 0, false, false)
	for i := 0; i < 20000 && r.store.IsGCRunning(); i++ {
		time.Sleep(time.Millisecond)
	}
	e["a"], e["p"] = "GCP", "req"
	e["p1"], e["p2"], e["real"] = []interface{}{b1, e1, errs(err1)}, []interface{}{b2, e2, errs(err2)}, []interface{}{b3, e3, errs(err3)}
	e["reg1"], e["reg2"], e["changed"], e["stillrunning"] = reg1, reg2, changed, r.store.IsGCRunning()
	e["reads"] = r.readAll()
}

// ---- free-running clients -----------------------------------------------------------

type freeSpec struct {
	Clients int `json:"clients"`
	Ops     int `json:"ops"`
	Seed    int `json:"seed"`
	Flush   bool `json:"flush"`
	GC      bool `json:"gc"`
}

func (r *runner) free(o *sop, e ev) {
	fs := o.Free
	var cwg, hwg sync.WaitGroup
	stop := make(chan struct{})
	valCtr := 1000
	var vmu sync.Mutex
	nextVal := func() int {
		vmu.Lock()
		valCtr++
		v := valCtr
		vmu.Unlock()
		return v
	}
	for c := 0; c < fs.Clients; c++ {
		cwg.Add(1)
		go func(c int) {
			defer cwg.Done()
			p := "c" + strconv.Itoa(c+1)
			vs.setProc(p)
			rng := rand.New(rand.NewSource(int64(fs.Seed*1000 + c)))
			for i := 0; i < fs.Ops; i++ {
				k := r.keys[rng.Intn(len(r.keys))]
				key := []byte(r.real(k))
				ki := NewKeyInfoFromBytes(key, getKeyHash(key), false)
				x := rng.Intn(10)
				if x < 4 {
					v := nextVal()
					vmu.Lock()
					body := r.valBytes(v, string(key), 1)
					vmu.Unlock()
					pl := &Payload{}
					pl.TS = 1
					pl.CArray.Alloc(len(body))
					copy(pl.CArray.Body, body)
					cmem.DBRL.SetData.AddSizeAndCount(pl.CArray.Cap)
					vl.emit(ev{"a": "Inv", "l": 1, "p": p, "op": "set", "k": k, "val": v*8 + 1})
					err := r.store.Set(ki, pl)
					vl.emit(ev{"a": "Res", "l": 1, "p": p, "op": "set", "k": k, "val": v*8 + 1, "ver": pl.Ver, "ok": err == nil, "res": ""})
				} else if x < 6 {
					pl := GetPayloadForDelete()
					pl.TS = 1
					vl.emit(ev{"a": "Inv", "l": 1, "p": p, "op": "del", "k": k, "val": 0})
					err := r.store.Set(ki, pl)
					vl.emit(ev{"a": "Res", "l": 1, "p": p, "op": "del", "k": k, "val": 0, "ver": pl.Ver, "ok": err == nil, "res": ""})
				} else {
					vl.emit(ev{"a": "Inv", "l": 1, "p": p, "op": "get", "k": k, "val": 0})
					pl, _, err := r.store.Get(ki, false)
					res := ev{"a": "Res", "l": 1, "p": p, "op": "get", "k": k, "val": 0, "ver": 0, "ok": err == nil, "res": "miss"}
					if err != nil {
						res["res"] = "err"
					} else if pl != nil {
						res["res"], res["ver"] = "hit", pl.Ver
						if pl.Ver > 0 {
							vmu.Lock()
							res["val"] = r.identify(pl.Body, pl.Flag)
							vmu.Unlock()
						}
						cmem.DBRL.GetData.SubSizeAndCount(pl.CArray.Cap)
						pl.CArray.Free()
					}
					vl.emit(res)
				}
				if rng.Intn(4) == 0 {
					runtime.Gosched()
				}
			}
		}(c)
	}
	if fs.Flush {
		// the production background goroutines: HStore.Flusher and HStore.HintDumper.  HintDumper sets the
		// package variable mergeChan (clients then signal it instead of dumping inline); it cannot be
		// stopped, so its loop is reproduced here with the same calls.
		mergeChan = make(chan int, 2)
		defer func() { mergeChan = nil }()
		hwg.Add(2)
		go func() {
			defer hwg.Done()
			vs.setProc("flusher")
			for {
				select {
				case <-stop:
					return
				default:
				}
				r.store.flushdatas(true)
				time.Sleep(50 * time.Microsecond)
			}
		}()
		go func() {
			defer hwg.Done()
			vs.setProc("dumper")
			for {
				select {
				case <-stop:
					return
				case <-mergeChan:
				case <-time.After(300 * time.Microsecond):
				}
				r.bkt.hints.dumpAndMerge(false)
			}
		}()
	}
	if fs.GC {
		hwg.Add(1)
		go func() {
			defer hwg.Done()
			vs.setProc("gc")
			for i := 0; i < 3; i++ {
				select {
				case <-stop:
					return
				default:
				}
				b, en, err := r.bkt.gcCheckRange(0, -1, 0)
				if err == nil {
					vl.emit(ev{"a": "FreeGC", "l": 1, "rb": b, "re": en})
					r.store.gcMgr.gc(r.bkt, b, en, false)
				}
				time.Sleep(200 * time.Microsecond)
			}
		}()
	}
	cwg.Wait()
	close(stop)
	hwg.Wait()
	r.store.flushdatas(true)
	e["a"] = "FreeDone"
	e["reads"] = r.readAll()
}
