//go:build verif
// +build verif

package store

// Family "list" (C08 Merkle listing, C15 bucket routing): scenario interpreter.
//
// Unlike the sequential runner (zz_verif_scen_test.go, one served bucket) a scenario of this
// family serves any subset of the buckets, so it has its own small interpreter; it reuses the
// event log (vl), the hook state (vs), vInstall, genBytes and the Fatalf interception.
//
// The log carries INPUTS the harness controls (key digits from the hash function in force,
// value hashes of the bytes it wrote, the operations) and OBSERVATIONS (replies, raw listings
// of HStore.ListDir, sizes of the data files per bucket directory).  Expectations are computed
// by TLC (spec/Trace_List.tla), never here.

import (
	"bufio"
	"encoding/json"
	"fmt"
	"math/rand"
	"os"
	"path/filepath"
	"sort"
	"strconv"
	"strings"
	"testing"
	"time"

	"github.com/douban/gobeansdb/cmem"
	"github.com/douban/gobeansdb/config"
)

type lconf struct {
	Buckets    int   `json:"buckets"`
	Served     []int `json:"served"`
	Height     int   `json:"height"`
	Threshold  int   `json:"threshold"` // thresholdListKey; 0 = leave the default (256)
	CheckVHash bool  `json:"check_vhash"`
	Files      bool  `json:"files"` // log data file sizes per bucket directory after every op
}

// how a key gets its hash: explicit 16 hex digits (override), the real hash with the top
// digits forced, or a key SEARCHED so that its real hash starts with the prefix
type lkey struct {
	Hash   string `json:"hash,omitempty"`
	Force  string `json:"force,omitempty"`
	Prefix string `json:"prefix,omitempty"`
	Idx    int    `json:"idx,omitempty"`
}

type lpop struct {
	Name   string `json:"name"`
	Force  string `json:"force,omitempty"`
	Prefix string `json:"prefix,omitempty"`
	Count  int    `json:"count"`
}

type lop struct {
	Op      string   `json:"op"`
	K       string   `json:"k,omitempty"`
	V       int      `json:"v,omitempty"`
	Rev     int      `json:"rev,omitempty"`
	D       int      `json:"d,omitempty"`
	Expect  int      `json:"expect,omitempty"`
	Rm      []string `json:"rm,omitempty"`
	B       int      `json:"b,omitempty"`
	Begin   int      `json:"begin,omitempty"`
	End     int      `json:"end,omitempty"`
	P       string   `json:"p,omitempty"`
	Ps      []string `json:"ps,omitempty"`
	Name    string   `json:"name,omitempty"`
	From    int      `json:"from,omitempty"`
	To      int      `json:"to,omitempty"`
	Shuffle int64    `json:"shuffle,omitempty"`
	Full    int      `json:"full,omitempty"`
	MaxLen  int      `json:"maxlen,omitempty"`
	Only    []string `json:"only,omitempty"` // listall: walk the digits of these keys only
}

type lscen struct {
	ID     string          `json:"id"`
	Family string          `json:"family"`
	Group  string          `json:"group,omitempty"`
	Conf   lconf           `json:"conf"`
	Keys   map[string]lkey `json:"keys"`
	Pops   []lpop          `json:"pops"`
	Ops    []lop           `json:"ops"`
}

type lrunner struct {
	sc     *lscen
	dir    string
	store  *HStore
	names  []string          // model key names in declaration order
	realOf map[string]string // model name -> real key
	hashOf map[string]uint64 // real key -> hash in force
	served map[int]bool
	ts     uint32
}

func hexOf(h uint64) string { return fmt.Sprintf("%016x", h) }

func parseHexPrefix(s string) (v uint64, n uint) {
	x, err := strconv.ParseUint(s, 16, 64)
	if err != nil && s != "" {
		panic("bad hex prefix " + s)
	}
	return x, uint(len(s))
}

// search: the idx-th key of the family "<name>-<i>" whose REAL hash starts with prefix
func searchKey(name, prefix string, idx int) string {
	want, n := parseHexPrefix(prefix)
	seen := 0
	for i := 0; i < 200000000; i++ {
		k := name + "-" + strconv.Itoa(i)
		h := getKeyHashDefalut([]byte(k))
		if n == 0 || h>>(64-4*n) == want {
			if seen == idx {
				return k
			}
			seen++
		}
	}
	panic("key search exhausted")
}

func (r *lrunner) declare(name, real string, h uint64) {
	r.names = append(r.names, name)
	r.realOf[name] = real
	r.hashOf[real] = h
}

func (r *lrunner) resolveKeys() error {
	r.realOf = map[string]string{}
	r.hashOf = map[string]uint64{}
	names := make([]string, 0, len(r.sc.Keys))
	for n := range r.sc.Keys {
		names = append(names, n)
	}
	sort.Strings(names)
	forced := func(real, force string) uint64 {
		v, n := parseHexPrefix(force)
		if n == 0 {
			return getKeyHashDefalut([]byte(real))
		}
		return (getKeyHashDefalut([]byte(real)) >> (4 * n)) | (v << (64 - 4*n))
	}
	for _, n := range names {
		k := r.sc.Keys[n]
		switch {
		case k.Hash != "":
			h, err := strconv.ParseUint(k.Hash, 16, 64)
			if err != nil || len(k.Hash) != 16 {
				return fmt.Errorf("bad hash for %s", n)
			}
			r.declare(n, "key-"+n, h)
		case k.Force != "":
			real := "key-" + n + "-" + strconv.Itoa(k.Idx)
			r.declare(n, real, forced(real, k.Force))
		default:
			real := searchKey("s"+n, k.Prefix, k.Idx)
			r.declare(n, real, getKeyHashDefalut([]byte(real)))
		}
	}
	for _, p := range r.sc.Pops {
		if p.Force != "" {
			for i := 0; i < p.Count; i++ {
				real := "pop-" + p.Name + "-" + strconv.Itoa(i)
				r.declare(p.Name+strconv.Itoa(i), real, forced(real, p.Force))
			}
		} else {
			want, n := parseHexPrefix(p.Prefix)
			found := 0
			for i := 0; found < p.Count; i++ {
				real := "pop-" + p.Name + "-" + strconv.Itoa(i)
				h := getKeyHashDefalut([]byte(real))
				if n == 0 || h>>(64-4*n) == want {
					r.declare(p.Name+strconv.Itoa(found), real, h)
					found++
				}
				if i > 400000000 {
					return fmt.Errorf("population search exhausted")
				}
			}
		}
	}
	// one slot per hash: colliding keys are out of scope of C08
	seen := map[uint64]string{}
	for _, n := range r.names {
		h := r.hashOf[r.realOf[n]]
		if o, dup := seen[h]; dup {
			return fmt.Errorf("hash collision between %s and %s", o, n)
		}
		seen[h] = n
	}
	return nil
}

func (r *lrunner) setup() {
	c := &r.sc.Conf
	if c.Buckets == 0 {
		c.Buckets = 16
	}
	if c.Height == 0 {
		c.Height = 3
	}
	Conf.InitDefault()
	Conf.Home = r.dir
	Conf.NumBucket = c.Buckets
	r.served = map[int]bool{}
	for _, b := range c.Served {
		r.served[b] = true
	}
	// the served buckets reach the store the way they do in production: a route table in YAML (this server owns the
	// scenario's buckets, another one owns the rest), decoded by config.RouteTable and turned into DBRouteConfig
	hexid := func(b int) string {
		if c.Buckets > 16 {
			return fmt.Sprintf("%02x", b)
		}
		return fmt.Sprintf("%x", b)
	}
	mine, others := []string{}, []string{}
	for b := 0; b < c.Buckets; b++ {
		if r.served[b] {
			mine = append(mine, "\""+hexid(b)+"\"")
		} else {
			others = append(others, "\""+hexid(b)+"\"")
		}
	}
	yml := fmt.Sprintf("numbucket: %d\nmain:\n- addr: self:7900\n  buckets: [%s]\n- addr: other:7900\n  buckets: [%s]\nbackup: []\n",
		c.Buckets, strings.Join(mine, ", "), strings.Join(others, ", "))
	rt := &config.RouteTable{}
	if err := rt.LoadFromYaml([]byte(yml)); err != nil {
		panic("route table: " + err.Error())
	}
	rc := rt.GetDBRouteConfig("self:7900")
	Conf.NumBucket = rc.NumBucket
	Conf.BucketsStat = rc.BucketsStat
	Conf.TreeHeight = c.Height
	Conf.TreeDump = 3
	Conf.CheckVHash = c.CheckVHash
	Conf.Init()
	Conf.SplitCap = 2048 // the default (1M slots per hint split) costs 8 MB of zeroing per opened bucket
	config.MCConf.BodyMax = 1 << 20
	SecsBeforeDump = 1000000
	if c.Threshold > 0 {
		thresholdListKey = uint32(c.Threshold)
	} else {
		thresholdListKey = ThresholdListKeyDefault
	}
	hashOf := r.hashOf
	getKeyHash = func(key []byte) uint64 {
		if h, ok := hashOf[string(key)]; ok {
			return h
		}
		return getKeyHashDefalut(key)
	}
	vs.mu.Lock()
	vs.home = r.dir
	vs.micro = false
	vs.gateRot = false
	vs.bgDone = make(chan struct{}, 4096)
	vs.mu.Unlock()
}

func (r *lrunner) open() error {
	vs.setProc("opener")
	st, err := NewHStore()
	if err != nil {
		return err
	}
	r.store = st
	// which buckets the store actually serves (an observation: it must be exactly the buckets of the route table)
	ready := []int{}
	for b, bkt := range st.buckets {
		if bkt != nil && bkt.State == BUCKET_STAT_READY {
			ready = append(ready, b)
		}
	}
	vl.emit(ev{"a": "Ready", "l": 1, "ready": ready})
	for range ready { // background hint re-check of every opened bucket
		select {
		case <-vs.bgDone:
		case <-time.After(30 * time.Second):
			return fmt.Errorf("open: background check did not finish")
		}
	}
	return nil
}

func (r *lrunner) ki(name string) *KeyInfo {
	key := []byte(r.realOf[name])
	return NewKeyInfoFromBytes(key, getKeyHash(key), false)
}

func lvalBytes(v int) []byte { return genBytes(v, 8+(v*7)%90) }

func (r *lrunner) get(name string) ev {
	e := ev{"a": "Get", "l": 1, "k": name, "ver": 0, "vh": 0}
	p, _, err := r.store.Get(r.ki(name), false)
	if err != nil {
		e["res"], e["err"] = "err", err.Error()
		return e
	}
	if p == nil {
		e["res"] = "miss"
		return e
	}
	e["res"], e["ver"] = "hit", p.Ver
	if p.Ver > 0 {
		e["vh"] = Getvhash(p.Body)
	}
	cmem.DBRL.GetData.SubSizeAndCount(p.CArray.Cap)
	p.CArray.Free()
	return e
}

func (r *lrunner) set(name string, body []byte, flag uint32, rev int) ev {
	e := ev{"a": "Set", "l": 1, "k": name, "rev": rev, "vh": 0}
	var p *Payload
	r.ts++
	if rev < 0 {
		p = GetPayloadForDelete()
		p.TS = r.ts
	} else {
		p = &Payload{}
		p.Flag = flag
		p.Ver = int32(rev)
		p.TS = r.ts
		p.CArray.Alloc(len(body))
		copy(p.CArray.Body, body)
		cmem.DBRL.SetData.AddSizeAndCount(p.CArray.Cap)
		e["vh"] = Getvhash(body)
	}
	err := r.store.Set(r.ki(name), p)
	if err == nil {
		e["res"] = "ok"
	} else if err.Error() == "NOT_FOUND" {
		e["res"] = "NOT_FOUND"
	} else {
		e["res"], e["err"] = "err", err.Error()
	}
	return e
}

// size of the *.data files per bucket directory; the directory -> bucket mapping is the
// harness's own reading of the layout ("", "x", "x/y"), not GetBucketDir
func (r *lrunner) files(after string) ev {
	sizes := map[string]int64{}
	other := []string{}
	nb := r.sc.Conf.Buckets
	filepath.Walk(r.dir, func(p string, st os.FileInfo, err error) error {
		if err != nil || st.IsDir() || !strings.HasSuffix(p, ".data") {
			return nil
		}
		rel, _ := filepath.Rel(r.dir, filepath.Dir(p))
		b := -1
		hexd := func(s string) int {
			if len(s) != 1 {
				return -1
			}
			v, err := strconv.ParseInt(s, 16, 0)
			if err != nil || strings.ToLower(s) != s {
				return -1
			}
			return int(v)
		}
		switch {
		case nb == 1 && rel == ".":
			b = 0
		case nb == 16:
			b = hexd(rel)
		case nb == 256:
			parts := strings.Split(rel, string(os.PathSeparator))
			if len(parts) == 2 && hexd(parts[0]) >= 0 && hexd(parts[1]) >= 0 {
				b = hexd(parts[0])*16 + hexd(parts[1])
			}
		}
		if b < 0 {
			rp, _ := filepath.Rel(r.dir, p)
			other = append(other, rp)
		} else {
			sizes[strconv.Itoa(b)] += st.Size()
		}
		return nil
	})
	return ev{"a": "Files", "l": 1, "sizes": sizes, "other": other, "after": after}
}

func (r *lrunner) list(prefix string) ev {
	e := ev{"a": "List", "l": 1, "p": prefix, "raw": "", "res": "ok"}
	// exactly what gobeansdb.StorageClient.listDir builds for `get @prefix`
	ki := &KeyInfo{}
	ki.StringKey = prefix
	ki.Key = []byte(prefix)
	ki.KeyIsPath = true
	body, err := r.store.ListDir(ki)
	if err != nil {
		e["res"], e["err"] = "err", err.Error()
		return e
	}
	e["raw"] = string(body)
	return e
}

// every prefix of length 0..maxlen along the digits of the keys, plus sibling prefixes
func (r *lrunner) allPrefixes(full, maxlen int, only []string) []string {
	set := map[string]bool{"": true}
	if maxlen <= 0 || maxlen > 16 {
		maxlen = 16
	}
	short := Conf.TreeDepth + Conf.TreeHeight + 1
	if short > maxlen {
		short = maxlen
	}
	names := r.names
	if len(only) > 0 {
		names = nil
		for _, n := range only {
			if _, ok := r.realOf[n]; ok {
				names = append(names, n)
			}
		}
	}
	for i, n := range names {
		d := hexOf(r.hashOf[r.realOf[n]])
		lim := maxlen
		if full > 0 && i >= full {
			lim = short
		}
		for l := 1; l <= lim; l++ {
			set[d[:l]] = true
			c := d[l-1]
			sib := "0123456789abcdef"[(strings.IndexByte("0123456789abcdef", c)+1+i%3)%16]
			set[d[:l-1]+string(sib)] = true
		}
	}
	out := make([]string, 0, len(set))
	for p := range set {
		out = append(out, p)
	}
	sort.Slice(out, func(i, j int) bool {
		if len(out[i]) != len(out[j]) {
			return len(out[i]) < len(out[j])
		}
		return out[i] < out[j]
	})
	return out
}

func (r *lrunner) popNames(o *lop) []string {
	out := []string{}
	for i := o.From; i < o.To; i++ {
		out = append(out, o.Name+strconv.Itoa(i))
	}
	if o.Shuffle != 0 {
		rng := rand.New(rand.NewSource(o.Shuffle))
		rng.Shuffle(len(out), func(i, j int) { out[i], out[j] = out[j], out[i] })
	}
	return out
}

func (r *lrunner) step(o *lop) (out []ev, stop bool) {
	defer func() {
		if x := recover(); x != nil {
			if f, ok := x.(vFatal); ok {
				out = append(out, ev{"a": "Fatal", "l": 1, "msg": f.msg})
				stop = true
				return
			}
			// a panic of the code under test on this operation is an observation
			out = append(out, ev{"a": "Panic", "l": 1, "op": o.Op, "k": o.K, "msg": fmt.Sprint(x)})
			stop = true
		}
	}()
	vs.setProc("c1")
	needUp := map[string]bool{"set": true, "setnum": true, "del": true, "incr": true, "get": true, "flush": true,
		"close": true, "gc": true, "list": true, "listall": true, "setpop": true, "delpop": true, "lists": true}
	if needUp[o.Op] && r.store == nil {
		return []ev{{"a": "Skip", "l": 1, "op": o.Op}}, false
	}
	switch o.Op {
	case "set":
		out = append(out, r.set(o.K, lvalBytes(o.V), 0, o.Rev))
	case "setnum":
		e := r.set(o.K, []byte(strconv.Itoa(o.V)), FLAG_INCR, o.Rev)
		e["num"] = o.V // the decimal value written (input), so that the oracle can follow incr
		out = append(out, e)
	case "del":
		out = append(out, r.set(o.K, nil, 0, -1))
	case "incr":
		cmem.DBRL.SetData.AddCount(1) // as Request.Read does for incr
		n := r.store.Incr(r.ki(o.K), o.D)
		out = append(out, ev{"a": "Incr", "l": 1, "k": o.K, "d": o.D, "res": n, "expect": o.Expect,
			"vh": Getvhash([]byte(strconv.Itoa(o.Expect)))})
	case "get":
		out = append(out, r.get(o.K))
	case "setpop":
		for _, n := range r.popNames(o) {
			out = append(out, r.set(n, lvalBytes(o.V), 0, o.Rev))
		}
	case "delpop":
		for _, n := range r.popNames(o) {
			out = append(out, r.set(n, nil, 0, -1))
		}
	case "flush":
		r.store.flushdatas(true)
		out = append(out, ev{"a": "Flush", "l": 1})
	case "close":
		vs.setProc("closer")
		r.store.Close()
		r.store = nil
		out = append(out, ev{"a": "Close", "l": 1})
	case "kill":
		// unclean stop: what was written is flushed (durable, C06), then the process state is simply gone - no
		// tree dump, no hint dump.  The next open loads the LAST tree dump and replays everything written since.
		vs.setProc("flusher")
		r.store.flushdatas(true)
		r.store = nil
		out = append(out, ev{"a": "Close", "l": 1, "kill": true})
	case "open":
		if r.store != nil {
			return []ev{{"a": "Skip", "l": 1, "op": o.Op}}, false
		}
		removed := []string{}
		filepath.Walk(r.dir, func(p string, st os.FileInfo, err error) error {
			if err != nil || st.IsDir() {
				return nil
			}
			for _, pat := range o.Rm {
				if ok, _ := filepath.Match(pat, filepath.Base(p)); ok {
					os.Remove(p)
					rp, _ := filepath.Rel(r.dir, p)
					removed = append(removed, rp)
					break
				}
			}
			return nil
		})
		sort.Strings(removed)
		e := ev{"a": "Open", "l": 1, "removed": removed, "meta": ev{}}
		if err := r.open(); err != nil {
			e["err"] = err.Error()
			return []ev{e}, true
		}
		vs.setProc("c1")
		// version memory of every key after recovery (adopted by the oracle for DELETED keys only)
		meta := ev{}
		for _, n := range r.names {
			p, _, err := r.store.Get(r.ki(n), true)
			if err == nil && p != nil {
				meta[n] = p.Ver
			} else {
				meta[n] = 0
			}
		}
		e["meta"] = meta
		out = append(out, e)
	case "gc":
		e := ev{"a": "GC", "l": 1, "b": o.B, "begin": o.Begin, "end": o.End, "res": "skip"}
		if o.B >= 0 && o.B < len(r.store.buckets) && r.served[o.B] {
			bkt := r.store.buckets[o.B]
			vs.setProc("gc")
			b, en, err := bkt.gcCheckRange(o.Begin, o.End, 0)
			if err != nil {
				e["res"], e["err"] = "refused", err.Error()
			} else {
				r.store.gcMgr.gc(bkt, b, en, false)
				st := bkt.GCHistory[len(bkt.GCHistory)-1]
				e["res"], e["rb"], e["re"], e["released"] = "ok", b, en, st.NumReleased
				if st.Err != nil {
					e["res"], e["err"] = "err", st.Err.Error()
				}
			}
		}
		out = append(out, e)
	case "list":
		out = append(out, r.list(o.P))
	case "lists":
		for _, p := range o.Ps {
			out = append(out, r.list(p))
		}
	case "listall":
		for _, p := range r.allPrefixes(o.Full, o.MaxLen, o.Only) {
			out = append(out, r.list(p))
		}
	default:
		out = append(out, ev{"a": "Skip", "l": 1, "op": o.Op})
	}
	if r.sc.Conf.Files && r.store != nil && o.Op != "list" && o.Op != "lists" && o.Op != "listall" {
		r.store.flushdatas(true)
		out = append(out, r.files(o.Op))
	}
	return
}

func (r *lrunner) run() {
	vs.reset()
	if err := r.resolveKeys(); err != nil {
		vl.emit(ev{"a": "Reset", "l": 1, "sid": r.sc.ID, "abort": err.Error()})
		vl.emit(ev{"a": "End", "l": 1, "sid": r.sc.ID})
		return
	}
	r.setup()
	defer func() {
		getKeyHash = getKeyHashDefalut
		thresholdListKey = ThresholdListKeyDefault
	}()
	c := r.sc.Conf
	lt := int(thresholdListKey)
	vl.emit(ev{"a": "Reset", "l": 1, "sid": r.sc.ID, "group": r.sc.Group, "conf": ev{
		"buckets": c.Buckets, "depth": Conf.TreeDepth, "height": c.Height, "listTh": lt, "bigTh": ThresholdBigHash,
		"served": append([]int{}, c.Served...), "checkVH": c.CheckVHash, "khashLen": Conf.TreeKeyHashLen}})
	keys := ev{}
	for _, n := range r.names {
		keys[n] = hexOf(r.hashOf[r.realOf[n]])
	}
	vl.emit(ev{"a": "Keys", "l": 1, "keys": keys})
	if err := r.open(); err != nil {
		vl.emit(ev{"a": "Abort", "l": 1, "err": err.Error()})
		vl.emit(ev{"a": "End", "l": 1, "sid": r.sc.ID})
		return
	}
	if c.Files {
		vl.emit(r.files("start"))
	}
	for i := range r.sc.Ops {
		evs, stop := r.step(&r.sc.Ops[i])
		for _, e := range evs {
			e["i"] = i
			vl.emit(e)
		}
		if stop {
			break
		}
	}
	if r.store != nil && c.Height < 7 { // (a final dump of a height-8 tree alone is 2.7 GB)
		func() {
			defer func() { recover() }()
			r.store.Close()
		}()
		r.store = nil
	}
	vl.emit(ev{"a": "End", "l": 1, "sid": r.sc.ID})
}

func TestVerifList(t *testing.T) {
	if *vIn == "" {
		t.Skip("no -verif.in")
	}
	vInstall()
	f, err := os.Open(*vIn)
	if err != nil {
		t.Fatal(err)
	}
	defer f.Close()
	rd := bufio.NewReaderSize(f, 1<<20)
	n := 0
	for {
		line, err := rd.ReadString('\n')
		if strings.TrimSpace(line) != "" {
			var sc lscen
			if e := json.Unmarshal([]byte(line), &sc); e != nil {
				t.Fatalf("bad scenario: %v", e)
			}
			dir := filepath.Join(*vWork, fmt.Sprintf("l%d", n))
			os.RemoveAll(dir)
			os.MkdirAll(dir, 0777)
			r := &lrunner{sc: &sc, dir: dir}
			r.run()
			vl.flush()
			os.RemoveAll(dir)
			n++
		}
		if err != nil {
			break
		}
	}
}
