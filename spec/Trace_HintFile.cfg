SPECIFICATION TraceSpec
CONSTRAINT HighWater
INVARIANT Report
VIEW TraceView
POSTCONDITION TraceAccepted
CHECK_DEADLOCK FALSE
