------------------------------ MODULE MC_Seq ------------------------------
(* Exhaustive sequential configuration (C01, C02, C08-incremental, C13):   *)
(* one client, every operation runs to completion, flush / rotation-flush  *)
(* / hint dump / clean restart with any subset of index files removed are  *)
(* interleaved at every position.                                          *)
EXTENDS Bucket

CONSTANTS Vals, Revs, MaxOps, CheckVH, Collide, MaxRestarts, Mutants, WithGC, FileMax, BodyMaxBlk, WithCrash, SplitCap

VARIABLES nops, nrestart

Conf0 == [hashOf |-> [k \in Keys |-> IF Collide /\ k \in {"b", "c"} THEN "hb" ELSE "h" \o k],
          rank   |-> [k \in Keys |-> CASE k = "a" -> 1 [] k = "b" -> 2 [] OTHER -> 3],
          fileMax |-> FileMax, splitCap |-> SplitCap, checkVHash |-> CheckVH, dumpEager |-> FALSE,
          bodyMaxBlk |-> BodyMaxBlk, mut |-> Mutants]
NBlk(v) == IF v = 3 THEN 2 ELSE 1
VhOf(v) == IF v = 2 THEN 11 ELSE 10 + v      \* values 1 and 2 share a value hash

MCInit == Init(Conf0) /\ nops = 0 /\ nrestart = 0

Start ==
  /\ Quiet /\ nops < MaxOps
  /\ nops' = nops + 1 /\ nrestart' = nrestart
  /\ \/ \E k \in Keys, v \in Vals, r \in Revs : W_Begin("c1", k, v, r, 0, NBlk(v), VhOf(v))
     \/ \E k \in Keys : W_Begin("c1", k, 0, -1, 0, 1, 0)
     \/ \E k \in Keys : I_Begin("c1", k, 1, -1)
     \/ F_Start("flusher")
     \/ (MaxRestarts > 0 /\ CL_Start)
     \* (GC over a just rotated file whose flush is still pending is a schedule, not a history: MC_ConcGC)
     \/ (WithGC /\ (\A c \in Chunks : pc[RotName(c)] = "idle") /\ \E b \in -1..MaxChunk, e \in -1..MaxChunk :
            LET r == RangeOf(b, e, LAMBDA n : TRUE) IN r.ok /\ G_Start(r.b, r.e, FALSE))

\* reads are not counted: they are observations (they matter for the collision table)
StartFree ==
  /\ Quiet /\ UNCHANGED <<nops, nrestart>>
  /\ \/ \E c \in Chunks : pc[RotName(c)] = "spawned" /\ F_Enter(RotName(c))
     \/ (Collide /\ \E k \in Keys : R_Begin("c1", k))

Restart ==
  /\ UNCHANGED nops
  /\ \/ Open /\ nrestart' = nrestart + 1
     \/ (nrestart' = nrestart /\ (RmTreeDumps \/ \E c \in Chunks, j \in 0..2 : RmHint(c, j)))

Kill == WithCrash /\ nrestart < MaxRestarts /\ (Crash \/ CrashTornFlush \/ CrashTornCopy) /\ UNCHANGED <<nops, nrestart>>

\* CancelGC may arrive at any moment of a pass (the pass looks at the flag at each file boundary).
\* Enabled by the option "cancel" in Mutants (which doubles as the option set of a configuration).
Cancel == "cancel" \in Mutants /\ G_Cancel /\ UNCHANGED <<nops, nrestart>>

MCNext == Start \/ StartFree \/ (Continue /\ UNCHANGED <<nops, nrestart>>) \/ Restart \/ Kill \/ Cancel

MCSpec == MCInit /\ [][MCNext]_<<vars, nops, nrestart>>

Bound == nrestart <= MaxRestarts /\ head < MaxChunk

\* after a clean restart reads agree with the reference map (C02): value, flags, liveness
\* always; version for live keys
C02_Restart == (up /\ Quiet) => \A k \in Keys : ~Colliding(k) => Agrees(k, SpecRead(k), ref[k], 1)
\* debugging aids (not properties)
DbgHintAhead == up \/ \A c \in Chunks : \A i \in 1..Len(disk.hintf[c]) : disk.hintf[c][i] = NoFile \/ disk.hintf[c][i].datasize <= Len(disk.data[c])
=============================================================================
