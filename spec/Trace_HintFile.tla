--------------------------- MODULE Trace_HintFile ---------------------------
(***************************************************************************)
(* Trace validation for property C14.  Every line of trace.ndjson is one   *)
(* OBSERVATION of the real code (HintBuffer.Dump, hintFileReader,          *)
(* loadHintIndex, hintFileIndex.get, merge() + CollisionTable) on one case;*)
(* many cases are concatenated.  The observations are compared with the    *)
(* specification side of HintFile.tla; failures are accumulated in `bad`.  *)
(*                                                                         *)
(* Real values: hashes are 64-bit, carried as limb triples <<22,21,21 bit>>*)
(* offsets / sizes are 32-bit unsigned, carried as pairs <<hi16, lo16>>;   *)
(* keys are Go strings over printable ASCII, ordered bytewise.             *)
(*                                                                         *)
(* Work is kept linear in the number of items: sortedness by adjacent      *)
(* comparison, membership through TLC sets, and position WITNESSES (an     *)
(* index into a sorted sequence, supplied by the orchestrator by bisection *)
(* and VERIFIED here - a wrong witness is reported, never trusted).  Small *)
(* cases are additionally compared with the definitional operators         *)
(* (Sorted, LookupSpec, MergeSpec, CollisionsSpec).                        *)
(***************************************************************************)
EXTENDS Integers, Sequences, FiniteSets, TLC, Json

Trace == ndJsonDeserialize("trace.ndjson")

\* ---- orders on real values
LimbLt(a, b) == \/ a[1] < b[1]
                \/ (a[1] = b[1] /\ a[2] < b[2])
                \/ (a[1] = b[1] /\ a[2] = b[2] /\ a[3] < b[3])
U32Lt(a, b)  == a[1] < b[1] \/ (a[1] = b[1] /\ a[2] < b[2])
U32Add(a, b) == LET lo == a[2] + b[2] IN <<a[1] + b[1] + (lo \div 65536), lo % 65536>>
U32Zero      == <<0, 0>>
PosLt(a, b)  == a.c < b.c \/ (a.c = b.c /\ U32Lt(a.o, b.o))

Alpha == "!#$%&'()*+,-./0123456789:;<=>?@ABCDEFGHIJKLMNOPQRSTUVWXYZ[]^_`abcdefghijklmnopqrstuvwxyz{|}~"
OrdOf(c) == CHOOSE i \in 1..Len(Alpha) : SubSeq(Alpha, i, i) = c
\* Go string order: at the first differing byte, else the shorter one (no recursion: keys are <= 250 bytes)
StrLt(a, b) ==
  LET m == IF Len(a) < Len(b) THEN Len(a) ELSE Len(b)
      D == {i \in 1..m : SubSeq(a, i, i) # SubSeq(b, i, i)}
  IN IF a = b THEN FALSE
     ELSE IF D = {} THEN Len(a) < Len(b)
     ELSE LET i == CHOOSE i \in D : \A j \in D : i <= j
          IN OrdOf(SubSeq(a, i, i)) < OrdOf(SubSeq(b, i, i))
StrLen(k)   == Len(k)

INSTANCE HintFile WITH HLt <- LimbLt, KLt <- StrLt, KLen <- StrLen, PLt <- PosLt, Mut <- {}

VARIABLES l,      \* cursor into Trace
          bad,    \* set of <<sid, n, check>>: property-level failures of observed behaviour
          drift,  \* set of <<sid, n, what>>: layout / bookkeeping mismatches (never verdicts)
          sid,    \* current case
          cs      \* per-case memory: [T, small, F (file no -> what was observed), ct]
vars == <<l, bad, drift, sid, cs>>

Ev      == Trace[l]
IsEv(a) == l <= Len(Trace) /\ Trace[l].a = a
Adv     == l' = l + 1

MaxF   == 8
NoFile == [chunk |-> 0, set |-> <<>>, R |-> <<>>, lidx |-> <<>>, midx |-> <<>>, ds |-> U32Zero, mds |-> U32Zero, seen |-> FALSE]
NoCase == [T |-> 0, small |-> FALSE, F |-> [f \in 0..MaxF |-> NoFile], ct |-> <<>>, merr |-> "", srcs |-> <<>>]

Strip(s) == [h |-> s.h, k |-> s.k, c |-> s.c, o |-> s.o, v |-> s.v, vh |-> s.vh]
KeyOf(it) == <<it.h, it.k>>

\* the buffer content after the Sets of a case: last Set of a (hash,key) wins.  Large cases
\* have pairwise different keys (checked), so this is the plain set of items.
BufItems(set, small) ==
  IF small THEN {Strip(set[i]) : i \in {i \in 1..Len(set) : \A j \in (i + 1)..Len(set) : KeyOf(set[j]) # KeyOf(set[i])}}
  ELSE {Strip(set[i]) : i \in 1..Len(set)}
DistinctKeys(set) == Cardinality({KeyOf(set[i]) : i \in 1..Len(set)}) = Len(set)
\* HintBuffer.maxoffset = max over ALL Sets of offset + record size
MaxEnd(set) == FoldLeft(LAMBDA m, s : LET e == U32Add(s.o, s.z) IN IF U32Lt(m, e) THEN e ELSE m, U32Zero, set)

\* q against the strictly sorted sequence R with witness w = position of the first item >= q
QLt(it, h, k) == LimbLt(it.h, h) \/ (it.h = h /\ StrLt(it.k, k))      \* it < (h,k)
WitnessOK(R, h, k, w) ==
  /\ w \in 1..Len(R) + 1
  /\ (w <= Len(R) => ~QLt(R[w], h, k))
  /\ (w > 1 => QLt(R[w - 1], h, k))
PresentAt(R, h, k, w) == w <= Len(R) /\ R[w].h = h /\ R[w].k = k

\* index drift: the sparse index the real writer produced vs the rule of HintFile.tla
\* (WriteFile's rule, evaluated without building sequences: linear in the number of items)
IdxWalk(obs, its, T) ==
  FoldLeft(LAMBDA st, it :
             LET ix == (st.off - st.last) > T
             IN [off  |-> st.off + ISize(it),
                 last |-> IF ix THEN st.off ELSE st.last,
                 j    |-> IF ix THEN st.j + 1 ELSE st.j,
                 ok   |-> st.ok /\ (ix => (st.j + 1 <= Len(obs) /\ obs[st.j + 1].h = it.h /\ obs[st.j + 1].off = st.off))],
           [off |-> HeadSize, last |-> 0, j |-> 0, ok |-> TRUE], its)
IdxSame(obs, its, T) == LET w == IdxWalk(obs, its, T) IN w.ok /\ w.j = Len(obs)
EndOffset(its) == FoldLeft(LAMBDA o, it : o + ISize(it), HeadSize, its)

\* collision groups of a strictly sorted item sequence: items with an equal-hash neighbour
CollSet(R) == LET n == Len(R)
              IN {R[i] : i \in {i \in 1..n : (i > 1 /\ R[i - 1].h = R[i].h) \/ (i < n /\ R[i + 1].h = R[i].h)}}

-----------------------------------------------------------------------------
B(tag, cond) == IF cond THEN {} ELSE {<<sid, Ev.n, tag>>}

TrCase ==
  /\ IsEv("Case") /\ Adv
  /\ sid' = Ev.sid
  /\ cs' = [NoCase EXCEPT !.T = Ev.T, !.small = Ev.small]
  /\ UNCHANGED <<bad, drift>>

TrDump ==
  /\ IsEv("Dump") /\ Adv /\ UNCHANGED sid
  /\ cs' = [cs EXCEPT !.F[Ev.f] = [NoFile EXCEPT !.chunk = Ev.chunk, !.set = Ev.set, !.midx = Ev.midx, !.mds = Ev.mds]]
  /\ bad' = bad \cup B("C14_RoundTrip_dumpfailed", Ev.err = "" /\ Ev.refused = 0)
  /\ drift' = drift \cup (IF cs.small \/ DistinctKeys(Ev.set) THEN {} ELSE {<<sid, Ev.n, "large case with duplicate keys">>})

\* checks of a source file read back (f > 0)
ReadChecks(e, f) ==
  LET R  == e.items
      BS == BufItems(f.set, cs.small)
  IN B("C14_RoundTrip_readerr", e.err = "" /\ e.lerr = "")
     \cup B("C14_RoundTrip_sorted", StrictlySorted(R))
     \* (a LARGE case with a key Set twice is a generator error: reported as drift by TrDump, not judged here)
     \cup (IF cs.small \/ DistinctKeys(f.set)
            THEN B("C14_RoundTrip_items", Len(R) = Cardinality(BS) /\ \A i \in 1..Len(R) : R[i] \in BS)
            ELSE {})
     \cup B("C14_RoundTrip_datasize", e.ds = MaxEnd(f.set) /\ e.lds = e.ds /\ f.mds = e.ds)
     \cup (IF cs.small THEN B("C14_RoundTrip_spec", R = DumpSpec([items |-> BS, maxoff |-> MaxEnd(f.set)]).items) ELSE {})

LayoutDrift(e, f) ==
  LET R == e.items
  IN (IF e.nkey = Len(R) /\ e.lnkey = e.nkey THEN {} ELSE {<<sid, e.n, "numKey">>})
     \cup (IF e.io = EndOffset(R) /\ e.lio = e.io THEN {} ELSE {<<sid, e.n, "indexOffset">>})
     \cup (IF IdxSame(e.lidx, R, cs.T) THEN {} ELSE {<<sid, e.n, "index(loaded)">>})
     \cup (IF IdxSame(f.midx, R, cs.T) THEN {} ELSE {<<sid, e.n, "index(in-memory)">>})
     \cup (IF e.size = e.io + IdxEntry * Len(e.lidx) THEN {} ELSE {<<sid, e.n, "filesize">>})

\* checks of the merged file read back (f = 0): out against the sources AS THE READER YIELDS THEM
Src(i) == cs.F[cs.srcs[i]]
PosIn(f, j) == [f.R[j] EXCEPT !.c = f.chunk]
MergeChecks(e) ==
  LET out == e.items
      ns  == Len(cs.srcs)
      files == [i \in 1..ns |-> [chunk |-> Src(i).chunk, items |-> Src(i).R, datasize |-> Src(i).ds]]
      maxds == MaxDatasize(files, U32Lt, U32Zero)
  IN B("C14_Merge_failed", cs.merr = "" /\ e.err = "" /\ e.lerr = "")
     \cup B("C14_Merge_sorted", StrictlySorted(out))
     \* every output item is an item of a source, positioned in that source's chunk
     \cup B("C14_Merge_foreign", /\ Len(e.ow) = Len(out)
                                 /\ \A i \in 1..Len(out) :
                                      LET s == e.ow[i] IN /\ s[1] \in 1..ns /\ s[2] \in 1..Len(Src(s[1]).R)
                                                          /\ out[i] = PosIn(Src(s[1]), s[2]))
     \* every source item's key is in the output, with a position at least as great
     \cup B("C14_Merge_latest", /\ Len(e.sw) = ns
                                /\ \A i \in 1..ns : /\ Len(e.sw[i]) = Len(Src(i).R)
                                                    /\ \A j \in 1..Len(Src(i).R) :
                                                         LET oi == e.sw[i][j]
                                                             x == PosIn(Src(i), j)
                                                         IN /\ oi \in 1..Len(out)
                                                            /\ SameKey(out[oi], x)
                                                            /\ ~PosLt(out[oi], x))
     \cup B("C14_Merge_collisions", {cs.ct[i] : i \in 1..Len(cs.ct)} = CollSet(out)
                                    /\ Len(cs.ct) = Cardinality(CollSet(out)))
     \cup B("C14_Merge_datasize", e.ds = maxds /\ e.lds = e.ds /\ cs.F[0].mds = e.ds)
     \cup (IF cs.small /\ NoTies(files)
             THEN B("C14_Merge_spec", out = MergeSpec(files))
                  \cup B("C14_Merge_collisions_spec", {cs.ct[i] : i \in 1..Len(cs.ct)} = CollisionsSpec(files))
             ELSE {})

TrRead ==
  /\ IsEv("Read") /\ Adv /\ UNCHANGED sid
  /\ LET f == cs.F[Ev.f] IN
     /\ cs' = [cs EXCEPT !.F[Ev.f] = [f EXCEPT !.R = Ev.items, !.lidx = Ev.lidx, !.seen = TRUE,
                                              !.ds = Ev.ds]]
     /\ bad' = bad \cup (IF Ev.f = 0 THEN MergeChecks(Ev) ELSE ReadChecks(Ev, f))
     /\ drift' = drift \cup LayoutDrift(Ev, f)

\* one batch of lookups through the index `via` of file f
LookupChecks(e) ==
  LET f   == cs.F[e.f]
      R   == f.R
      idx == IF e.via = "mem" THEN f.midx ELSE f.lidx
      n   == Len(R)
      Q   == 1..Len(e.q)              \* (indices: the answers have different shapes)
      okW == {i \in Q : WitnessOK(R, e.q[i].h, e.q[i].k, e.q[i].w)}
      fail == {i \in okW : LET q == e.q[i]
                               p == PresentAt(R, q.h, q.k, q.w)
                           IN ~(IF p THEN q.res = "found" /\ q.it = R[q.w] ELSE q.res = "none")}
      \* signature of known finding F1: the scan started at an index entry (j > 1), the key is
      \* absent and no item has a greater hash => today's get() runs into the index region
      f1(q) == /\ q.res = "err"
               /\ ~PresentAt(R, q.h, q.k, q.w)
               /\ (n > 0 => ~LimbLt(q.h, R[n].h))
               /\ SearchIdx(idx, q.h) > 1
      spec == IF cs.small
                THEN {i \in okW : LET q == e.q[i] IN
                        LookupSpec(SeqRange(R), q.h, q.k).res # (IF PresentAt(R, q.h, q.k, q.w) THEN "found" ELSE "none")}
                ELSE {}
  IN [bad |-> {<<sid, e.n, IF f1(e.q[i]) THEN "C14_Lookup!F1" ELSE "C14_Lookup">> : i \in fail}
              \cup {<<sid, e.n, "C14_Lookup_witness_vs_spec">> : i \in spec},
      drift |-> IF okW = Q THEN {} ELSE {<<sid, e.n, "lookup witness not verifiable (file not sorted?)">>}]

TrLookup ==
  /\ IsEv("Lookup") /\ Adv /\ UNCHANGED <<sid, cs>>
  /\ LET r == LookupChecks(Ev) IN bad' = bad \cup r.bad /\ drift' = drift \cup r.drift

TrMerge ==
  /\ IsEv("Merge") /\ Adv /\ UNCHANGED sid
  /\ IF ~Ev.forgc
       THEN /\ cs' = [cs EXCEPT !.ct = Ev.ct, !.merr = Ev.err, !.srcs = Ev.srcs,
                                !.F[0] = [NoFile EXCEPT !.midx = Ev.midx, !.mds = Ev.mds]]
            /\ bad' = bad \cup B("C14_Merge_failed", Ev.err = "" /\ Ev.dst)
            /\ UNCHANGED drift
       ELSE \* forGC: no file is written, only the collision table is filled
            /\ UNCHANGED cs
            /\ bad' = bad \cup B("C14_Merge_failed", Ev.err = "")
                          \cup (IF cs.F[0].seen
                                  THEN B("C14_Merge_collisions_gc", {Ev.ct[i] : i \in 1..Len(Ev.ct)} = CollSet(cs.F[0].R)
                                                                    /\ Len(Ev.ct) = Cardinality(CollSet(cs.F[0].R)))
                                  ELSE {})
            /\ drift' = drift \cup (IF Ev.dst THEN {<<sid, Ev.n, "forGC merge wrote a file">>} ELSE {})

TrEnd ==
  /\ IsEv("End") /\ Adv /\ UNCHANGED <<sid, bad, drift>>
  /\ cs' = NoCase

TrOther ==
  /\ l <= Len(Trace) /\ Adv
  /\ Trace[l].a \notin {"Case", "Dump", "Read", "Lookup", "Merge", "End"}
  /\ drift' = drift \cup {<<sid, l, "unknown-event">>}
  /\ UNCHANGED <<sid, bad, cs>>

TraceInit == l = 1 /\ bad = {} /\ drift = {} /\ sid = "" /\ cs = NoCase /\ TLCSet(1, 1)
TraceNext == TrCase \/ TrDump \/ TrRead \/ TrLookup \/ TrMerge \/ TrEnd \/ TrOther
TraceSpec == TraceInit /\ [][TraceNext]_vars

Done      == l = Len(Trace) + 1
Report    == Done => PrintT(<<"VERIF-RESULT", ToJson([bad |-> bad, drift |-> drift, consumed |-> l - 1])>>)
HighWater == TLCSet(1, IF TLCGet(1) < l THEN l ELSE TLCGet(1))
TraceAccepted == IF TLCGet(1) = Len(Trace) + 1 THEN TRUE
                 ELSE PrintT(<<"VERIF-STUCK", TLCGet(1)>>) /\ FALSE
\* the fingerprint of a state need not walk the (large) case memory: the cursor determines it
TraceView == <<l>>
=============================================================================
