SPECIFICATION Spec
CONSTANTS
  NH = 5
  NK = 3
  MaxItems = 6
  MaxFiles = 1
  Intervals = {64, 303, 329, 1279}
  Mutants = {}
  GenMode = FALSE
INVARIANTS Inv_RoundTrip Inv_Lookup Inv_F1Exact Inv_Merge
CHECK_DEADLOCK FALSE
