SPECIFICATION GenSpec
CONSTANTS
  Keys = %KEYS%
  HashIds = %HASHIDS%
  Clients = {"c1"}
  MaxChunk = 5
  Vals = %VALS%
  Revs = %REVS%
  MaxOps = %MAXOPS%
  CheckVH = %CHECKVH%
  Collide = %COLLIDE%
  MaxRestarts = %MAXRESTARTS%
  Mutants = {}
  WithGC = %WITHGC%
  FileMax = %FILEMAX%
  BodyMaxBlk = 2
  WithCrash = FALSE
  SplitCap = %SPLITCAP%
CONSTRAINT Bound
INVARIANT Emit
CHECK_DEADLOCK FALSE
