----------------------------- MODULE HTreeList -----------------------------
(***************************************************************************)
(* C08: the Merkle (hash tree) listing of gobeansdb as a FUNCTION OF THE   *)
(* CONTENT (store/htree.go, store/leaf.go, store/hstore.go ListUpper).     *)
(*                                                                         *)
(* Part 1  pure operators over 16-bit modular arithmetic:                  *)
(*         LeafSum, Node, UpNode, Listing, UpperListing.                   *)
(*         Used by Trace_List.tla (trace validation of the real code) and  *)
(*         by Route.tla.                                                   *)
(* Part 2  the tree AS THE CODE MAINTAINS IT (incremental leaf sums,       *)
(*         lazily recomputed inner nodes with invalidation along the path, *)
(*         dump/load, rebuild) as a small state machine.  TLC checks that  *)
(*         whatever the history, what the machine would list equals the    *)
(*         pure function of the content (C08_Incremental, C08_Lazy,        *)
(*         C08_ListFn): history independence in the design.                *)
(*                                                                         *)
(* TLC integers are 32-bit signed: 64-bit key hashes travel as tuples of   *)
(* 16 hex digits (0..15); 16-bit products are split into limbs.            *)
(***************************************************************************)
EXTENDS Integers, Sequences, FiniteSets, FiniteSetsExt, SequencesExt, TLC

M16 == 65536
Add16(a, b) == (a + b) % M16
Sub16(a, b) == (a + M16 - b) % M16                 \* a, b \in 0..65535
\* a * b mod 2^16 for a, b \in 0..65535 without leaving 31 bits:
\* a*(b mod 256) < 2^24 ; ((a*(b div 256)) mod 2^16) * 256 < 2^24
Mul16(a, b) == (((a * (b % 256)) % M16) + ((((a * (b \div 256)) % M16) * 256) % M16)) % M16

Digits16 == <<0, 1, 2, 3, 4, 5, 6, 7, 8, 9, 10, 11, 12, 13, 14, 15>>

\* uint16(khash >> 32): hex digits 4..7 (0-based) of the 16-digit hash
Hi16(d) == d[5] * 4096 + d[6] * 256 + d[7] * 16 + d[8]

HasPrefix(d, p) == Len(p) <= Len(d) /\ SubSeq(d, 1, Len(p)) = p

\* An item is [d |-> 16 digits, vh |-> 0..65535, ver |-> Int]; a content is a set of
\* items with pairwise different d (colliding keys are out of scope of C08).
Live(S)     == {x \in S : x.ver > 0}
Under(S, p) == {x \in S : HasPrefix(x.d, p)}
Zero        == [count |-> 0, hash |-> 0]

(* TLC evaluates LET definitions and operator arguments BY NAME and does not always cache them:
   an expensive value referenced n times is recomputed n times, which is exponential in a
   recursion.  Let1 binds a value ONCE: FoldLeft is implemented in Java, evaluates its sequence
   argument eagerly and hands the element to the LAMBDA as a finished value.                  *)
Let1(v, op(_)) == FoldLeft(LAMBDA acc, x : op(x), 0, <<v>>)

\* leaf-level node: sum over live items of vhash * Hi16  (setToLeaf / remvoeFromLeaf)
LeafSum(S) == FoldSet(LAMBDA x, acc : Add16(acc, Mul16(x.vh, Hi16(x.d))), 0, Live(S))

\* fold of updateNodes over the 16 children IN ORDER: hash = hash*97 (iff big) + child.hash;
\* kids = tuple of 16 [count, hash]
KidsHash(kids, big) == FoldLeft(LAMBDA acc, c : Add16(IF big THEN Mul16(acc, 97) ELSE acc, c.hash), 0, kids)
KidsCount(kids)     == FoldLeft(LAMBDA acc, c : acc + c.count, 0, kids)
\* HTree.updateNodes: the factor 97 is applied iff the node's own count > ThresholdBigHash
FromKids(kids, bigTh) ==
  Let1(KidsCount(kids), LAMBDA cnt : [count |-> cnt, hash |-> KidsHash(kids, cnt > bigTh)])
\* the 16 children of path p, by op
KidsBy(p, op(_)) == FoldLeft(LAMBDA acc, i : Append(acc, op(Append(p, i))), <<>>, Digits16)

(* cf = [depth, height, listTh, bigTh]: depth = digits that select the bucket,
   height = levels of a bucket tree, listTh = thresholdListKey, bigTh = ThresholdBigHash.
   A node is named by its path p (Len(p) = depth + level).                              *)
LeafLen(cf) == cf.depth + cf.height - 1

\* the definition, children enumerated blindly (used to validate the shortcut below)
RECURSIVE NodeDef(_, _, _)
NodeDef(S, p0, cf) ==
  Let1(p0, LAMBDA p :
    IF Len(p) >= LeafLen(cf)
      THEN [count |-> Cardinality(Live(Under(S, p))), hash |-> LeafSum(Under(S, p))]
      ELSE Let1(KidsBy(p, LAMBDA q : NodeDef(S, q, cf)), LAMBDA kids : FromKids(kids, cf.bigTh)))

\* same value (checked by TLC: ShortcutLemma); an empty subtree is [0, 0] whatever the fold
RECURSIVE Node(_, _, _)
Node(S, p0, cf) ==
  Let1(p0, LAMBDA p : Let1(Live(Under(S, p)), LAMBDA U :
    IF U = {} THEN Zero
    ELSE IF Len(p) >= LeafLen(cf) THEN [count |-> Cardinality(U), hash |-> LeafSum(U)]
    ELSE Let1(KidsBy(p, LAMBDA q : Node(U, q, cf)), LAMBDA kids : FromKids(kids, cf.bigTh))))

BucketId(p) == FoldLeft(LAMBDA acc, x : acc * 16 + x, 0, p)

\* HStore.updateNodesUpper: above the buckets the factor 97 is unconditional; a bucket that
\* is not served contributes [0, 0]
RECURSIVE UpNode(_, _, _, _)
UpNode(S, p0, cf, served) ==
  Let1(p0, LAMBDA p : Let1(Live(Under(S, p)), LAMBDA U :
    IF U = {} THEN Zero                       \* nothing live below: [0, 0] whatever is served
    ELSE IF Len(p) >= cf.depth
      THEN (IF BucketId(p) \in served THEN Node(U, p, cf) ELSE Zero)
      ELSE Let1(KidsBy(p, LAMBDA q : UpNode(U, q, cf, served)),
                LAMBDA kids : [count |-> KidsCount(kids), hash |-> KidsHash(kids, TRUE)])))

\* `get @prefix` with Len(prefix) < depth : 16 lines "i/ hash count"
UpperListing(S, prefix, cf, served) == KidsBy(prefix, LAMBDA q : UpNode(S, q, cf, served))

\* `get @prefix` inside a served bucket (Len(prefix) >= depth).
\* items: S may contain tombstones (ver < 0); they are listed but never counted.
NodePath(prefix, cf) == SubSeq(prefix, 1, IF Len(prefix) < LeafLen(cf) THEN Len(prefix) ELSE LeafLen(cf))
Listing(S, prefix, cf) ==
  Let1(NodePath(prefix, cf), LAMBDA np : Let1(Node(S, np, cf), LAMBDA nd :
    IF Len(np) >= LeafLen(cf) \/ nd.count < cf.listTh
      THEN [kind |-> "items", items |-> Under(S, prefix), nodes |-> <<>>]
      ELSE [kind |-> "nodes", items |-> {}, nodes |-> KidsBy(np, LAMBDA q : Node(S, q, cf))]))

-----------------------------------------------------------------------------
(***************************************************************************)
(* Part 2: the tree as maintained by the code, over a small alphabet.      *)
(* Only paths over MCAlpha are represented: every other node stays [0,0].  *)
(***************************************************************************)
MCAlpha == {0, 15}
MCAlphaSeq == SetToSortSeq(MCAlpha, <)
MCHi    == {<<0, 0, 0, 1>>, <<15, 15, 15, 15>>}
MCKeys  == {<<a, b, 0, 0>> \o h \o <<0, 0, 0, 0, 0, 0, 0, 1>> : a \in MCAlpha, b \in MCAlpha, h \in MCHi}
                              \* digits 1,2 place the key in the tree; digits 5..8 are Hi16
MCKeys8 == {<<a, b, 0, 0>> \o h \o <<0, 0, 0, 0, 0, 0, 0, 1>> : a \in MCAlpha, b \in MCAlpha, h \in MCHi}
MCKeysQ == {<<a, 0, 0, 0>> \o h \o <<0, 0, 0, 0, 0, 0, 0, 1>> : a \in MCAlpha, h \in MCHi}   \* 2 leaves x 2 keys
MCVh    == {1, 40503, 65535}
MCVer   == {-1, 1, 2}
MCConf  == [depth |-> 0, height |-> 3, listTh |-> 2, bigTh |-> 2]
MCMaxOps == 4
Ops2 == 2
Ops3 == 3
Ops4 == 4
Ops5 == 5
MutNoCountDec == "nocountdec"
MutNoInval == "noinval"
MutFactor == "factor"
MutLoadZero == "loadzero"
Vh2 == {1, 65535}
MutNone == "none"
MCVh3 == {1, 40503, 65535}
MCMut   == "none"        \* specification mutants (self-test): "nocountdec" "noinval" "factor" "loadzero"

VARIABLES tslot,   \* MCKeys -> [vh, ver] | NoSlot          (leaf contents)
          tleaf,   \* leaf path -> [count, hash]            (incrementally maintained)
          tinner,  \* inner path -> [count, hash, ok]       (lazily recomputed; ok = isHashUpdated)
          tops     \* number of actions so far
hvars == <<tslot, tleaf, tinner, tops>>

NoSlot == [vh |-> 0, ver |-> 0]
RECURSIVE PathsOfLen(_)
PathsOfLen(n) == IF n = 0 THEN {<<>>} ELSE {Append(p, a) : p \in PathsOfLen(n - 1), a \in MCAlpha}
MCLeafLen  == LeafLen(MCConf)
LeafPaths  == PathsOfLen(MCLeafLen)
InnerPaths == UNION {PathsOfLen(n) : n \in 0..(MCLeafLen - 1)}
Fresh == [count |-> 0, hash |-> 0, ok |-> FALSE]

TContent == {[d |-> k, vh |-> tslot[k].vh, ver |-> tslot[k].ver] : k \in {k \in MCKeys : tslot[k] # NoSlot}}

HInit == /\ tslot = [k \in MCKeys |-> NoSlot]
         /\ tleaf = [q \in LeafPaths |-> Zero]
         /\ tinner = [p \in InnerPaths |-> Fresh]
         /\ tops = 0

LeafOf(k) == SubSeq(k, 1, MCLeafLen)
\* getLeafAndInvalidNodes: root and every inner node on the path lose isHashUpdated
Invalidate(inn, k) ==
  IF MCMut = "noinval" THEN [p \in InnerPaths |-> IF p = <<>> THEN [inn[p] EXCEPT !.ok = FALSE] ELSE inn[p]]
  ELSE [p \in InnerPaths |-> IF HasPrefix(k, p) THEN [inn[p] EXCEPT !.ok = FALSE] ELSE inn[p]]

\* setToLeaf, transcribed
SetLeaf(node, old, k, vh, ver) ==
  LET add  == IF ver > 0 THEN vh ELSE 0
      sub  == IF old # NoSlot /\ old.ver > 0 THEN old.vh ELSE 0
      c1   == IF ver > 0 THEN node.count + 1 ELSE node.count
      c2   == IF old # NoSlot /\ old.ver > 0 /\ ~(MCMut = "nocountdec" /\ ver < 0) THEN c1 - 1 ELSE c1
      fac  == IF MCMut = "factor" THEN Hi16(k) % 256 ELSE Hi16(k)
  IN [count |-> c2, hash |-> Add16(node.hash, Mul16(Sub16(add, sub), fac))]

TSet(k, vh, ver) ==
  /\ tslot' = [tslot EXCEPT ![k] = [vh |-> IF ver > 0 THEN vh ELSE 0, ver |-> ver]]
  /\ tleaf' = [tleaf EXCEPT ![LeafOf(k)] = SetLeaf(@, tslot[k], k, vh, ver)]
  /\ tinner' = Invalidate(tinner, k)
  /\ tops' = tops + 1

\* remvoeFromLeaf
TRemove(k) ==
  /\ tslot' = [tslot EXCEPT ![k] = NoSlot]
  /\ tleaf' = [tleaf EXCEPT ![LeafOf(k)] =
        IF tslot[k] # NoSlot /\ tslot[k].ver > 0
          THEN [count |-> @.count - 1, hash |-> Sub16(@.hash, Mul16(tslot[k].vh, Hi16(k)))]
          ELSE @]
  /\ tinner' = Invalidate(tinner, k)
  /\ tops' = tops + 1

\* updateNodes(level, offset) on the cached state; returns the new cache
RECURSIVE Upd(_, _, _)
Upd(inn0, lf, p0) ==
  Let1(<<inn0, p0>>, LAMBDA a : LET inn == a[1]  p == a[2] IN
    IF inn[p].ok THEN inn
    ELSE IF Len(p) + 1 < MCLeafLen
      THEN Let1(FoldLeft(LAMBDA acc, x : Upd(acc, lf, Append(p, x)), inn, MCAlphaSeq), LAMBDA inn2 :
             Let1(KidsBy(p, LAMBDA q : IF q[Len(q)] \notin MCAlpha THEN Zero
                                         ELSE [count |-> inn2[q].count, hash |-> inn2[q].hash]),
                  LAMBDA kids : Let1(FromKids(kids, MCConf.bigTh), LAMBDA nd :
                     [inn2 EXCEPT ![p] = [count |-> nd.count, hash |-> nd.hash, ok |-> TRUE]])))
      ELSE Let1(KidsBy(p, LAMBDA q : IF q[Len(q)] \notin MCAlpha THEN Zero ELSE lf[q]),
                LAMBDA kids : Let1(FromKids(kids, MCConf.bigTh), LAMBDA nd :
                   [inn EXCEPT ![p] = [count |-> nd.count, hash |-> nd.hash, ok |-> TRUE]])))

\* a listing at node p (any time, any node) leaves recomputed caches behind
TList(p) == /\ tinner' = Upd(tinner, tleaf, p)
            /\ tops' = tops + 1
            /\ UNCHANGED <<tslot, tleaf>>

\* close (dump: leaf nodes + raw leaves) and open with the dump: inner nodes start invalid
TReload ==
  /\ tinner' = Upd([p \in InnerPaths |-> Fresh],
                   IF MCMut = "loadzero" THEN [q \in LeafPaths |-> Zero] ELSE tleaf, <<>>)   \* load ends with ListTop
  /\ tleaf' = IF MCMut = "loadzero" THEN [q \in LeafPaths |-> Zero] ELSE tleaf
  /\ tops' = tops + 1
  /\ UNCHANGED tslot

\* open without a dump: replay of the hints: live keys are set, tombstones removed
TRebuild ==
  LET live == {k \in MCKeys : tslot[k].ver > 0}
      lf   == FoldSet(LAMBDA k, acc : [acc EXCEPT ![LeafOf(k)] = SetLeaf(@, NoSlot, k, tslot[k].vh, tslot[k].ver)],
                      [q \in LeafPaths |-> Zero], live)
  IN /\ tslot' = [k \in MCKeys |-> IF k \in live THEN tslot[k] ELSE NoSlot]
     /\ tleaf' = lf
     /\ tinner' = [p \in InnerPaths |-> Fresh]
     /\ tops' = tops + 1

HNext == /\ tops < MCMaxOps
         /\ \/ \E k \in MCKeys, vh \in MCVh, ver \in MCVer : TSet(k, vh, ver)
            \/ \E k \in MCKeys : tslot[k] # NoSlot /\ TRemove(k)
            \/ \E p \in InnerPaths : TList(p)
            \/ TReload
            \/ TRebuild

HSpec == HInit /\ [][HNext]_hvars

\* what the code would answer for node p now (after its lazy update)
NodeNow(p) ==
  IF Len(p) >= MCLeafLen THEN tleaf[p]
  ELSE LET c == Upd(tinner, tleaf, p)[p] IN [count |-> c.count, hash |-> c.hash]

C08_Incremental ==
  \A q \in LeafPaths : tleaf[q] = [count |-> Cardinality(Live(Under(TContent, q))), hash |-> LeafSum(Under(TContent, q))]
C08_Lazy == \A p \in InnerPaths : NodeNow(p) = Node(TContent, p, MCConf)
C08_CacheSound ==
  \A p \in InnerPaths : tinner[p].ok => [count |-> tinner[p].count, hash |-> tinner[p].hash] = Node(TContent, p, MCConf)

\* the listing as listDir computes it from the machine state = the pure function of the content
ListNow(prefix) ==
  LET np == NodePath(prefix, MCConf)
      nd == NodeNow(np)
  IN IF Len(np) >= MCLeafLen \/ nd.count < MCConf.listTh
       THEN [kind |-> "items", items |-> Under(TContent, prefix), nodes |-> <<>>]
       ELSE [kind |-> "nodes", items |-> {},
             nodes |-> KidsBy(np, LAMBDA q : IF q[Len(q)] \in MCAlpha THEN NodeNow(q) ELSE Zero)]
C08_ListFn ==
  \A n \in 0..(MCLeafLen + 1) : \A pre \in PathsOfLen(n) : ListNow(pre) = Listing(TContent, pre, MCConf)

ShortcutLemma == \A p \in InnerPaths \cup LeafPaths : NodeDef(TContent, p, MCConf) = Node(TContent, p, MCConf)

\* arithmetic sanity (evaluated once)
ASSUME Mul16(65535, 65535) = 1 /\ Mul16(40503, 65535) = 25033 /\ Mul16(300, 300) = 24464
ASSUME Sub16(0, 1) = 65535 /\ Add16(65535, 1) = 0

\* modules that only use Part 1 keep the machine variables constant
HIdle  == UNCHANGED hvars
HDummy == tslot = 0 /\ tleaf = 0 /\ tinner = 0 /\ tops = 0
=============================================================================
