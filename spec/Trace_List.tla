---------------------------- MODULE Trace_List ----------------------------
(***************************************************************************)
(* Trace validation for C08 (Merkle listing = function of the content) and *)
(* C15 (bucket routing).  trace.ndjson holds, per scenario, the operations *)
(* the harness issued on the real HStore (INPUTS: key digits from the hash *)
(* function in force, value hash of the bytes written, revision) and the   *)
(* OBSERVATIONS (replies, lines returned by HStore.ListDir, sizes of the   *)
(* data files of every bucket directory).                                  *)
(*                                                                         *)
(* The specification keeps the reference content `ref` by the documented   *)
(* version arithmetic only (it never looks at how the content was reached),*)
(* evaluates HTreeList!Listing / UpperListing on it and compares.  Failures*)
(* are accumulated in `bad`; one TLC run validates the concatenation of    *)
(* hundreds of scenarios.                                                  *)
(***************************************************************************)
EXTENDS HTreeList, Json

VARIABLES l,      \* cursor into Trace
          sid,    \* current scenario id
          cf,     \* [depth, height, listTh, bigTh, served, checkVH]
          ref,    \* key name -> [d, vh, ver, num]   (ver = 0: absent; num >= 0: decimal value, for incr)
          cont,   \* the content as HTreeList sees it: {[d, vh, ver] of every key with ver # 0} (= ContentOf(ref),
                  \* kept incrementally because TLC evaluates it at every listing)
          mode,   \* "up" | "down" | "dead" (scenario aborted / code panicked: skip to the next Reset)
          fsz,    \* last observed data size per bucket: sequence of <<bucket, bytes>>
          pend,   \* since the last Files observation: [touch, wrote] sets of buckets
          bad     \* set of <<sid, n, check>>
tvars == <<l, sid, cf, ref, cont, mode, fsz, pend, bad>>

Trace == ndJsonDeserialize("trace.ndjson")
Ev      == Trace[l]
IsEv(a) == l <= Len(Trace) /\ Trace[l].a = a
Adv     == l' = l + 1

Abs(x)   == IF x < 0 THEN -x ELSE x
NoPend   == [touch |-> {}, wrote |-> {}]
NoConf   == [depth |-> 0, height |-> 2, listTh |-> 256, bigTh |-> 256, served |-> {}, checkVH |-> FALSE]
Flag(cs) == bad' = bad \cup {<<sid, Ev.n, c>> : c \in cs}

BucketOf(k) == BucketId(SubSeq(ref[k].d, 1, cf.depth))
Served(k)   == BucketOf(k) \in cf.served
\* the content as HTreeList sees it: one item per key that has a version
Item(r) == [d |-> r.d, vh |-> r.vh, ver |-> r.ver]
ContentOf(f) == {Item(f[k]) : k \in {k \in DOMAIN f : f[k].ver # 0}}
\* replace the entry of key k
SetRef(k, new) ==
  /\ ref' = [ref EXCEPT ![k] = new]
  /\ cont' = (cont \ {Item(ref[k])}) \cup (IF new.ver # 0 THEN {Item(new)} ELSE {})

-----------------------------------------------------------------------------
TrReset ==
  /\ IsEv("Reset") /\ Adv
  /\ sid' = Ev.sid
  /\ cf' = [depth |-> Ev.conf.depth, height |-> Ev.conf.height, listTh |-> Ev.conf.listTh, bigTh |-> Ev.conf.bigTh,
            served |-> {Ev.conf.served[i] : i \in 1..Len(Ev.conf.served)}, checkVH |-> Ev.conf.checkVH]
  /\ ref' = <<>> /\ cont' = {}
  /\ mode' = IF Ev.abort THEN "dead" ELSE "up"
  /\ fsz' = <<>> /\ pend' = NoPend /\ UNCHANGED bad

TrKeys ==
  /\ IsEv("Keys") /\ Adv
  /\ ref' = [k \in DOMAIN ref \cup DOMAIN Ev.keys |->
               IF k \in DOMAIN ref THEN ref[k] ELSE [d |-> Ev.keys[k], vh |-> 0, ver |-> 0, num |-> -1]]
  /\ UNCHANGED <<sid, cf, cont, mode, fsz, pend, bad>>

\* the documented version arithmetic (Bucket.checkAndSet / checkAndUpdateVerison)
\* returns [ver, vh, num, wrote]
AfterSet(old, rev, vh, num) ==
  LET vhIn == IF rev < 0 THEN 0 ELSE vh IN
  IF cf.checkVH /\ old.ver > 0 /\ vhIn = old.vh
    THEN (IF rev # 0 /\ Abs(rev) > Abs(old.ver)
            THEN [ver |-> rev, vh |-> old.vh, num |-> old.num, wrote |-> FALSE]   \* tree-only revision
            ELSE [ver |-> old.ver, vh |-> old.vh, num |-> old.num, wrote |-> FALSE])
  ELSE IF rev = 0 THEN [ver |-> Abs(old.ver) + 1, vh |-> vh, num |-> num, wrote |-> TRUE]
  ELSE IF rev < 0
    THEN (IF old.ver <= 0 THEN [ver |-> old.ver, vh |-> old.vh, num |-> old.num, wrote |-> FALSE]  \* NOT_FOUND
          ELSE [ver |-> -Abs(old.ver) - 1, vh |-> 0, num |-> -1, wrote |-> TRUE])
  ELSE IF rev <= Abs(old.ver) THEN [ver |-> old.ver, vh |-> old.vh, num |-> old.num, wrote |-> FALSE]  \* accepted, ignored
  ELSE [ver |-> rev, vh |-> vh, num |-> num, wrote |-> TRUE]

Touch(k, wrote) == pend' = [touch |-> pend.touch \cup {BucketOf(k)},
                            wrote |-> IF wrote THEN pend.wrote \cup {BucketOf(k)} ELSE pend.wrote]

TrSet ==
  /\ IsEv("Set") /\ Adv /\ UNCHANGED <<sid, cf, mode, fsz>>
  /\ IF mode # "up" \/ Ev.k \notin DOMAIN ref THEN UNCHANGED <<ref, cont, pend, bad>>
     ELSE IF ~Served(Ev.k)
       THEN \* nothing is stored; the code replies success
            /\ UNCHANGED <<ref, cont>> /\ Touch(Ev.k, FALSE)
            /\ Flag(IF Ev.res = "ok" THEN {} ELSE {"C15_UnservedSet"})
       ELSE LET r == AfterSet(ref[Ev.k], Ev.rev, Ev.vh, Ev.num) IN
            /\ SetRef(Ev.k, [d |-> ref[Ev.k].d, vh |-> r.vh, ver |-> r.ver, num |-> r.num])
            /\ Touch(Ev.k, r.wrote)
            /\ UNCHANGED bad

\* Bucket.incr: read, parse, add, set with version old+1 (1 when there is no live value)
TrIncr ==
  /\ IsEv("Incr") /\ Adv /\ UNCHANGED <<sid, cf, mode, fsz>>
  /\ IF mode # "up" \/ Ev.k \notin DOMAIN ref THEN UNCHANGED <<ref, cont, pend, bad>>
     ELSE IF ~Served(Ev.k)
       THEN /\ UNCHANGED <<ref, cont>> /\ Touch(Ev.k, FALSE)
            /\ Flag(IF Ev.res = 0 THEN {} ELSE {"C15_UnservedIncr"})
       ELSE LET o == ref[Ev.k] IN
            IF o.ver > 0 /\ o.num < 0
              THEN UNCHANGED <<ref, cont, bad>> /\ Touch(Ev.k, FALSE)      \* not a number: refused
              ELSE LET nn == IF o.ver > 0 THEN o.num + Ev.d ELSE Ev.d IN
                   /\ SetRef(Ev.k, [d |-> o.d, vh |-> Ev.vh, ver |-> IF o.ver > 0 THEN o.ver + 1 ELSE 1, num |-> nn])
                   /\ Touch(Ev.k, TRUE)
                   \* the logged value hash was computed for Ev.expect: it must be the number the arithmetic gives
                   /\ Flag(IF nn = Ev.expect THEN {} ELSE {"X_GeneratorExpect"})

TrGet ==
  /\ IsEv("Get") /\ Adv /\ UNCHANGED <<sid, cf, mode, fsz, ref, cont, pend>>
  /\ IF mode # "up" \/ Ev.k \notin DOMAIN ref THEN UNCHANGED bad
     ELSE IF ~Served(Ev.k) THEN Flag(IF Ev.res = "miss" THEN {} ELSE {"C15_Miss"})
     ELSE LET o == ref[Ev.k] IN
          Flag(IF o.ver > 0 THEN (IF Ev.res = "hit" /\ Ev.ver = o.ver /\ Ev.vh = o.vh THEN {} ELSE {"C15_Served"})
               ELSE (IF Ev.res = "miss" \/ (Ev.res = "hit" /\ Ev.ver < 0) THEN {} ELSE {"C15_Served"}))

TrClose ==
  /\ IsEv("Close") /\ Adv /\ UNCHANGED <<sid, cf, fsz, ref, cont, pend, bad>>
  /\ mode' = IF mode = "up" THEN "down" ELSE mode

\* after a restart the version memory of DELETED keys is whatever the store kept (tree dump) or
\* nothing (rebuilt from hints): adopted from the logged meta, as the property allows
TrOpen ==
  /\ IsEv("Open") /\ Adv /\ UNCHANGED <<sid, cf, fsz, pend, bad>>
  /\ IF mode # "down" THEN UNCHANGED <<ref, cont, mode>>
     ELSE LET nref == [k \in DOMAIN ref |->
                IF ref[k].ver < 0 /\ k \in DOMAIN Ev.meta
                  THEN (IF Ev.meta[k] = 0 THEN [ref[k] EXCEPT !.ver = 0, !.vh = 0, !.num = -1]
                        ELSE IF Ev.meta[k] < 0 THEN [ref[k] EXCEPT !.ver = Ev.meta[k]]
                        ELSE ref[k])
                  ELSE ref[k]]
          IN /\ mode' = IF Ev.ok THEN "up" ELSE "dead"
             /\ ref' = nref
             /\ cont' = ContentOf(nref)

-----------------------------------------------------------------------------
\* observed lines
ObsNodes == [i \in 1..Len(Ev.nodes) |-> <<Ev.nodes[i][1], Ev.nodes[i][2], Ev.nodes[i][3]>>]
WantNodes(ns) == [i \in 1..16 |-> <<i - 1, ns[i].hash, ns[i].count>>]
PosIdx  == {i \in 1..Len(Ev.items) : Ev.items[i][3] > 0}
NegIdx  == {i \in 1..Len(Ev.items) : Ev.items[i][3] < 0}
ZeroIdx == {i \in 1..Len(Ev.items) : Ev.items[i][3] = 0}

ListChecksOn(S) ==
  LET p == Ev.p IN
  IF Ev.res # "ok" \/ Ev.junk > 0 THEN {"C08_Format"}
  ELSE IF Len(p) < cf.depth THEN
    \* above the buckets: aggregate of the roots of the served buckets, 0 for the others
    (IF Ev.items = <<>> /\ ObsNodes = WantNodes(UpperListing(S, p, cf, cf.served)) THEN {} ELSE {"C08_Upper", "C15_Upper"})
  ELSE IF BucketId(SubSeq(p, 1, cf.depth)) \notin cf.served THEN
    (IF Ev.items = <<>> /\ Ev.nodes = <<>> THEN {} ELSE {"C15_ListUnserved"})
  ELSE Let1(Listing(S, p, cf), LAMBDA L :
    IF L.kind = "nodes" THEN
      (IF Ev.items # <<>> \/ Len(Ev.nodes) # 16 THEN {"C08_Shape"}
       ELSE IF ObsNodes = WantNodes(L.nodes) THEN {} ELSE {"C08_Nodes"})
    ELSE
      (IF Ev.nodes # <<>> THEN {"C08_Shape"} ELSE {})
      \cup
      \* live item lines = exactly the live keys under the prefix: full hash, value hash, version
      (IF /\ {<<Ev.items[i][1], Ev.items[i][2], Ev.items[i][3]>> : i \in PosIdx} = {<<x.d, x.vh, x.ver>> : x \in Live(L.items)}
          /\ Cardinality(PosIdx) = Cardinality(Live(L.items))
          /\ ZeroIdx = {}
        THEN {} ELSE {"C08_Items"})
      \cup
      \* a tombstone line only for a key that is deleted (its value hash and version are not compared)
      (IF \A i \in NegIdx : \E x \in L.items : x.d = Ev.items[i][1] /\ x.ver < 0 THEN {} ELSE {"C08_Tomb"}))
ListChecks == Let1(cont, LAMBDA S : ListChecksOn(S))

TrList ==
  /\ IsEv("List") /\ Adv /\ UNCHANGED <<sid, cf, mode, fsz, ref, cont, pend>>
  /\ IF mode # "up" THEN UNCHANGED bad ELSE Flag(ListChecks)

-----------------------------------------------------------------------------
SizeOf(sz, b) == FoldLeft(LAMBDA acc, e : IF e[1] = b THEN acc + e[2] ELSE acc, 0, sz)
BucketsIn(sz) == {sz[i][1] : i \in 1..Len(sz)}

FilesChecks ==
  LET cur == Ev.sizes
      B == BucketsIn(cur) \cup BucketsIn(fsz)
      grew == {b \in B : SizeOf(cur, b) > SizeOf(fsz, b)}
      shrank == {b \in B : SizeOf(cur, b) < SizeOf(fsz, b)}
      single == Ev.after \in {"set", "setnum", "del", "incr", "setpop", "delpop"}
  IN
  \* data exists only in the directories of served buckets, and nowhere else
  (IF Ev.other = 0 /\ \A b \in BucketsIn(cur) : SizeOf(cur, b) = 0 \/ b \in cf.served THEN {} ELSE {"C15_Place"})
  \cup
  (IF single
     THEN \* only the bucket named by the key's digits grew (exactly it when a record was written), none if unserved
          (IF /\ grew \subseteq (pend.touch \cap cf.served) /\ pend.wrote \subseteq grew /\ shrank = {}
              /\ (pend.wrote = {} /\ pend.touch \cap cf.served = {} => grew = {})
            THEN {} ELSE {"C15_Place"})
     ELSE IF Ev.after = "gc" THEN (IF Cardinality(grew \cup shrank) <= 1 THEN {} ELSE {"C15_Place"})
     ELSE (IF grew = {} /\ shrank = {} THEN {} ELSE {"C15_Place"}))

TrFiles ==
  /\ IsEv("Files") /\ Adv /\ UNCHANGED <<sid, cf, mode, ref, cont>>
  /\ IF mode # "up" THEN UNCHANGED <<bad, fsz, pend>>
     ELSE Flag(FilesChecks) /\ fsz' = Ev.sizes /\ pend' = NoPend

\* the code under test panicked (or called Fatalf) inside an operation
TrPanic ==
  /\ (IsEv("Panic") \/ IsEv("Fatal")) /\ Adv /\ UNCHANGED <<sid, cf, fsz, ref, cont, pend>>
  /\ mode' = "dead"
  /\ IF mode # "up" THEN UNCHANGED bad
     ELSE Flag(IF Ev.op \in {"list", "lists", "listall"} THEN {"C08_Panic"}
               ELSE IF Ev.k \in DOMAIN ref /\ ~Served(Ev.k) THEN {"C15_Panic"}
               ELSE {"C08_Panic", "C15_Panic"})

\* the buckets the store opened must be exactly the buckets the route table gave this server
TrReady ==
  /\ IsEv("Ready") /\ Adv /\ UNCHANGED <<sid, cf, fsz, ref, cont, pend, mode>>
  /\ Flag(IF {Ev.ready[i] : i \in 1..Len(Ev.ready)} = cf.served THEN {} ELSE {"C15_Served"})

Known == {"Reset", "Keys", "Set", "Incr", "Get", "Close", "Open", "List", "Files", "Panic", "Fatal", "Ready"}
TrOther ==      \* Flush, GC, Skip, Abort, End: no effect on the content
  /\ l <= Len(Trace) /\ Trace[l].a \notin Known /\ Adv
  /\ mode' = IF Trace[l].a = "Abort" THEN "dead" ELSE mode
  /\ UNCHANGED <<sid, cf, fsz, ref, cont, pend, bad>>

TraceInit ==
  /\ l = 1 /\ sid = "" /\ cf = NoConf /\ ref = <<>> /\ cont = {} /\ mode = "dead" /\ fsz = <<>> /\ pend = NoPend /\ bad = {}
  /\ TLCSet(1, 1) /\ HDummy

TraceNext == (TrReady \/ TrReset \/ TrKeys \/ TrSet \/ TrIncr \/ TrGet \/ TrClose \/ TrOpen \/ TrList \/ TrFiles \/ TrPanic \/ TrOther) /\ HIdle

TraceSpec == TraceInit /\ [][TraceNext]_<<tvars, hvars>>

Done == l = Len(Trace) + 1
Report == Done => PrintT(<<"VERIF-RESULT", ToJson([bad |-> bad, consumed |-> l - 1])>>)
HighWater == TLCSet(1, IF TLCGet(1) < l THEN l ELSE TLCGet(1))
TraceAccepted == IF TLCGet(1) = Len(Trace) + 1 THEN TRUE
                 ELSE PrintT(<<"VERIF-STUCK", TLCGet(1), Trace[TLCGet(1)].n>>) /\ FALSE
=============================================================================
