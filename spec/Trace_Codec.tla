---------------------------- MODULE Trace_Codec ----------------------------
(***************************************************************************)
(* Validation of observations recorded from the REAL gobeansdb code        *)
(* (harness/store/zz_verif_codec_test.go) against the reference            *)
(* definitions of Codec.tla (C16, C09 layout clause) and the scanner       *)
(* specification Scan.tla (C09 scan and detection clauses).                *)
(*                                                                         *)
(* trace.ndjson holds one observation per line; the harness gives no       *)
(* verdict, every comparison is made here.  Failures are accumulated in    *)
(* `bad` (<<sid, n, check>>), disagreement between the transcription       *)
(* ScanAll and the code that does not touch the property in `drift`.       *)
(* A check name ending in "_F9" marks the known-finding signature F9.      *)
(*                                                                         *)
(*  Hash    bytes + results of fnv1a, utils.Fnv1a, murmur,                 *)
(*          getKeyHashDefalut, Getvhash, crc32 (one write and two writes)  *)
(*  Layout  records written through DataStreamWriter, the bytes of the     *)
(*          file, what readRecordAt and DataStreamReader returned          *)
(*  ScanFile an abstract file (base, dmg, trunc) materialised with the     *)
(*          real writer + byte-level damage; yields/errors of the real     *)
(*          DataStreamReader and of readRecordAt at every block            *)
(*  Detect  one byte of a stored record XORed with a mask; same readers    *)
(***************************************************************************)
EXTENDS Codec, Scan, Json, TLC

VARIABLES l, bad, drift, stat,
          tab      \* Codec!CrcTable, computed once in Init (see the remark in Codec.tla)
tvars == <<l, bad, drift, stat, tab>>

(* Whether TLC evaluates a constant definition once or at every use turned out to be unreliable, and    *)
(* re-reading the file at every step is ruinous.  The trace is therefore read once in Init and kept in  *)
(* TLC register 2 (its length in register 3); `tab` plays the same role for the CRC table.              *)
TraceFile == ndJsonDeserialize("trace.ndjson")
Trace     == TLCGet(2)
NTrace    == TLCGet(3)

-----------------------------------------------------------------------------
(* C16 *)
HashChecks(e) ==
  LET s   == e.bytes
      all == e.what # "crc"
      fnv == Fnv1aSigned(s)
      mur == Murmur3_32(s)
      crc == CRC32T(tab, s)
      C(name, ok) == IF ok THEN {} ELSE {<<e.sid, e.n, name>>}
  IN  (IF all THEN C("C16_Fnv", e.fnv = fnv) \cup C("C16_UtilsFnv", e.ufnv = fnv)
                   \cup C("C16_Murmur", e.mur = mur)
                   \cup C("C16_KeyHash", e.kh = fnv \o mur /\ e.kh2 = e.kh)
                   \cup C("C16_VHash", e.vh = VHash(s) /\ e.pvh = e.vh)
       ELSE {})
      \cup C("C16_CRC", e.crc = crc) \cup C("C16_CRCStream", e.crcs = crc)

-----------------------------------------------------------------------------
(* C09 layout / round trip *)
Img(r) == RecordImageT(tab, r.key, r.val, r.flag, r.ver, r.ts)
RECURSIVE Concat(_, _)
Concat(recs, i) == IF i > Len(recs) THEN <<>> ELSE Img(recs[i]) \o Concat(recs, i + 1)
\* byte offset of record i
RECURSIVE OffOf(_, _)
OffOf(recs, i) == IF i = 1 THEN 0 ELSE OffOf(recs, i - 1) + 256 * RecBlocks(Len(recs[i - 1].key), Len(recs[i - 1].val))
Same(r, x) == x.ok /\ x.key = r.key /\ x.val = r.val /\ x.flag = r.flag /\ x.ver = r.ver /\ x.ts = r.ts

LayoutChecks(e) ==
  LET R   == e.recs
      N   == Len(R)
      img == Concat(R, 1)
      C(name, ok) == IF ok THEN {} ELSE {<<e.sid, e.n, name>>}
      crcok(i) == LET o == OffOf(R, i) IN
                  o + 4 <= Len(e.file) /\
                  SubSeq(e.file, o + 1, o + 4) = SubSeq(img, o + 1, o + 4)
  IN  C("C09_Layout", e.file = img)
      \cup C("C09_Aligned", /\ e.size = Len(e.file) /\ e.size % 256 = 0 /\ e.size = Len(img)
                            /\ Len(e.woff) = N /\ \A i \in 1..N : e.woff[i] = OffOf(R, i))
      \cup C("C09_RoundTripAt", Len(e.at) = N /\ \A i \in 1..N : Same(R[i], e.at[i]))
      \cup C("C09_RoundTripScan", /\ ~e.scanerr /\ Len(e.scan) = N
                                  /\ \A i \in 1..N : Same(R[i], e.scan[i]) /\ e.scan[i].off = OffOf(R, i))
      \cup C("C16_RecordCRC", \A i \in 1..N : crcok(i))      \* the CRC field on disk = CRC32(header[4..] o key o value)

-----------------------------------------------------------------------------
(* C09 scan: the observation [yields, err, readat] of the real readers on    *)
(* the file that materialises the abstract file f.                           *)
\* rid logged for a returned record: its number when it equals a written record in every field, -1 otherwise, 0 = error.
\* One evaluation per observation: [bad, drift, stat]
FileJudge(e, f, name) ==
  LET ex    == Expected(f)
      got   == Proj(e.yields)
      model == ScanAll(f)
      fx    == ScanFixed(f)
      loses == model.err /\ Proj(model.yields) # ex
      rdok  == /\ Len(e.readat) = Len(f) + 1
               /\ \A o \in 0..Len(f) : IF IntactAt(f, o) THEN e.readat[o + 1] = f[o + 1].rid ELSE e.readat[o + 1] = 0
  IN  [bad |-> (IF got = ex THEN {}
                ELSE IF model.err /\ e.err /\ got = Proj(model.yields) THEN {<<e.sid, e.n, name \o "_F9">>}
                ELSE {<<e.sid, e.n, name>>})
               \cup (IF rdok THEN {} ELSE {<<e.sid, e.n, IF name = "C09_Scan" THEN "C09_ReadAt" ELSE name>>}),
       drift |-> IF (e.yields = model.yields /\ e.err = model.err) \/ (e.yields = fx.yields /\ e.err = fx.err) THEN {}
                 ELSE {<<e.sid, e.n, "scan-transcription">>},
       stat |-> [f9 |-> IF loses THEN 1 ELSE 0, abort |-> IF e.err THEN 1 ELSE 0]]

ScanFileOf(e) == Build(e.base, e.dmg, e.trunc)

-----------------------------------------------------------------------------
(* C09 detection: byte pos (0-based, relative to the record) of the record    *)
(* (ksz, vsz) stored between the records pre and post is XORed with mask.     *)
(* The altered record is Junk unless the byte is padding; which class of junk *)
(* follows from the altered size fields.                                      *)
RECURSIVE SumSeq(_)
SumSeq(s) == IF s = <<>> THEN 0 ELSE Head(s) + SumSeq(Tail(s))
ToNat(w) == w[1] * M16 + w[2]            \* only for w < 2^31
AlteredWord(n, pos, first, mask) ==      \* the LE field holding n starts at byte `first`
  LET b == Bytes32(FromNat(n))
      c == [i \in 1..4 |-> IF i = pos - first + 1 THEN b[i] ^^ mask ELSE b[i]]
  IN  LE32(c[1], c[2], c[3], c[4])
DetectDamage(e) ==
  LET n    == RecBlocks(e.ksz, e.vsz)
      h    == SumSeq(e.pre) + 1                      \* block index of the record's head
      real == RecSizeReal(e.ksz, e.vsz)
  IN  IF e.pos >= real THEN <<>>                     \* padding is not data
      ELSE IF e.pos >= 256 THEN <<<<h, "hdr", n>>, <<h + (e.pos \div 256), "garbage", 0>>>>
      ELSE IF e.pos \in 16..19 THEN
             LET k == AlteredWord(e.ksz, e.pos, 16, e.mask) IN
             IF k[1] # 0 \/ k[2] = 0 \/ k[2] > 250 THEN <<<<h, "ksz0", 0>>>>
             ELSE <<<<h, "hdr", RecBlocks(k[2], e.vsz)>>>>
      ELSE IF e.pos \in 20..23 THEN
             LET v == AlteredWord(e.vsz, e.pos, 20, e.mask) IN
             IF Lt32(e.bodymax, v) THEN <<<<h, "vszhuge", 0>>>>
             ELSE <<<<h, "hdr", RecBlocks(e.ksz, ToNat(v))>>>>
      ELSE <<<<h, "hdr", n>>>>
DetectFileOf(e) ==
  LET base == e.pre \o <<RecBlocks(e.ksz, e.vsz)>> \o e.post IN
  Build(base, DetectDamage(e), SumSeq(base))

-----------------------------------------------------------------------------
NoStat == [f9 |-> 0, abort |-> 0]
Judge(e) ==
  IF e.a = "Hash" THEN [bad |-> HashChecks(e), drift |-> {}, stat |-> NoStat]
  ELSE IF e.a = "Layout" THEN [bad |-> LayoutChecks(e), drift |-> {}, stat |-> NoStat]
  ELSE IF e.a = "ScanFile" THEN FileJudge(e, ScanFileOf(e), "C09_Scan")
  ELSE IF e.a = "Detect" THEN FileJudge(e, DetectFileOf(e), "C09_Detect")
  ELSE [bad |-> {<<e.sid, e.n, "unknown-event">>}, drift |-> {}, stat |-> NoStat]

Init == /\ l = 1 /\ tab = CrcTable /\ bad = {} /\ drift = {} /\ stat = NoStat /\ TLCSet(1, 1)
        /\ LET t == TraceFile IN TLCSet(2, t) /\ TLCSet(3, Len(t))
Step ==
  /\ l <= NTrace
  /\ l' = l + 1 /\ tab' = tab
  /\ LET j == Judge(Trace[l]) IN
       /\ bad' = bad \cup j.bad
       /\ drift' = drift \cup j.drift
       /\ stat' = [f9 |-> stat.f9 + j.stat.f9, abort |-> stat.abort + j.stat.abort]
TraceSpec == Init /\ [][Step]_tvars

Done == l = NTrace + 1
Report == Done => PrintT(<<"VERIF-RESULT", ToJson([bad |-> bad, drift |-> drift, stat |-> stat, consumed |-> l - 1])>>)
HighWater == TLCSet(1, IF TLCGet(1) < l THEN l ELSE TLCGet(1))
TraceAccepted == IF TLCGet(1) = Len(TraceFile) + 1 THEN TRUE
                 ELSE PrintT(<<"VERIF-STUCK", TLCGet(1)>>) /\ FALSE
=============================================================================
