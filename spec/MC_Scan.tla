------------------------------ MODULE MC_Scan ------------------------------
(***************************************************************************)
(* Exhaustive enumeration of abstract data files for the scan clause of    *)
(* C09: every base of intact records (1..MaxRec blocks each, at most       *)
(* MaxBlocks blocks), up to MaxDmg damages - a damaged block of any class  *)
(* or a truncation at any block - and the scanner properties of Scan.tla   *)
(* as invariants of every such file.  With Emit = TRUE every file is also  *)
(* printed as a scenario for the real code (use b of DESIGN.md section 2). *)
(***************************************************************************)
EXTENDS Scan, TLC, Json, SequencesExt

CONSTANTS MaxBlocks, MaxRec, MaxDmg,
          Emit,         \* print every file as a VERIF-FILE line
          Excuse        \* TRUE: C09_Scan is checked modulo the known finding F9

VARIABLES base,   \* sizes (blocks) of the records written, in order
          dmg,    \* <<block index, class, claim>>, increasing block index
          trunc,  \* blocks kept
          phase   \* "build" -> "damage" -> "done"
vars == <<base, dmg, trunc, phase>>

Total(b) == FoldLeft(LAMBDA x, y : x + y, 0, b)

DmgChoices == {<<"garbage", 0>>, <<"zero", 0>>, <<"ksz0", 0>>, <<"vszhuge", 0>>,
               <<"hdr", 1>>, <<"hdr", 2>>, <<"hdr", 3>>, <<"hdr", BigClaim>>}

Init == base = <<>> /\ dmg = <<>> /\ trunc = 0 /\ phase = "build"

AddRec ==
  /\ phase = "build"
  /\ \E n \in 1..MaxRec :
       /\ Total(base) + n <= MaxBlocks
       /\ base' = Append(base, n) /\ trunc' = Total(base) + n
  /\ UNCHANGED <<dmg, phase>>

AddDmg ==
  /\ phase \in {"build", "damage"} /\ base # <<>> /\ Len(dmg) < MaxDmg
  /\ \E i \in 1..Total(base), c \in DmgChoices :
       /\ (IF dmg = <<>> THEN TRUE ELSE i > dmg[Len(dmg)][1])
       /\ dmg' = Append(dmg, <<i, c[1], c[2]>>)
  /\ phase' = "damage" /\ UNCHANGED <<base, trunc>>

\* a truncation counts as one damage; cutting the damaged block itself away would only repeat another file
Truncate ==
  /\ phase \in {"build", "damage"} /\ base # <<>> /\ Len(dmg) < MaxDmg
  /\ \E t \in 1..(Total(base) - 1) :
       /\ (IF dmg = <<>> THEN TRUE ELSE t >= dmg[Len(dmg)][1])
       /\ trunc' = t
  /\ phase' = "done" /\ UNCHANGED <<base, dmg>>

Next == AddRec \/ AddDmg \/ Truncate
Spec == Init /\ [][Next]_vars

File == Build(base, dmg, trunc)

\* Everything about the current file is computed once per state.  A file is interesting for
\* conformance (resync) when the scanner has to resynchronise and finds something afterwards.
Facts ==
  LET f   == File
      s   == ScanAll(f)
      fx  == ScanFixed(f)
      ex  == Expected(f)
  IN  [readat |-> C09_ReadAt(f),
       scan   |-> Proj(s.yields) = ex,
       err    |-> s.err,
       fixed  |-> Proj(fx.yields) = ex /\ ~fx.err,
       resync |-> \E i \in 1..Len(fx.yields) : fx.yields[i][3] > 0,
       nexp   |-> Len(ex)]

InvReadAt == Facts.readat
InvScan   == Facts.scan \/ (Excuse /\ Facts.err)          \* C09_Scan(File) \/ KF_F9(File)
\* what a repair of F9 has to achieve: with the short read treated as a broken region the property holds outright
InvFixed  == Facts.fixed
\* all of the above in one evaluation, plus the scenario line
InvAll ==
  LET x == Facts IN
  /\ x.readat
  /\ x.scan \/ (Excuse /\ x.err)
  /\ x.fixed
  /\ (Emit /\ base # <<>>) =>
        PrintT(<<"VERIF-FILE", ToJson([base |-> base, dmg |-> dmg, trunc |-> trunc,
                                       f9 |-> (x.err /\ ~x.scan), resync |-> x.resync, nexp |-> x.nexp])>>)
=============================================================================
