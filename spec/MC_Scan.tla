------------------------------ MODULE MC_Scan ------------------------------
(***************************************************************************)
(* Exhaustive enumeration of abstract data files for the scan clause of    *)
(* C09: every base of intact records (1..MaxRec blocks each, at most       *)
(* MaxBlocks blocks), up to MaxDmg damages - a damaged block of any class  *)
(* or a truncation at any block - and the scanner properties of Scan.tla   *)
(* as invariants of every such file.  With Emit = TRUE every file is also  *)
(* printed as a scenario for the real code (use b of DESIGN.md section 2). *)
(***************************************************************************)
EXTENDS Scan, TLC, Json, SequencesExt

CONSTANTS MaxBlocks, MaxRec, MaxDmg,
          Emit,         \* print every file as a VERIF-FILE line
          Excuse        \* TRUE: C09_Scan is checked modulo the known finding F9

VARIABLES base,   \* sizes (blocks) of the records written, in order
          dmg,    \* <<block index, class, claim>>, increasing block index
          trunc,  \* blocks kept
          phase,  \* "build" -> "damage" -> "done"
          facts   \* what Scan.tla says about the current file (a function of the other variables; computed in the
                  \* action, where TLC caches LET values - in an invariant it would re-evaluate them at every use)
vars == <<base, dmg, trunc, phase, facts>>

Total(b) == FoldLeft(LAMBDA x, y : x + y, 0, b)

DmgChoices == {<<"garbage", 0>>, <<"zero", 0>>, <<"ksz0", 0>>, <<"vszhuge", 0>>,
               <<"hdr", 1>>, <<"hdr", 2>>, <<"hdr", 3>>, <<"hdr", BigClaim>>}

\* Everything about the file Build(b, d, t).  A file is interesting for conformance (resync) when the scanner
\* has to resynchronise and finds something afterwards.
FactsOf(b, d, t) ==
  LET f   == Build(b, d, t)
      s   == ScanAll(f)
      fx  == ScanFixed(f)
      ex  == Expected(f)
  IN  [readat |-> C09_ReadAt(f),
       scan   |-> Proj(s.yields) = ex,                      \* C09_Scan(f)
       err    |-> s.err,                                    \* KF_F9(f)
       fixed  |-> Proj(fx.yields) = ex /\ ~fx.err,
       resync |-> \E i \in 1..Len(fx.yields) : fx.yields[i][3] > 0,
       nexp   |-> Len(ex)]

Init == base = <<>> /\ dmg = <<>> /\ trunc = 0 /\ phase = "build" /\ facts = FactsOf(<<>>, <<>>, 0)

AddRec ==
  /\ phase = "build"
  /\ \E n \in 1..MaxRec :
       /\ Total(base) + n <= MaxBlocks
       /\ base' = Append(base, n) /\ trunc' = Total(base) + n
  /\ UNCHANGED <<dmg, phase>>
  /\ facts' = FactsOf(base', dmg', trunc')

AddDmg ==
  /\ phase \in {"build", "damage"} /\ base # <<>> /\ Len(dmg) < MaxDmg
  /\ \E i \in 1..Total(base), c \in DmgChoices :
       /\ (IF dmg = <<>> THEN TRUE ELSE i > dmg[Len(dmg)][1])
       /\ dmg' = Append(dmg, <<i, c[1], c[2]>>)
  /\ phase' = "damage" /\ UNCHANGED <<base, trunc>>
  /\ facts' = FactsOf(base', dmg', trunc')

\* a truncation counts as one damage; cutting the damaged block itself away would only repeat another file
Truncate ==
  /\ phase \in {"build", "damage"} /\ base # <<>> /\ Len(dmg) < MaxDmg
  /\ \E t \in 1..(Total(base) - 1) :
       /\ (IF dmg = <<>> THEN TRUE ELSE t >= dmg[Len(dmg)][1])
       /\ trunc' = t
  /\ phase' = "done" /\ UNCHANGED <<base, dmg>>
  /\ facts' = FactsOf(base', dmg', trunc')

Next == AddRec \/ AddDmg \/ Truncate
Spec == Init /\ [][Next]_vars

File == Build(base, dmg, trunc)

InvReadAt == facts.readat                               \* C09_ReadAt(File)
InvScan   == facts.scan \/ (Excuse /\ facts.err)         \* C09_Scan(File) \/ KF_F9(File)
\* what a repair of F9 has to achieve: with the short read treated as a broken region the property holds outright
InvFixed  == facts.fixed
\* all of the above, plus the scenario line
InvAll ==
  /\ InvReadAt /\ InvScan /\ InvFixed
  /\ (Emit /\ base # <<>>) =>
        PrintT(<<"VERIF-FILE", ToJson([base |-> base, dmg |-> dmg, trunc |-> trunc,
                                       f9 |-> (facts.err /\ ~facts.scan), resync |-> facts.resync, nexp |-> facts.nexp])>>)
=============================================================================
