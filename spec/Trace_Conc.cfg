SPECIFICATION Spec
CONSTANTS
  Keys = {%KEYS%}
  Procs = {%PROCS%}
CONSTRAINT HighWater
INVARIANT Report
POSTCONDITION TraceAccepted
CHECK_DEADLOCK FALSE
