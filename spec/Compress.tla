------------------------------ MODULE Compress ------------------------------
(***************************************************************************)
(* C10 - server-side compression is invisible to clients.                  *)
(*                                                                         *)
(* Part 1: Decision = store/item.go Record.TryCompress as a decision table *)
(*         over the measured inputs (flag, record size, sniffed class,     *)
(*         probe ratio, full ratio).                                       *)
(* Part 2: the case space (value class x size point x content x client     *)
(*         flag x read path) that TLC enumerates; this is the scenario     *)
(*         generator of the family (MC_Compress GenSpec prints the cases). *)
(* Part 3: a small state machine of ONE key, written as pure functions     *)
(*         Do*(s, ...) over a state record so that the model checker       *)
(*         (MC_Compress) and the trace validator (Trace_Compress) run the  *)
(*         same text.  Bytes are abstract: a value is an id, a stored body *)
(*         is <<id, form>> with form "plain" or "qlz" (QuickLZ of it); a   *)
(*         value hash is named by the bytes it was computed from.          *)
(* Part 4: the properties C10_Transparent and C10_VHash.                   *)
(*                                                                         *)
(* Mutants (constant Mutants, {} = transcription of the code) are the code *)
(* changes the family must catch; they are used by the self-test only.     *)
(***************************************************************************)
EXTENDS Integers, Sequences, FiniteSets, TLC

CONSTANTS Mutants

Mut(m) == m \in Mutants

-----------------------------------------------------------------------------
(* Part 1 - the decision table                                             *)

FLAG_COMPRESS        == 65536     \* 0x00010000  item.go:16
FLAG_CLIENT_COMPRESS == 16        \* 0x00000010  item.go:17
TRY_COMPRESS_SIZE    == 10240     \* item.go:19
HEADER               == 24        \* record header (datafile.go recHeaderSize)

HasBit(f, b) == (f \div b) % 2 = 1
Padded(n)    == ((n + 255) \div 256) * 256          \* Record.Sizes
ProbeLen(n)  == IF n > TRY_COMPRESS_SIZE THEN TRY_COMPRESS_SIZE ELSE n

\* a ratio is the pair [c |-> compressed size, n |-> original size];
\* float32(c)/float32(n) > 0.7 is exact in integers for n <= 10 KB (item.go:145)
Above(r) == r.c * 10 > r.n * 7

Classes == {"small", "compressible", "incompressible", "audio", "client_compressed", "mixed_head_tail"}

\* TryCompress (item.go:120-161), for a record with Ver >= 0
Decision(flag, recsize, class, probeRatio, fullRatio) ==
  /\ ~HasBit(flag, FLAG_CLIENT_COMPRESS)          \* :125  client says "already compressed"
  /\ ~HasBit(flag, FLAG_COMPRESS)                 \* :125  second call from AppendRecord
  /\ Padded(recsize) > 256                        \* :129  rec.Size() <= 256 -> return
  /\ class # "audio"                              \* :137  NeedCompress: sniffed type in Conf.NotCompress
  /\ ~Above(IF Mut("ProbeWrongLen") THEN [c |-> probeRatio.c, n |-> fullRatio.n] ELSE probeRatio)   \* :145
  \* :149 once the probe passes the WHOLE value is compressed; fullRatio is not consulted

\* a value as the specification sees it (all numbers are inputs: logged measurements in
\* trace validation, nominal figures in model checking)
\*   [id, cflag, len, ksz, class, pc (compressed size of the probe), fc (compressed size of the whole)]
RecSize(v)    == HEADER + v.ksz + v.len
ProbeRatio(v) == [c |-> v.pc, n |-> ProbeLen(v.len)]
FullRatio(v)  == [c |-> v.fc, n |-> v.len]
Decide(v)     == Decision(v.cflag, RecSize(v), v.class, ProbeRatio(v), FullRatio(v))

\* what checkAndSet hands to AppendRecord
StoredOf(v) ==
  IF ~Decide(v) THEN [form |-> "plain", sflag |-> v.cflag, slen |-> v.len]
  ELSE [form  |-> IF Mut("ProbeOnly") /\ v.len > TRY_COMPRESS_SIZE THEN "qlz-of-probe"          \* :149-156 dropped
                  ELSE IF Mut("CorruptMixed") /\ v.len > TRY_COMPRESS_SIZE /\ Above(FullRatio(v)) THEN "garbage"
                  ELSE "qlz",
        sflag |-> v.cflag + FLAG_COMPRESS,                                                       \* :159
        slen  |-> v.fc]

\* Payload.Decompress on a body of the given form
Dec(form) == CASE form = "qlz" -> "plain" [] form = "qlz-of-probe" -> "plain-probe-only" [] OTHER -> form

-----------------------------------------------------------------------------
(* Part 2 - the case space                                                 *)

KSZ  == 4         \* default key length
LKSZ == 250       \* long key: a tiny value still makes a record > 256 bytes

\* size point -> [len, ksz]
SizeOf(sp) ==
  CASE sp = "v0"     -> [len |-> 0, ksz |-> KSZ]
    [] sp = "v1"     -> [len |-> 1, ksz |-> KSZ]
    [] sp = "rec255" -> [len |-> 255 - HEADER - KSZ, ksz |-> KSZ]
    [] sp = "rec256" -> [len |-> 256 - HEADER - KSZ, ksz |-> KSZ]
    [] sp = "rec257" -> [len |-> 257 - HEADER - KSZ, ksz |-> KSZ]
    [] sp = "v1024"  -> [len |-> 1024, ksz |-> KSZ]          \* value-hash boundary (Getvhash)
    [] sp = "v1025"  -> [len |-> 1025, ksz |-> KSZ]
    [] sp = "p10k-1" -> [len |-> TRY_COMPRESS_SIZE - 1, ksz |-> KSZ]
    [] sp = "p10k"   -> [len |-> TRY_COMPRESS_SIZE, ksz |-> KSZ]
    [] sp = "p10k+1" -> [len |-> TRY_COMPRESS_SIZE + 1, ksz |-> KSZ]
    [] sp = "big"    -> [len |-> 123457, ksz |-> KSZ]
    [] sp = "mb"     -> [len |-> 3000001, ksz |-> KSZ]       \* "several MB"
    [] sp = "mb6"    -> [len |-> 6291457, ksz |-> KSZ]
    [] sp = "lk100"  -> [len |-> 100, ksz |-> LKSZ]          \* QuickLZ 3-byte header (size < 216)
    [] sp = "lk215"  -> [len |-> 215, ksz |-> LKSZ]
    [] sp = "lk216"  -> [len |-> 216, ksz |-> LKSZ]          \* first size with the 9-byte header

BigSPs == {"mb", "mb6"}

\* class -> size points x contents x client flags.  permille = requested probe ratio of
\* content "mix" (the harness constructs it and logs the MEASURED ratio).
SPsOf(class) ==
  CASE class = "small"            -> {"v0", "v1", "rec255", "rec256"}
    [] class = "compressible"     -> {"rec257", "v1024", "v1025", "p10k-1", "p10k", "p10k+1", "big", "mb", "mb6", "lk100", "lk215", "lk216"}
    [] class = "incompressible"   -> {"rec257", "v1024", "v1025", "p10k-1", "p10k", "p10k+1", "big", "mb"}
    [] class = "audio"            -> {"rec257", "p10k+1", "big"}
    [] class = "client_compressed"-> {"rec257", "p10k+1", "big", "mb"}
    [] class = "mixed_head_tail"  -> {"p10k+1", "big", "mb", "mb6"}

ContentsOf(class) ==
  CASE class = "small"            -> {[content |-> "const", permille |-> 50], [content |-> "random", permille |-> 1050]}
    [] class = "compressible"     -> {[content |-> "const", permille |-> 20], [content |-> "periodic", permille |-> 30],
                                      [content |-> "text", permille |-> 450], [content |-> "mix", permille |-> 690]}
    [] class = "incompressible"   -> {[content |-> "random", permille |-> 1001], [content |-> "mix", permille |-> 710]}
    [] class = "audio"            -> {[content |-> "wav", permille |-> 30], [content |-> "mp3", permille |-> 30]}
    [] class = "client_compressed"-> {[content |-> "const", permille |-> 20], [content |-> "text", permille |-> 450]}
    [] class = "mixed_head_tail"  -> {[content |-> "head_c_tail_i", permille |-> 450],   \* probe compresses, whole does not
                                      [content |-> "head_i_tail_c", permille |-> 1001]}  \* probe does not, whole would

\* (10616833 = 0xa20001: client flag bits ABOVE the server's 0x10000 bit must survive compression too)
FlagsOf(class) == IF class = "client_compressed" THEN {16, 17} ELSE {0, 1, 10616833}

\* nominal compressed sizes for the model (the real ones are measured by the harness)
PerMille(n, pm) == (n \div 1000) * pm + ((n % 1000) * pm) \div 1000     \* n*pm/1000 without 32-bit overflow
NomPC(len, permille) == PerMille(ProbeLen(len), permille) + 9
NomFC(len, content, permille) ==
  CASE content = "head_c_tail_i" -> len + 9
    [] content = "head_i_tail_c" -> (len \div 20) + 9
    [] OTHER -> PerMille(len, permille) + 9

Values ==
  UNION {UNION {UNION {{[class |-> c, sp |-> sp, content |-> ct.content, permille |-> ct.permille, cflag |-> f,
                         len |-> SizeOf(sp).len, ksz |-> SizeOf(sp).ksz] : f \in FlagsOf(c)}
                       : ct \in {x \in ContentsOf(c) : ~(sp = "v0" /\ x.content = "random")}}
                : sp \in SPsOf(c)}
         : c \in Classes}

\* the model's view of a case value
ValOf(cs, id) == [id |-> id, cflag |-> cs.cflag, len |-> cs.len, ksz |-> cs.ksz, class |-> cs.class,
                  pc |-> NomPC(cs.len, cs.permille), fc |-> NomFC(cs.len, cs.content, cs.permille)]

\* read paths = operation sequences of the harness.  After EVERY operation the harness
\* observes get / tree value hash / on-disk record / hint items.
PathOps(p) ==
  CASE p = "buf"        -> <<"set", "get", "get", "flush", "get">>
    [] p = "flush"      -> <<"set", "flush", "get", "close">>
    [] p = "restart"    -> <<"set", "close", "open", "get">>
    [] p = "rebuild"    -> <<"set", "close", "open_rmall", "get">>
    [] p = "rmhint"     -> <<"set", "close", "open_rmhint", "get">>
    [] p = "rmtree"     -> <<"set", "close", "open_rmtree", "get">>
    [] p = "over"       -> <<"prev", "flush", "set", "get", "flush", "get">>
    [] p = "gc"         -> <<"prev", "set", "close", "open", "filler", "flush", "gc", "get", "close", "open_rmall", "get">>
    [] p = "rebuild_gc" -> <<"prev", "set", "close", "open_rmall", "filler", "flush", "gc", "get", "close", "open", "get">>
    [] p = "gc_move"    -> <<"prev", "close", "open", "set", "close", "open", "filler", "flush", "gc", "get", "close", "open_rmhint", "get">>

Paths == {"buf", "flush", "restart", "rebuild", "rmhint", "rmtree", "over", "gc", "rebuild_gc", "gc_move"}

-----------------------------------------------------------------------------
(* Part 3 - one key                                                        *)

NoVal  == [id |-> 0, cflag |-> 0, len |-> 0, vh |-> -1, svh |-> -1, ver |-> 0]
NoRec  == [vid |-> 0, sflag |-> 0, form |-> "none", slen |-> 0, loc |-> "none", chunk |-> -1]
NoIdx  == [has |-> FALSE, vid |-> 0, form |-> "none"]
Idx(vid, form) == [has |-> TRUE, vid |-> vid, form |-> form]

S0 == [up |-> TRUE, head |-> 0, dirty |-> FALSE,
       cur |-> NoVal,           \* ghost: what the client last stored (the reference of the properties)
       rec |-> NoRec,           \* newest record of the key
       nold |-> 0,              \* superseded records of the key still in the files
       tree |-> NoIdx,          \* HTree leaf: the value hash it holds is "hash of <vid in form>"
       hint |-> NoIdx,          \* hint item of the key (buffer or file)
       tdisk |-> NoIdx,         \* tree dump on disk
       filler |-> "none",       \* a record of another key in the head file: none / buf / disk
       flushed |-> FALSE, reopened |-> FALSE, rebuilt |-> FALSE, gced |-> FALSE]   \* ghost: names the read path

\* HStore.Set -> Bucket.checkAndSet: CalcValueHash BEFORE TryCompress (bucket.go:352-355),
\* AppendRecord (buffer), htree.set, hints.set
DoSet(s, v, cur) ==
  LET st == StoredOf(v)
      hashed == IF Mut("VHashAfterCompress") THEN st.form ELSE "plain"
  IN [s EXCEPT !.cur = cur,
               !.rec = [vid |-> v.id, sflag |-> st.sflag, form |-> st.form, slen |-> st.slen, loc |-> "buf", chunk |-> s.head],
               !.nold = IF s.rec.loc = "none" THEN @ ELSE @ + 1,
               !.tree = Idx(v.id, hashed), !.hint = Idx(v.id, hashed), !.dirty = TRUE,
               !.flushed = FALSE, !.reopened = FALSE, !.rebuilt = FALSE, !.gced = FALSE]

\* Bucket.get -> dataChunk.GetRecordByOffset: buffer copy or file read, then Payload.Decompress
\* (datachunk.go:179-198, item.go:163-176).  Reply = [res, vid, form, flag].
ReadOf(s) ==
  IF s.rec.loc = "none" \/ ~s.tree.has THEN [res |-> "miss", vid |-> 0, form |-> "none", flag |-> 0]
  ELSE LET r == s.rec
           inbuf == r.loc = "buf"
           skip == (inbuf /\ Mut("NoDecompressBuf")) \/ (~inbuf /\ Mut("NoDecompressDisk"))
           keepflag == (inbuf /\ Mut("NoClearFlagBuf")) \/ (~inbuf /\ Mut("NoClearFlagDisk"))
       IN IF ~HasBit(r.sflag, FLAG_COMPRESS) \/ skip
            THEN [res |-> "hit", vid |-> r.vid, form |-> r.form, flag |-> r.sflag]
            ELSE [res |-> "hit", vid |-> r.vid, form |-> Dec(r.form),
                  flag |-> IF keepflag THEN r.sflag ELSE r.sflag - FLAG_COMPRESS]

Flushed(loc) == IF loc = "buf" THEN "disk" ELSE loc

\* HStore.flushdatas(force)
DoFlush(s) == [s EXCEPT !.rec.loc = Flushed(@), !.filler = Flushed(@), !.flushed = (s.rec.loc # "none")]

\* a small record of another key (makes the head file exist: GC eligibility of the files below it)
DoFiller(s) == [s EXCEPT !.filler = "buf", !.dirty = TRUE]

\* HStore.Close: flush, dump hint buffers, dump the tree
DoClose(s) == [DoFlush(s) EXCEPT !.up = FALSE, !.tdisk = s.tree]

\* Bucket.open after the scenario deleted index files.  Hints deleted -> buildHintFromData:
\* Decompress THEN Getvhash (bucket.go:107-109); tree dump deleted -> tree from the hints.
DoOpen(s, rmhint, rmtree) ==
  LET rebuiltItem == IF s.rec.loc = "disk"
                       THEN Idx(s.rec.vid, IF Mut("NoDecompressRebuild") THEN s.rec.form ELSE Dec(s.rec.form))
                       ELSE NoIdx
      h == IF rmhint THEN rebuiltItem ELSE s.hint
      t == IF ~rmtree /\ s.tdisk.has THEN s.tdisk ELSE h
  IN [s EXCEPT !.up = TRUE, !.hint = h, !.tree = t, !.tdisk = IF rmtree THEN t ELSE @,
               !.head = IF s.dirty THEN @ + 1 ELSE @, !.dirty = FALSE, !.filler = "none",
               !.reopened = TRUE, !.rebuilt = rmhint \/ @]

\* gcCheckRange(0, -1): the key's file is below the head and a later file exists on disk
GCOk(s) == s.up /\ s.rec.loc = "disk" /\ s.rec.chunk < s.head /\ s.filler = "disk"

\* GCMgr.gc: the newest record is copied AS STORED (compressed body, stored flag), the tree
\* position is repointed, the hint of the copy carries the tree's value hash (gc.go:310, 378);
\* the tree dump is removed at the start of the pass
DoGC(s) == IF ~GCOk(s) THEN s
           ELSE [s EXCEPT !.nold = 0, !.hint = s.tree, !.tdisk = NoIdx, !.rec.chunk = 0,
                          !.gced = TRUE, !.reopened = FALSE, !.rebuilt = FALSE]

-----------------------------------------------------------------------------
(* Part 4 - the properties (over the model's own state; Trace_Compress     *)
(* states them over the OBSERVED replies)                                  *)

\* every get returns the client's bytes with the client's flag: bit 0x10000 never visible
C10_TransparentS(s) ==
  (s.up /\ s.cur.id # 0) =>
     ReadOf(s) = [res |-> "hit", vid |-> s.cur.id, form |-> "plain", flag |-> s.cur.cflag]

\* the value hash in the tree and in the hints is the one of the UNCOMPRESSED value
C10_VHashS(s) ==
  /\ (s.up /\ s.cur.id # 0) => s.tree = Idx(s.cur.id, "plain")
  /\ (s.hint.has /\ s.hint.vid = s.cur.id) => s.hint.form = "plain"

PathName(s) == IF s.gced THEN (IF s.rebuilt THEN "gc_rebuild" ELSE IF s.reopened THEN "gc_restart" ELSE "gc")
               ELSE IF s.rebuilt THEN "rebuild"
               ELSE IF s.reopened THEN "restart"
               ELSE IF s.rec.loc = "disk" THEN "flushed" ELSE "buffered"
=============================================================================
