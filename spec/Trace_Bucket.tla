---------------------------- MODULE Trace_Bucket ----------------------------
(***************************************************************************)
(* Level-1 trace validation (DESIGN.md 4.4): every line of trace.ndjson is *)
(* one PUBLIC operation of the real store (logged at its return, with      *)
(* arguments and reply) or a harness observation.  The specification's     *)
(* micro-steps between two lines are not logged: TLC infers them (they are *)
(* deterministic in sequential scenarios).  Property checks compare the    *)
(* logged replies with the REFERENCE MAP ref (documented arithmetic), never*)
(* with predicted layout; failures are accumulated in `bad` so that one    *)
(* TLC run validates hundreds of concatenated scenarios and reports every  *)
(* violation.  Disagreement between the logged reply and the transcription *)
(* (loc) is DRIFT, reported separately.                                    *)
(***************************************************************************)
EXTENDS Bucket, Json

VARIABLES l,      \* cursor into Trace
          obs,    \* the operation in progress / last completed: [e, pre]
          bad,    \* set of <<sid, n, check>>: property-level failures of OBSERVED behaviour
          drift,  \* set of <<sid, n, what>>: the specification is out of step with the code
          lead,   \* set of <<sid, n, what>>: the specification's OWN state violates a property (model-only)
          sid,    \* current scenario id
          kv,     \* THE ORACLE: the plain reference map of C01 (key -> [ver, val, flag]), maintained from the
                  \* logged operations by the documented arithmetic only -- independent of the transcription's
                  \* internal state (ref, tree, ctab), so a layout drift can never turn into a false alarm
          kvTreeOnly, \* keys whose last version change wrote no record (check_vhash; C02 adoption)
          kvCtab,     \* keys the collision table holds, as logged after the last Set / Get / Incr / Open (finding signatures)
          kvUnprot,   \* colliding keys whose last accepted write happened while NO key of their group was in that table
                      \* (such a key is not protected by the table: signature of finding F8a)
          kvKf        \* key -> name of the listed finding whose aftermath the key is in ("" = none): set when a read of the key
                      \* is excused by that finding, cleared by the next accepted set of the key (which overwrites whatever
                      \* the store made of it); while set, further deviations of that key carry the same tag

Trace == ndJsonDeserialize("trace.ndjson")

tvars == <<l, obs, bad, drift, lead, sid, kv, kvTreeOnly, kvCtab, kvUnprot, kvKf>>
NoKv == [ver |-> 0, val |-> 0, flag |-> 0, vh |-> 0]
NoAux == [ok |-> FALSE, b |-> 0, e |-> 0, why |-> ""]
NoObs == [e |-> [a |-> "none", n |-> 0], pre |-> NoKv, aux |-> NoAux]

Ev      == Trace[l]
IsEv(a) == l <= Len(Trace) /\ Trace[l].a = a
Adv     == l' = l + 1

\* keys of other scenarios of the concatenated file get a private hash id and rank 0
ConfOf(c) == [hashOf |-> [k \in Keys |-> IF k \in DOMAIN c.hashOf THEN c.hashOf[k] ELSE "h_" \o k],
              rank |-> [k \in Keys |-> IF k \in DOMAIN c.rank THEN c.rank[k] ELSE 0], fileMax |-> c.fileMax, splitCap |-> c.splitCap,
              checkVHash |-> c.checkVHash, dumpEager |-> c.dumpEager, bodyMaxBlk |-> c.bodyMaxBlk,
              mut |-> {}]

-----------------------------------------------------------------------------
(* checks of the operation that has just completed (evaluated in the state  *)
(* reached after its last micro-step)                                       *)

\* a logged read result g = [res, val, ver, flag] against reference entry r
ReadOK(g, r, level) ==
  \* (at the store level a deleted key may come back as a tombstone payload, ver < 0: a miss for the client)
  IF r.ver = 0 THEN g.res = "miss" \/ (g.res = "hit" /\ g.ver < 0)
  ELSE IF r.ver < 0 THEN g.res = "miss" \/ (g.res = "hit" /\ g.ver < 0 /\ (level > 1 \/ g.ver = r.ver))
  ELSE g.res = "hit" /\ g.ver > 0 /\ g.val = r.val /\ g.flag = r.flag /\ (level = 3 \/ g.ver = r.ver)

\* the reference map after a logged Set event e (old = kv[e.k])
KvAfterSet(old, e) ==
  LET live(v) == [ver |-> v, val |-> e.val, flag |-> e.flag, vh |-> e.vh]
      sameVal == conf.checkVHash /\ old.ver > 0 /\ old.vh = e.vh /\ e.rev >= 0 IN   \* the code compares 16-bit value hashes
  IF Colliding(e.k)
    THEN \* colliding keys: an explicit revision is compared with the version of whichever key owns the shared
         \* slot (the property excludes their versions), so its ACCEPTANCE is taken from the code; auto-version
         \* sets and deletes must always take effect
         IF e.rev = 0 THEN live(Abs(old.ver) + 1)
         \* (a delete of a live colliding key may be REFUSED with NOT_FOUND when the shared slot holds another
         \*  key's tombstone -- observation F8c; a refused operation is not an acknowledged write)
         ELSE IF e.rev < 0 THEN (IF e.res = "ok" THEN [ver |-> -Abs(old.ver) - 1, val |-> 0, flag |-> 0, vh |-> 0] ELSE old)
         ELSE IF e.wrote THEN live(e.rev) ELSE old
  ELSE IF sameVal THEN (IF e.rev > 0 /\ Abs(e.rev) > Abs(old.ver) THEN [old EXCEPT !.ver = e.rev] ELSE old)
  ELSE IF e.rev = 0 THEN live(Abs(old.ver) + 1)
  ELSE IF e.rev < 0 THEN (IF old.ver > 0 THEN [ver |-> -Abs(old.ver) - 1, val |-> 0, flag |-> 0, vh |-> 0] ELSE old)
  ELSE IF Abs(e.rev) > Abs(old.ver) THEN live(e.rev) ELSE old
\* ... and after an Incr event (incr's rule -- old+1 if live, else 1 -- is taken from the code: an assumption)
KvAfterIncr(old, e) ==
  LET live == old.ver > 0
      num == live /\ old.flag = FlagIncr /\ old.val >= NumBase
      want == IF ~live THEN e.d ELSE IF num THEN old.val - NumBase + e.d ELSE 0 IN
  \* a colliding key whose incr answered differently (reported as C13_Incr) continues from what the store answered
  IF Colliding(e.k) /\ e.res # want
    THEN (IF e.res = 0 THEN old ELSE [ver |-> 1, val |-> NumBase + e.res, flag |-> FlagIncr, vh |-> e.vh])
  ELSE IF live /\ ~num THEN old
  ELSE [ver |-> IF live THEN old.ver + 1 ELSE 1, val |-> NumBase + (IF live THEN old.val - NumBase ELSE 0) + e.d, flag |-> FlagIncr,
        vh |-> e.vh]

LevelOf(k) == IF Colliding(k) THEN 3 ELSE 1
\* F7: a superseded TOMBSTONE of a key that is absent from the tree, kept by a pass with begin > 0
TombTag(x) == IF x.r.ver < 0 /\ tree[HashOf(x.r.k)] = NoSlot /\ gc.begin > 0 THEN "!F7" ELSE ""
\* known-finding tag: the failing key went through the mechanism of a listed finding
KfTag(k) == IF k \in DOMAIN gh.kf THEN "!" \o gh.kf[k] ELSE ""
\* collision findings (narrow signatures):
\* F8a: a LIVE colliding key MISSES after a restart (the replayed tombstone of another key of its group removed the
\*      shared slot by hash);  F8b: check_vhash compared the new value hash with the slot of the OTHER key.
\* F18: a GC pass with merge off treats the current record of a colliding key that does not own the shared slot (and
\*      is not yet in the collision table) as superseded and drops it.
\* some other key of k's hash group has been deleted at some time (a tombstone record of it was written)
SiblingTomb(k) == \E i \in 1..Len(recs) : recs[i].key # k /\ recs[i].key \in Keys /\ HashOf(recs[i].key) = HashOf(k) /\ recs[i].ver < 0
KfName(k, afteropen, aftergc, res) ==
  IF kvKf[k] # "" THEN kvKf[k]
  ELSE IF k \in DOMAIN gh.kf THEN gh.kf[k]
  \* (F18 is marked by the specification at the step where the pass drops the key's current record: gh.kf above)
  \* (F8a: the victim is not in the collision table and was last written while no key of its group was in it; a key
  \*  written into a DETECTED group joins the table and must be protected by it)
  ELSE IF Colliding(k) /\ kv[k].ver > 0 /\ afteropen /\ res = "miss" /\ k \notin kvCtab /\ k \in kvUnprot
          /\ SiblingTomb(k) THEN "F8a"       \* (a tombstone of a sibling exists: the replayed delete)
  \* F22: a pass meets records of a key that is NOT in the collision table although its group is: gc.go "guesses" that
  \* every such record is the newest; the first one copied (the oldest) enters the table and the key's later records are
  \* then dropped as superseded
  ELSE IF Colliding(k) /\ aftergc /\ k \notin kvCtab /\ (\E k2 \in Keys : k2 # k /\ HashOf(k2) = HashOf(k) /\ k2 \in kvCtab) THEN "F22"
  ELSE IF Colliding(k) /\ conf.checkVHash THEN "F8b"
  ELSE ""
KfTagR(k, afteropen, aftergc, res) == LET nm == KfName(k, afteropen, aftergc, res) IN IF nm = "" THEN "" ELSE "!" \o nm

Checks(o) ==
  LET e == o.e IN
  IF e.a = "Get" THEN
       (IF ReadOK(e, kv[e.k], LevelOf(e.k)) THEN {} ELSE {<<sid, e.n, (IF Colliding(e.k) THEN "C13_Get" ELSE IF e.aftergc THEN "C03_Get" ELSE IF e.afteropen THEN "C02_Get" ELSE "C01_Get") \o KfTagR(e.k, e.afteropen, e.aftergc, e.res)>>})
  ELSE IF e.a = "Set" /\ ~Colliding(e.k) THEN
       LET want == IF e.rev < 0 /\ o.pre.ver <= 0 THEN "NOT_FOUND" ELSE "ok" IN
       (IF e.res = want THEN {} ELSE {<<sid, e.n, "C01_SetStatus">>})
  ELSE IF e.a = "Incr" /\ ~Colliding(e.k) THEN
       LET live == o.pre.ver > 0
           num == live /\ o.pre.flag = FlagIncr /\ o.pre.val >= NumBase
           want == IF ~live THEN e.d ELSE IF num THEN o.pre.val - NumBase + e.d ELSE 0 IN
       (IF e.res = want THEN {} ELSE {<<sid, e.n, "C01_Incr">>})
  ELSE IF e.a = "Incr" THEN
       \* colliding key: the same arithmetic; an incr that treats a LIVE key as absent after a restart is the F8a loss seen
       \* through a write (the victim is not protected by the collision table)
       LET live == o.pre.ver > 0
           num == live /\ o.pre.flag = FlagIncr /\ o.pre.val >= NumBase
           want == IF ~live THEN e.d ELSE IF num THEN o.pre.val - NumBase + e.d ELSE 0
           tag == IF kvKf[e.k] # "" THEN "!" \o kvKf[e.k]
                  ELSE IF e.k \in DOMAIN gh.kf THEN "!" \o gh.kf[e.k]
                  ELSE IF live /\ e.res = e.d /\ e.afteropen /\ e.k \notin kvCtab /\ e.k \in kvUnprot
                          /\ SiblingTomb(e.k) THEN "!F8a"
                  ELSE IF conf.checkVHash THEN "!F8b" ELSE "" IN
       (IF e.res = want THEN {} ELSE {<<sid, e.n, "C13_Incr" \o tag>>})
  ELSE IF e.a = "Counters" THEN
       (IF \A i \in 1..Len(e.d) : e.d[i] = 0 THEN {} ELSE {<<sid, e.n, "C12_Zero">>})
  ELSE IF e.a = "GCStart" THEN
       \* C17 range clause: the range the code resolved equals RangeOf
       (IF e.second \/ ~e.agesure \/ (o.aux.ok /\ e.rb = o.aux.b /\ e.re = o.aux.e) THEN {} ELSE {<<sid, e.n, "C17_Range">>})
  ELSE IF e.a = "GCRefused" THEN
       (IF ~e.agesure \/ ~o.aux.ok THEN {} ELSE {<<sid, e.n, "C17_Range">>})
  ELSE IF e.a = "GC" THEN
       \* C17 frame clause: a file outside [rb,re] keeps its old bytes; at most one of them, below rb,
       \* may have grown; nothing at or above the head is touched; files are created only below rb or in range
       (LET F == {e.frame[i] : i \in 1..Len(e.frame)}
            out == {f \in F : f.c < e.rb \/ f.c > e.re}
            grown == {f \in out : f.c < e.head /\ f.after > f.before}    \* (the file receiving appends is judged below)
        IN IF e.res # "ok" \/ e.second \/ e.concurrent THEN {}
           ELSE IF /\ \A f \in out : f.same /\ f.after >= f.before
                   /\ Cardinality(grown) <= 1 /\ (\A f \in grown : f.c < e.rb)
                   \* the file receiving appends keeps its old bytes; it may only grow by the pass's own flush of the
                   \* appends still buffered for it (flushBuffered, fix F15), i.e. to the size the specification's flush gives
                   /\ (\A f \in F : f.c >= e.head => (f.same /\ (f.after = f.before \/ (f.c \in Chunks /\ f.after = Len(disk.data[f.c])))))
                   /\ (\A i \in 1..Len(e.created) : \/ (e.created[i] < e.head /\ e.created[i] <= e.re)
                                                      \/ (e.created[i] = e.head /\ e.head \in Chunks /\ Len(disk.data[e.head]) > 0))
                THEN {} ELSE {<<sid, e.n, "C17_Frame">>})
       \cup
       (IF e.second /\ e.released # 0 THEN {<<sid, e.n, "C18_Idempotent">>} ELSE {})
  ELSE IF e.a = "Scan" THEN
       \* C18: every record that survives in the collected range is the newest RECORD of its key, once
       LET X == UNION {{[c |-> e.files[i].c, r |-> e.files[i].recs[j]] : j \in 1..Len(e.files[i].recs)} :
                        i \in {i \in 1..Len(e.files) : e.files[i].c >= e.rb /\ e.files[i].c <= e.re}}
           Y == {x \in X : x.r.k \in Keys /\ ~Colliding(x.r.k)}
           cur(k) == MaxOf({i \in 1..Len(recs) : recs[i].key = k}, 0)
           isCur(x) == LET i == cur(x.r.k) IN i > 0 /\ recs[i].ver = x.r.ver /\ (x.r.ver > 0 => recs[i].val = x.r.val)
       IN IF e.concurrent THEN {} ELSE
          (IF \A x \in Y : isCur(x) THEN {} ELSE {<<sid, e.n, "C18_OnlyCurrent" \o TombTag(CHOOSE x \in Y : ~isCur(x))>>})
          \* (two tombstones of one key with EQUAL versions - the version restarted after a rebuilt tree forgot the first - are
          \*  finding F7 again: the older one is a superseded tombstone kept because the key is absent from the tree)
          \cup (LET D == {x \in Y : isCur(x) /\ \E y \in Y : y # x /\ y.r.k = x.r.k /\ isCur(y)} IN
                IF D = {} THEN {}
                ELSE IF \A x \in D : TombTag(x) = "!F7" THEN {<<sid, e.n, "C18_Once!F7">>} ELSE {<<sid, e.n, "C18_Once">>})
  ELSE IF e.a = "Recovered" THEN
       \* C06 / C07: what a fresh process serves from the directory as the kill left it.
       \* W(k)   = records built for k before the kill (the first e.nrecs records)
       \* D(k)   = the newest of them that the independent scan found intact on disk (0 = none)
       \* a read may return any member of W(k) at least as new as D(k); a miss only if nothing is
       \* durable or an allowed member is a delete; an error or a foreign/older value never.
       LET n == IF e.nrecs <= Len(recs) THEN e.nrecs ELSE Len(recs)
           W(k) == {i \in 1..n : recs[i].key = k}
           Dset == {e.durable[i] : i \in 1..Len(e.durable)}
           \* versions can repeat (incr after a delete restarts at 1), so an observed intact record (k, ver, val) may
           \* match several writes: data files are append-only, so with m intact copies the OLDEST m matching writes
           \* are the durable ones
           same(i, j) == recs[i].ver = recs[j].ver /\ (recs[i].ver > 0 => recs[i].val = recs[j].val)
           copies(k, i) == Cardinality({x \in 1..Len(e.durable) : e.durable[x].k = k /\ e.durable[x].ver = recs[i].ver
                                       /\ (recs[i].ver > 0 => e.durable[x].val = recs[i].val)})
           Dur(k) == {i \in W(k) : Cardinality({j \in W(k) : j <= i /\ same(i, j)}) <= copies(k, i)}
           D(k) == MaxOf(Dur(k), 0)
           Allowed(k) == {i \in W(k) : i >= D(k)}
           ok(k, g) == IF g.res = "hit" /\ g.ver > 0
                         THEN \E i \in Allowed(k) : recs[i].ver = g.ver /\ recs[i].val = g.val /\ recs[i].flag = g.flag
                       ELSE IF g.res = "miss" \/ (g.res = "hit" /\ g.ver < 0)
                         THEN D(k) = 0 \/ \E i \in Allowed(k) : recs[i].ver < 0
                       ELSE FALSE
           \* C07: a key not written during the pass reads exactly as the reference map says
           exact(k, g) == ReadOK(g, kv[k], 2)
           K == {k \in DOMAIN e.reads : k \in Keys /\ ~Colliding(k)}
           prop == IF e.ingc THEN "C07_Recovered" ELSE "C06_Recovered"
           f11(k) == e.reads[k].res = "err" /\ \E i \in 1..Len(e.hintahead) : e.hintahead[i] = e.reads[k].c
           f6(k) == e.ingc /\ gc.begin = 0 /\ kv[k].ver <= 0 /\ e.reads[k].res = "hit" /\ e.reads[k].ver > 0
           \* F19: a torn in-place copy of a multi-block record that overlaps its own old copy destroyed BOTH copies:
           \* the independent scan finds no intact record of the key's current version anywhere in the snapshot
           f19(k) == e.ingc /\ e.phase = "torn" /\ e.kind = "data.gcappend" /\ kv[k].ver > 0
                     /\ ~\E d \in Dset : d.k = k /\ d.ver = kv[k].ver
       IN IF e.childdied THEN {<<sid, e.n, prop \o "_ChildDied">>}
          ELSE IF ~e.started
            THEN (IF e.inside \/ e.unaligned THEN {} ELSE {<<sid, e.n, prop \o "_Refused">>})
          ELSE {<<sid, e.n, prop \o (IF f11(k) THEN "!F11" ELSE IF f6(k) THEN "!F6" ELSE IF f19(k) THEN "!F19" ELSE ""), k>> :
                   k \in {k \in K : IF e.ingc THEN ~exact(k, e.reads[k]) ELSE ~ok(k, e.reads[k])}}
  ELSE IF e.a = "ReadAll" THEN
       {<<sid, e.n, (IF Colliding(k) THEN "C13_ReadAll" ELSE IF e.aftergc THEN "C03_ReadAll" ELSE IF e.afteropen THEN "C02_ReadAll" ELSE "C01_ReadAll") \o KfTagR(k, e.afteropen, e.aftergc, e.reads[k].res), k>> :
           k \in {k \in DOMAIN e.reads : ~ReadOK(e.reads[k], kv[k], LevelOf(k))}}
  ELSE {}

\* the specification's own state must also agree with the reference map (this is where a
\* defect that the transcription shares with the code shows up, e.g. F12)
StateChecks(o) ==
  IF up /\ o.e.a \in {"Set", "Incr", "Flush", "RotFlush", "Open", "GC"} /\ pc["gc"] = "idle" /\ ~C01_ReadMap
    THEN {<<sid, o.e.n, "C01_ReadMap">>} ELSE {}

\* drift: the transcription (loc) disagrees with what the code replied
Drift(o) ==
  LET e == o.e IN
  IF e.a = "Set" /\ loc["c1"] # <<>> /\ loc["c1"].res # e.res THEN {<<sid, e.n, "set-reply">>}
  ELSE IF e.a = "Set" /\ e.wrote /\ e.c >= 0 /\ ~Colliding(e.k) /\ loc["c1"] # <<>> /\ (loc["c1"].c # e.c \/ loc["c1"].off # e.off)
    THEN {<<sid, e.n, "set-pos">>}      \* the record went to another (chunk, offset) than the specification computed
  ELSE IF e.a = "ReadAll" /\ pc["gc"] = "idle" /\ up
    THEN {<<sid, e.n, "tree-pos">> : k \in {k \in DOMAIN e.reads : k \in Keys /\ ~Colliding(k) /\ e.reads[k].res = "hit" /\
              (OldMeta(k).c # e.reads[k].c \/ OldMeta(k).off # e.reads[k].off)}}
  ELSE IF e.a = "Open" /\ up /\ head # e.head THEN {<<sid, e.n, "open-head">>}
  ELSE IF e.a = "Get" /\ loc["c1"] # <<>> /\ loc["c1"].res # e.res THEN {<<sid, e.n, "get-reply">>}
  ELSE IF e.a = "Get" /\ e.res = "hit" /\ (loc["c1"].c # e.c \/ loc["c1"].off # e.off) THEN {<<sid, e.n, "get-pos">>}
  ELSE {}

\* After a read of key k was excused by a LISTED finding (the store has knowingly lost or replaced k), the reference map
\* is knowingly wrong about k: it adopts what the store serves for k from then on, so that only NEW deviations are reported.
ExcusedKeys(o) ==
  LET e == o.e IN
  IF e.a = "Get" THEN (IF ~ReadOK(e, kv[e.k], LevelOf(e.k)) /\ KfTagR(e.k, e.afteropen, e.aftergc, e.res) # "" THEN {e.k} ELSE {})
  ELSE IF e.a = "ReadAll" THEN {k \in DOMAIN e.reads : k \in Keys /\ ~ReadOK(e.reads[k], kv[k], LevelOf(k))
                                                          /\ KfTagR(k, e.afteropen, e.aftergc, e.reads[k].res) # ""}
  ELSE {}
FromRead(g) == IF g.res = "hit" /\ g.ver # 0 THEN [ver |-> g.ver, val |-> IF g.ver > 0 THEN g.val ELSE 0, flag |-> IF g.ver > 0 THEN g.flag ELSE 0, vh |-> 0]
               ELSE NoKv
CtabOf(e) == {e.ctab[i] : i \in 1..Len(e.ctab)}
\* (kvCtab still holds the table as it was BEFORE the operation being consumed)
UnprotAfter(k, accepted) == IF ~accepted \/ ~Colliding(k) THEN kvUnprot
                            ELSE IF \E k2 \in Keys : HashOf(k2) = HashOf(k) /\ k2 \in kvCtab THEN kvUnprot \ {k} ELSE kvUnprot \cup {k}
ReadOf(o, k) == IF o.e.a = "Get" THEN o.e ELSE o.e.reads[k]
KB == LET X == ExcusedKeys(obs) IN IF X = {} THEN kv ELSE [k \in Keys |-> IF k \in X THEN FromRead(ReadOf(obs, k)) ELSE kv[k]]
KfB == LET X == ExcusedKeys(obs) IN
       IF X = {} THEN kvKf
       ELSE [k \in Keys |-> IF k \in X THEN KfName(k, obs.e.afteropen, obs.e.aftergc, ReadOf(obs, k).res) ELSE kvKf[k]]
KvSame == kv' = KB /\ kvKf' = KfB /\ UNCHANGED <<kvTreeOnly, kvCtab, kvUnprot>>

\* cheap scalar state logged with every state-changing operation (head file, per-file size and number of buffered
\* records, next-GC mark) against the specification's state after the same operation
StateDrift(o) ==
  LET e == o.e IN
  IF e.a \in {"Set", "Incr", "Flush", "RotFlush", "Open", "GC"} /\ e.st.head >= 0 /\ up /\ pc["gc"] = "idle" /\ (e.a = "GC" => ~e.second)
    THEN (IF head # e.st.head THEN {<<sid, e.n, "state-head">>} ELSE {})
         \cup {<<sid, e.n, "state-size">> : i \in {i \in 1..Len(e.st.size) : (i - 1) \in Chunks /\ chk[i - 1].size # e.st.size[i]}}
         \cup {<<sid, e.n, "state-wbuf">> : i \in {i \in 1..Len(e.st.nbuf) : (i - 1) \in Chunks /\ Len(chk[i - 1].wbuf) # e.st.nbuf[i]}}
         \cup (IF e.st.nextgc >= 0 /\ bk.nextgc # e.st.nextgc THEN {<<sid, e.n, "state-nextgc">>} ELSE {})
    ELSE {}

Settle == /\ bad' = bad \cup Checks(obs)
          /\ lead' = lead \cup StateChecks(obs)
          /\ drift' = drift \cup Drift(obs) \cup StateDrift(obs)

-----------------------------------------------------------------------------
\* InitMem is stated over unprimed variables; this is its primed twin
ResetMem(c0) ==
  /\ up' = TRUE /\ head' = 0
  /\ chk' = [c \in Chunks |-> FreshChunk]
  /\ tree' = [h \in HashIds |-> NoSlot]
  /\ hm' = FreshHm /\ ctab' = <<>> /\ bk' = [treeID |-> NoId, nextgc |-> 0] /\ gc' = NoGC
  /\ lock' = [write |-> Free, flush |-> Free]
  /\ pc' = [p \in Procs |-> "idle"] /\ loc' = [p \in Procs |-> <<>>]
  /\ conf' = c0

TrReset ==
  /\ IsEv("Reset") /\ Adv
  /\ ResetMem(ConfOf(Ev.conf))
  /\ disk' = FreshDisk /\ recs' = <<>> /\ ref' = [k \in Keys |-> NoRef] /\ gh' = FreshGh
  /\ Settle /\ obs' = NoObs /\ sid' = Ev.sid
  /\ kv' = [k \in Keys |-> NoKv] /\ kvTreeOnly' = {} /\ kvCtab' = {} /\ kvUnprot' = {} /\ kvKf' = [k \in Keys |-> ""]

Stuck(what) == /\ drift' = drift \cup Drift(obs) \cup {<<sid, Ev.n, what>>}
               /\ bad' = bad \cup Checks(obs) /\ lead' = lead \cup StateChecks(obs)
               /\ obs' = NoObs /\ UNCHANGED vars

KvSetStep ==
  LET new == KvAfterSet(KB[Ev.k], Ev)
      treeOnly == new # KB[Ev.k] /\ new.val = KB[Ev.k].val /\ conf.checkVHash /\ Ev.rev > 0 /\ KB[Ev.k].ver > 0 /\ ~Colliding(Ev.k)
  IN /\ kv' = [KB EXCEPT ![Ev.k] = new]
     /\ kvTreeOnly' = (IF new = KB[Ev.k] THEN kvTreeOnly ELSE IF treeOnly THEN kvTreeOnly \cup {Ev.k} ELSE kvTreeOnly \ {Ev.k})
     /\ kvCtab' = CtabOf(Ev)
     /\ kvUnprot' = UnprotAfter(Ev.k, new # KB[Ev.k])
     /\ kvKf' = IF new # KB[Ev.k] /\ Ev.rev >= 0 THEN [KfB EXCEPT ![Ev.k] = ""] ELSE KfB

TrSet ==
  /\ IsEv("Set") /\ ~OthersBusy /\ Adv /\ sid' = sid
  /\ IF up
       THEN /\ KvSetStep
            /\ W_Begin("c1", Ev.k, Ev.val, Ev.rev, Ev.flag, Ev.nblk, Ev.vh)
            /\ Settle /\ obs' = [e |-> Ev, pre |-> KB[Ev.k], aux |-> NoAux]
       ELSE KvSame /\ Stuck("set-while-down")

TrGet ==
  /\ IsEv("Get") /\ ~OthersBusy /\ Adv /\ sid' = sid /\ kv' = KB /\ kvKf' = KfB /\ UNCHANGED <<kvTreeOnly, kvUnprot>> /\ kvCtab' = CtabOf(Ev)
  /\ IF up
       THEN R_Begin("c1", Ev.k) /\ Settle /\ obs' = [e |-> Ev, pre |-> KB[Ev.k], aux |-> NoAux]
       ELSE Stuck("get-while-down")

TrIncr ==
  /\ IsEv("Incr") /\ ~OthersBusy /\ Adv /\ sid' = sid
  /\ IF up
       THEN /\ kv' = [KB EXCEPT ![Ev.k] = KvAfterIncr(KB[Ev.k], Ev)]
            \* a refused incr (non-numeric old value) writes nothing: a tree-only version stays tree-only
            /\ kvTreeOnly' = (IF KvAfterIncr(KB[Ev.k], Ev) = KB[Ev.k] THEN kvTreeOnly ELSE kvTreeOnly \ {Ev.k}) /\ kvCtab' = CtabOf(Ev)
            /\ kvUnprot' = UnprotAfter(Ev.k, KvAfterIncr(KB[Ev.k], Ev) # KB[Ev.k]) /\ kvKf' = KfB
            /\ I_Begin("c1", Ev.k, Ev.d, Ev.vh) /\ Settle /\ obs' = [e |-> Ev, pre |-> KB[Ev.k], aux |-> NoAux]
       ELSE KvSame /\ Stuck("incr-while-down")

TrFlush ==
  /\ IsEv("Flush") /\ ~OthersBusy /\ Adv /\ sid' = sid /\ KvSame
  /\ IF up THEN F_Start("flusher") /\ Settle /\ obs' = [e |-> Ev, pre |-> NoKv, aux |-> NoAux]
     ELSE Stuck("flush-while-down")

TrRotFlush ==
  /\ IsEv("RotFlush") /\ ~OthersBusy /\ Adv /\ sid' = sid /\ KvSame
  /\ IF up /\ Ev.ran /\ Ev.c \in Chunks /\ pc[RotName(Ev.c)] = "spawned"
       THEN F_Enter(RotName(Ev.c)) /\ Settle /\ obs' = [e |-> Ev, pre |-> NoKv, aux |-> NoAux]
       ELSE IF ~Ev.ran THEN Settle /\ obs' = NoObs /\ UNCHANGED vars
       ELSE Stuck("rotflush-not-spawned")

TrClose ==
  /\ IsEv("Close") /\ Quiet /\ Adv /\ sid' = sid /\ KvSame
  /\ IF up THEN CL_Start /\ Settle /\ obs' = [e |-> Ev, pre |-> NoKv, aux |-> NoAux]
     ELSE Stuck("close-while-down")

\* index files deleted by the scenario before reopening: [kind, c, s]
RmFiles(d, rm) ==
  LET trees == {<<rm[i].c, rm[i].s>> : i \in {i \in 1..Len(rm) : rm[i].kind = "tree"}}
      hints == {<<rm[i].c, rm[i].s>> : i \in {i \in 1..Len(rm) : rm[i].kind = "hint"}}
  IN [d EXCEPT !.treef = {t \in @ : t.id \notin trees},
               !.hintf = [c \in Chunks |-> [j \in 1..Len(d.hintf[c]) |->
                            IF <<c, j - 1>> \in hints THEN NoFile ELSE d.hintf[c][j]]]]

KvOpenStep ==
  /\ kv' = [k \in Keys |->
              IF k \notin DOMAIN Ev.meta THEN KB[k]
              ELSE IF KB[k].ver < 0
                THEN (IF Ev.meta[k] = 0 THEN NoKv
                      ELSE IF Ev.meta[k] < 0 THEN [KB[k] EXCEPT !.ver = Ev.meta[k]] ELSE KB[k])
              ELSE IF k \in kvTreeOnly /\ Ev.meta[k] > 0 THEN [KB[k] EXCEPT !.ver = Ev.meta[k]]
              ELSE KB[k]]
  \* a tree-only version that this restart preserved (tree dump loaded) is still tree-only: a later rebuild may lose it
  /\ kvTreeOnly' = {k \in kvTreeOnly : k \in DOMAIN Ev.meta /\ Ev.meta[k] = KB[k].ver}
  /\ kvCtab' = CtabOf(Ev) /\ UNCHANGED kvUnprot /\ kvKf' = KfB

TrOpen ==
  /\ IsEv("Open") /\ Quiet /\ Adv /\ sid' = sid
  /\ IF ~up
       THEN LET r == Recover(RmFiles(disk, Ev.removed)) IN
            /\ KvOpenStep
            /\ up' = TRUE /\ head' = r.head /\ chk' = r.chk /\ tree' = r.tree /\ hm' = r.hm
            /\ disk' = r.disk /\ ctab' = r.ctab /\ bk' = r.bk
            \* the transcription's own reference map adopts the same version memory (C02)
            /\ ref' = [k \in Keys |->
                  IF k \notin DOMAIN Ev.meta THEN ref[k]
                  ELSE IF ref[k].ver < 0
                    THEN (IF Ev.meta[k] = 0 THEN NoRef
                          ELSE IF Ev.meta[k] < 0 THEN [ref[k] EXCEPT !.ver = Ev.meta[k]] ELSE ref[k])
                  ELSE IF k \in gh.treeOnly /\ Ev.meta[k] > 0 THEN [ref[k] EXCEPT !.ver = Ev.meta[k]]
                  ELSE ref[k]]
            /\ gh' = [gh EXCEPT !.treeOnly = {k \in @ : k \in DOMAIN Ev.meta /\ Ev.meta[k] = ref[k].ver}]
            /\ UNCHANGED <<conf, gc, lock, pc, loc, recs>>
            /\ Settle /\ obs' = [e |-> Ev, pre |-> NoKv, aux |-> NoAux]
       ELSE KvSame /\ Stuck("open-while-up")

\* has the specification's GC pass reached the hook point of event e?
AtPoint(e) ==
  LET here == gc.oldpos = <<e.c, e.off>> /\ gc.rid # 0 IN
  CASE e.point = "g.newest"      -> here /\ pc["gc"] \in {"g_copy", "g_dstswitch", "g_next"} /\ (pc["gc"] = "g_next" => ~gc.keep)
    [] e.point = "g.copy"        -> gc.rid # 0 /\ recs[gc.rid].key = e.k /\ pc["gc"] = (IF gc.found THEN "g_repget" ELSE "g_hint")
    [] e.point = "g.repoint.mid" -> gc.rid # 0 /\ recs[gc.rid].key = e.k /\ pc["gc"] = "g_repget"
    [] e.point = "g.repoint"     -> gc.rid # 0 /\ recs[gc.rid].key = e.k /\ gc.found /\ pc["gc"] = "g_hint"
    [] e.point = "g.hint"        -> gc.rid # 0 /\ recs[gc.rid].key = e.k /\ gc.keep /\ pc["gc"] = "g_next"
    [] e.point = "g.srcend"      -> pc["gc"] = "g_src" /\ gc.src = e.c + 1
    [] e.point = "g.before"      -> pc["gc"] = "g_dst"
    [] OTHER -> FALSE

TrGCStart ==
  /\ IsEv("GCStart") /\ Quiet /\ Adv /\ sid' = sid /\ KvSame
  /\ IF up
       THEN /\ Settle /\ obs' = [e |-> Ev, pre |-> NoKv,
                                 aux |-> RangeOf(Ev.begin, Ev.end, LAMBDA n : IF ToString(n) \in DOMAIN Ev.old THEN Ev.old[ToString(n)] ELSE TRUE)]
            /\ G_Start(Ev.rb, Ev.re, Ev.merge)
       ELSE Stuck("gc-while-down")

\* a refused request: nothing happens, the refusal must agree with RangeOf
TrGCRefused ==
  /\ IsEv("GCRefused") /\ Quiet /\ Adv /\ sid' = sid /\ KvSame
  /\ Settle /\ obs' = [e |-> Ev, pre |-> NoKv,
                        aux |-> RangeOf(Ev.begin, Ev.end, LAMBDA n : IF ToString(n) \in DOMAIN Ev.old THEN Ev.old[ToString(n)] ELSE TRUE)]
  /\ UNCHANGED vars

\* the real pass is parked at a hook point: the specification's pass must be exactly there
TrGCAt ==
  /\ IsEv("GCAt") /\ ~OthersBusy /\ AtPoint(Ev) /\ Adv /\ sid' = sid /\ KvSame
  /\ Settle /\ obs' = NoObs /\ UNCHANGED vars

\* CancelGC while the pass is parked at a hook point (src = -1: no pass was registered, nothing happens)
TrCancel ==
  /\ IsEv("Cancel") /\ ~OthersBusy /\ Adv /\ sid' = sid /\ KvSame
  /\ IF Ev.src >= 0 /\ gc.reg /\ ~gc.cancel
       THEN G_Cancel /\ Settle /\ obs' = NoObs
       ELSE IF Ev.src < 0 \/ gc.cancel THEN Settle /\ obs' = NoObs /\ UNCHANGED vars
       ELSE Stuck("cancel-without-pass")

\* the pass has returned
TrGC ==
  /\ IsEv("GC") /\ Quiet /\ Adv /\ sid' = sid /\ KvSame
  /\ Settle /\ obs' = [e |-> Ev, pre |-> NoKv, aux |-> NoAux] /\ UNCHANGED vars

TrScan ==
  /\ IsEv("Scan") /\ Quiet /\ Adv /\ sid' = sid /\ KvSame
  /\ Settle /\ obs' = [e |-> Ev, pre |-> NoKv, aux |-> NoAux] /\ UNCHANGED vars

TrRecovered ==
  /\ IsEv("Recovered") /\ Quiet /\ Adv /\ sid' = sid /\ KvSame
  /\ Settle /\ obs' = [e |-> Ev, pre |-> NoKv, aux |-> NoAux] /\ UNCHANGED vars

TrReadAll ==
  /\ IsEv("ReadAll") /\ Quiet /\ Adv /\ sid' = sid /\ KvSame
  /\ Settle /\ obs' = [e |-> Ev, pre |-> NoKv, aux |-> NoAux] /\ UNCHANGED vars

\* buffer accounting at quiescence (C12 seen from the store): after the scenario's final close the four counters
\* (SetData, GetData, FlushData, C allocations: count and size each) are back where they were when it started
TrCounters ==
  /\ IsEv("Counters") /\ Adv /\ sid' = sid /\ KvSame
  /\ Settle /\ obs' = [e |-> Ev, pre |-> NoKv, aux |-> NoAux] /\ UNCHANGED vars

TrEnd ==
  /\ IsEv("End") /\ Quiet /\ Adv /\ sid' = sid /\ KvSame
  /\ Settle /\ obs' = NoObs /\ UNCHANGED vars

\* an event this specification has no action for: skip it, note it
TrOther ==
  /\ l <= Len(Trace) /\ Quiet /\ Adv /\ sid' = sid /\ KvSame
  /\ Trace[l].a \notin {"Reset", "Set", "Get", "Incr", "Flush", "RotFlush", "Close", "Open", "ReadAll", "End", "GC", "GCStart", "GCRefused", "GCAt", "Scan", "Recovered", "Cancel", "Counters"}
  /\ Stuck("unknown-event")

\* unlogged micro-steps: every process except GC runs its operation to completion; the GC pass advances
\* only towards the next logged hook point (GCAt) or to its end (GC), otherwise it stays parked
NextIs(a) == l <= Len(Trace) /\ Trace[l].a = a
GCMayRun == pc["gc"] # "idle" /\ ((NextIs("GCAt") /\ ~AtPoint(Trace[l])) \/ NextIs("GC"))
Silent == /\ UNCHANGED tvars
          /\ \/ (OthersBusy /\ NonGCStep)
             \/ (~OthersBusy /\ GCMayRun /\ GCProcStep)

TraceInit ==
  /\ l = 1 /\ obs = NoObs /\ bad = {} /\ drift = {} /\ lead = {} /\ sid = ""
  /\ kv = [k \in Keys |-> NoKv] /\ kvTreeOnly = {} /\ kvCtab = {} /\ kvUnprot = {} /\ kvKf = [k \in Keys |-> ""] /\ TLCSet(1, 1)
  /\ Init([hashOf |-> [k \in Keys |-> CHOOSE h \in HashIds : TRUE], rank |-> [k \in Keys |-> 0], fileMax |-> 4,
           splitCap |-> 2, checkVHash |-> FALSE, dumpEager |-> FALSE, bodyMaxBlk |-> 1, mut |-> {}])

TraceNext == TrReset \/ TrSet \/ TrGet \/ TrIncr \/ TrFlush \/ TrRotFlush \/ TrClose \/ TrOpen \/ TrGCStart \/ TrGCRefused
             \/ TrGCAt \/ TrCancel \/ TrGC \/ TrScan \/ TrRecovered
             \/ TrReadAll \/ TrCounters \/ TrEnd \/ TrOther \/ Silent

TraceSpec == TraceInit /\ [][TraceNext]_<<vars, tvars>>

\* acceptance: the whole file was consumed; the verdicts are printed for the orchestrator
Done == l = Len(Trace) + 1 /\ Quiet
Report == Done => PrintT(<<"VERIF-RESULT", ToJson([bad |-> bad, drift |-> drift, lead |-> lead, consumed |-> l - 1])>>)
HighWater == TLCSet(1, IF TLCGet(1) < l THEN l ELSE TLCGet(1))
TraceView == <<vars, tvars>>
TraceAccepted == IF TLCGet(1) = Len(Trace) + 1 THEN TRUE
                 ELSE PrintT(<<"VERIF-STUCK", TLCGet(1), Trace[TLCGet(1)].n>>) /\ FALSE
StopL == 1000000000
StopAt == l < StopL     \* debugging aid: INVARIANT StopAt prints the state at cursor StopL
=============================================================================
