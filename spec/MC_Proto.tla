------------------------------ MODULE MC_Proto ------------------------------
(***************************************************************************)
(* Bounded model of Proto.tla: every script of at most MaxLen abstract      *)
(* commands on each connection, all interleavings of the connection         *)
(* stages, request tokens shared by the connections.  The ALPHABET of       *)
(* abstract commands defined here is also what the orchestrator             *)
(* concretises into bytes for the real server (printed as JSON when         *)
(* PrintAlpha is TRUE).                                                     *)
(***************************************************************************)
EXTENDS Proto, Json

CONSTANTS MaxLen,       \* script length per connection
          Alpha,        \* "full" | "core" | "tok"
          OomGates,     \* subset of BOOLEAN; TRUE: flush_max = 0, a big value is refused while a write buffer is non-empty
          PrintAlpha

BC == 100   \* body_c_str
BB == 300   \* body_big
BM == 600   \* body_max

K(cls, name) == [cls |-> cls, name |-> name, id |-> cls \o ":" \o name, klen |-> IF name = "kl" THEN 240 ELSE 5]

Base(verb) == [verb |-> verb, keys |-> <<>>, nf |-> "none", nc |-> "ok", size |-> "na", n |-> 0, content |-> "plain",
               vid |-> "", flag |-> 0, ccomp |-> FALSE, rev |-> 0, delta |-> 0, noreply |-> FALSE, fault |-> "none", cut |-> "none",
               hl |-> 10, tl |-> 10, got |-> 10]

SizeOf(sz) == CASE sz = "z" -> 0 [] sz = "small" -> 5 [] sz = "eqc" -> BC [] sz = "gtc" -> BC + 1
                [] sz = "big" -> BB + 1 [] sz = "huge" -> BM + 1 [] OTHER -> 0

\* storage command: header 10 bytes, body n bytes, CRLF
St(verb, kr, sz) == [Base(verb) EXCEPT !.keys = <<kr>>, !.size = sz, !.n = SizeOf(sz), !.vid = "v:" \o verb \o ":" \o sz, !.flag = 3,
                                       !.tl = 10 + SizeOf(sz) + 2, !.got = 10 + SizeOf(sz) + 2]
WithCut(c, how) == IF how = "line" THEN [c EXCEPT !.cut = "line", !.got = 5]
                   ELSE [c EXCEPT !.cut = "body", !.got = c.hl + (IF c.n > 1 THEN 1 ELSE 0)]
Nr(c)          == [c EXCEPT !.noreply = TRUE]
Num(c, f, cl)  == [c EXCEPT !.nf = f, !.nc = cl]
Flt(c, f)      == [c EXCEPT !.fault = f]

PlainKeys == {K("plain", "kh"), K("plain", "km"), K("plain", "kt")}
OddKeys   == {K("unserved", ""), K("ctrl", ""), K("long", ""), K("dir", ""), K("meta", "kh")}
GetKeys   == PlainKeys \cup
             {K("unserved", ""), K("ctrl", ""), K("long", ""), K("dir", ""), K("dir17", ""), K("dirbad", ""),
              K("hash", "kh"), K("hash", "kt"), K("hashmiss", ""), K("hashbad", ""), K("hashlen", ""),
              K("meta", "kh"), K("meta", "km"), K("meta", "kt"), K("meta2", "kh"), K("metabad", ""), K("q", ""), K("qq", ""),
              K("coll", ""), K("collall", "")}

Get1(verb, kr)  == [Base(verb) EXCEPT !.keys = <<kr>>]
GetN(verb, krs) == [Base(verb) EXCEPT !.keys = krs]

GetCmds ==
  {Get1("get", kr) : kr \in GetKeys} \cup {Get1("gets", kr) : kr \in {K("plain", "kh"), K("plain", "km"), K("dir17", "")}}
  \cup {GetN("get", <<K("plain", "kh"), kr>>) : kr \in {K("plain", "km"), K("plain", "kt"), K("q", ""), K("dir17", ""), K("long", ""), K("meta", "kh"), K("hashbad", "")}}
  \cup {GetN("get", <<K("dir17", ""), K("plain", "kh")>>), GetN("get", <<K("plain", "kh"), K("plain", "kh")>>),
        GetN("get", <<K("plain", "kh"), K("plain", "km"), K("plain", "kt")>>)}
  \cup {Flt(Base("get"), "tokens"), Flt(Get1("get", K("plain", "kh")), "lfonly"), WithCut(Get1("get", K("plain", "kh")), "line")}

SetBase == St("set", K("plain", "km"), "small")
StoreCmds ==
  \* verbs x noreply
  {St(v, K("plain", "km"), "small") : v \in StoreVerbs} \cup {Nr(St(v, K("plain", "km"), "small")) : v \in StoreVerbs}
  \cup {St(v, K("plain", "kh"), "gtc") : v \in {"set", "append", "prepend"}}
  \* keys
  \cup {St("set", kr, "small") : kr \in PlainKeys \cup OddKeys} \cup {St("set", K("unserved", ""), "gtc")}
  \cup {St("set", K("plain", "kl"), "z"), St("set", K("plain", "kl"), "small"), Nr(St("add", K("plain", "kl"), "z"))}
  \* sizes
  \cup {St("set", K("plain", "km"), sz) : sz \in {"z", "small", "eqc", "gtc", "big", "huge"}}
  \cup {Nr(St("set", K("plain", "km"), sz)) : sz \in {"big", "huge"}} \cup {St("append", K("plain", "km"), "huge")}
  \* content
  \cup {[SetBase EXCEPT !.content = ct, !.vid = "v:" \o ct] : ct \in {"crlf", "nul"}}
  \* numbers
  \cup {Num(SetBase, f, cl) : f \in {"flags", "exptime", "bytes"}, cl \in {"nonnum", "neg", "over"}}
  \cup {Num(SetBase, "bytes", "negwrap"), Num(SetBase, "flags", "resv"), Num(St("cas", K("plain", "km"), "small"), "cas", "nonnum"),
        [Num(SetBase, "exptime", "rev") EXCEPT !.rev = 7], [Num(St("set", K("plain", "kh"), "small"), "exptime", "rev") EXCEPT !.rev = 1],
        Num(St("set", K("plain", "kh"), "gtc"), "exptime", "neg"), Nr(Num(SetBase, "exptime", "neg")),
        Num(St("set", K("plain", "kh"), "small"), "flags", "resv")}
  \* framing faults
  \cup {Flt(SetBase, f) : f \in {"lfonly", "tokens", "extra", "badterm", "bodyshort"}}
  \cup {Flt(St("set", K("plain", "km"), "gtc"), f) : f \in {"badterm", "bodyshort"}}
  \cup {WithCut(SetBase, "line"), WithCut(SetBase, "body"), WithCut(St("set", K("plain", "km"), "gtc"), "body"),
        WithCut(St("set", K("plain", "km"), "huge"), "body"), WithCut(Flt(SetBase, "tokens"), "body"),
        WithCut(St("append", K("plain", "km"), "small"), "body")}

Del(kr) == [Base("delete") EXCEPT !.keys = <<kr>>]
DeleteCmds ==
  {Del(kr) : kr \in PlainKeys \cup OddKeys} \cup {Nr(Del(K("plain", "kh"))), Nr(Del(K("plain", "km")))}
  \cup {Flt(Base("delete"), "tokens"), Flt(Del(K("plain", "kh")), "extra"), Flt(Del(K("plain", "kh")), "lfonly"), Flt(Del(K("plain", "kh")), "tok4"),
        WithCut(Del(K("plain", "kh")), "line")}

Inc(verb, kr, d) == [Base(verb) EXCEPT !.keys = <<kr>>, !.delta = d]
IncrCmds ==
  {Inc("incr", kr, 5) : kr \in PlainKeys \cup OddKeys} \cup {Nr(Inc("incr", K("plain", "km"), 5)), Inc("incr", K("plain", "km"), -3)}
  \cup {Num(Inc("incr", K("plain", "km"), 0), "delta", cl) : cl \in {"nonnum", "over"}}
  \cup {Nr(Num(Inc("incr", K("plain", "km"), 0), "delta", "nonnum"))}
  \cup {Flt(Inc("incr", K("plain", "km"), 5), f) : f \in {"tokens", "extra", "lfonly", "tok4"}}
  \cup {Inc("decr", K("plain", "km"), 5), Nr(Inc("decr", K("plain", "km"), 5)), Num(Inc("decr", K("plain", "km"), 0), "delta", "nonnum"),
        Flt(Inc("decr", K("plain", "km"), 5), "tokens")}

OtherCmds ==
  {Base(v) : v \in {"stats", "version", "verbosity", "flush_all", "quit", "optimize_stat", "unknown", "empty", "garbage"}}
  \cup {Flt(Base(v), "extra") : v \in {"stats", "version", "verbosity", "flush_all", "quit"}}
  \cup {Flt(Base("version"), "lfonly"), WithCut(Base("version"), "line")}

Full == GetCmds \cup StoreCmds \cup DeleteCmds \cup IncrCmds \cup OtherCmds

\* one representative per behaviour class: enough to reach every branch of the decision procedure that
\* touches tokens, buffers or framing (used for the longer / two-connection configurations)
Core ==
  {Get1("get", K("plain", "kh")), Get1("get", K("dir17", "")), GetN("get", <<K("plain", "kh"), K("dir17", "")>>),
   Get1("get", K("meta", "kh")), Get1("get", K("long", "")),
   SetBase, St("set", K("plain", "kh"), "gtc"), Nr(SetBase), St("set", K("plain", "km"), "big"), St("set", K("plain", "km"), "huge"),
   St("set", K("ctrl", ""), "small"), St("append", K("plain", "km"), "gtc"), St("prepend", K("plain", "km"), "small"),
   St("set", K("plain", "kl"), "z"),
   Num(SetBase, "flags", "nonnum"), Num(SetBase, "exptime", "neg"), Num(SetBase, "bytes", "negwrap"), Num(SetBase, "flags", "resv"),
   Flt(SetBase, "badterm"), Flt(SetBase, "bodyshort"), WithCut(SetBase, "body"), WithCut(SetBase, "line"),
   Del(K("plain", "kh")), Del(K("unserved", "")), Inc("incr", K("plain", "km"), 5), Inc("incr", K("plain", "kh"), 5),
   Inc("incr", K("plain", "kt"), 5), Num(Inc("incr", K("plain", "km"), 0), "delta", "nonnum"), Inc("decr", K("plain", "km"), 5),
   Base("version"), Base("quit"), Base("unknown"), Base("empty")}

Tok ==
  {Get1("get", K("plain", "kh")), Get1("get", K("dir17", "")), SetBase, St("set", K("plain", "km"), "gtc"),
   WithCut(SetBase, "body"), Flt(SetBase, "badterm"), St("append", K("plain", "km"), "small"),
   Inc("incr", K("plain", "km"), 5), Inc("decr", K("plain", "km"), 5), Base("version"), Base("quit")}

Alphabet == IF Alpha = "full" THEN Full ELSE IF Alpha = "core" THEN Core ELSE Tok

ValidScript(sq) ==
  /\ \A i \in 1..(Len(sq) - 1) : sq[i].cut = "none" /\ ~(sq[i].fault = "bodyshort" /\ sq[i + 1].verb = "empty")

Scripts == {sq \in UNION {[1..n -> Alphabet] : n \in 0..MaxLen} : ValidScript(sq)}

Ref0 == [k \in KeyNames |->
           IF k = "kh" THEN [st |-> "live", vid |-> "v0", flag |-> 7, ver |-> 1, len |-> 5, isnum |-> FALSE, num |-> 0, disk |-> FALSE]
           ELSE IF k = "kt" THEN [NoRef EXCEPT !.st = "tomb", !.ver = -2]
           ELSE NoRef]
State0(g) == [ref |-> Ref0, backlog |-> g, junk |-> FALSE, fresh |-> TRUE,
              cf |-> [oomgate |-> g, bodyc |-> BC, bodybig |-> BB, bodymax |-> BM, disk |-> FALSE]]

MCInit == \E scripts \in [Conns -> Scripts], g \in OomGates : MInit(scripts, State0(g))
MCSpec == MCInit /\ [][MNext]_mvars

\* the alphabet for the orchestrator
ASSUME PrintAlpha => PrintT(<<"VERIF-ALPHABET", ToJson(Full)>>)
=============================================================================
