----------------------------- MODULE Gen_Codec -----------------------------
(***************************************************************************)
(* TLC as the GENERATOR of reference vectors (use b of DESIGN.md section 2)*)
(* for C16 and the layout clause of C09.  Evaluating the ASSUME writes     *)
(* vectors.ndjson: one line per case with the input and the values the     *)
(* reference definitions of Codec.tla give for it.                         *)
(*                                                                         *)
(*  short   ALL byte strings of length 0..4 over the alphabet              *)
(*          {00, 01, 61, 7f, 80, fe, ff} (2801 strings; bytes >= 0x80 in   *)
(*          every position exercise the signed-byte quirk of the FNV)      *)
(*  input   the byte strings of inputs.ndjson (written by the orchestrator *)
(*          from VERIF_SEED: lengths 0..300, around 512/1024/1536/4096,    *)
(*          long CRC inputs); what = "all" | "crc" | "idx" (also report    *)
(*          which CRC table entries the input uses)                        *)
(*  layout  small records enumerated here (keys of 1..3 bytes, values of   *)
(*          0..5 bytes, flags / versions / timestamps at the corners of    *)
(*          their ranges), records whose size lies on either side of each  *)
(*          block boundary up to three blocks, and the records of          *)
(*          inputs.ndjson with k = "layout"                                *)
(* Shard s of NShards takes the cases whose running number is s mod NShards*)
(***************************************************************************)
EXTENDS Codec, Json, TLC, FiniteSets

CONSTANTS Shard, NShards,
          DoShort,      \* enumerate the 2801 short strings
          DoLayout,     \* 0, 1, 2: which layout cases to enumerate (see LayoutVecs)
          PatSeed       \* seed of the byte pattern used for enumerated values

Inputs == ndJsonDeserialize("inputs.ndjson")

Alphabet == <<0, 1, 97, 127, 128, 254, 255>>
ShortStr(len, idx) == [p \in 1..len |-> Alphabet[((idx \div (7 ^ (p - 1))) % 7) + 1]]
\* number j in 0..2800 -> string: 1 + 7 + 49 + 343 + 2401
ShortOf(j) == IF j < 1 THEN ShortStr(0, 0)
              ELSE IF j < 8 THEN ShortStr(1, j - 1)
              ELSE IF j < 57 THEN ShortStr(2, j - 8)
              ELSE IF j < 400 THEN ShortStr(3, j - 57)
              ELSE ShortStr(4, j - 400)
NShort == 2801

HashVec(T, id, s, what) ==
  LET all == what # "crc" IN
  [k |-> "hash", id |-> id, what |-> what, bytes |-> s,
   fnv |-> IF all THEN Fnv1aSigned(s) ELSE Zero32,
   mur |-> IF all THEN Murmur3_32(s) ELSE Zero32,
   vh  |-> IF all THEN VHash(s) ELSE 0,
   crc |-> CRC32T(T, s),
   idx |-> IF what = "idx" THEN CrcIndicesT(T, s) ELSE {}]

Mine(j) == j % NShards = Shard

\* [j \in S |-> F(j)] as a sequence in increasing j
MapSet(S, F(_)) == LET J == SetToSortSeq(S, <) IN [i \in 1..Len(J) |-> F(J[i])]

ShortVecs(T) == IF DoShort THEN MapSet({j \in 0..(NShort - 1) : Mine(j)}, LAMBDA j : HashVec(T, "s" \o ToString(j), ShortOf(j), "all"))
             ELSE <<>>
InputVecs(T) == MapSet({j \in 1..Len(Inputs) : Inputs[j].k = "hash" /\ Mine(j)},
                    LAMBDA j : HashVec(T, Inputs[j].id, Inputs[j].bytes, Inputs[j].what))

-----------------------------------------------------------------------------
Pat(n, salt) == [i \in 1..n |-> (i * 167 + (i \div 7) * 13 + salt * 31 + PatSeed) % 256]
KeyOf(ksz, salt) == [i \in 1..ksz |-> 33 + ((i * 7 + salt + PatSeed) % 94)]      \* printable, no space

Word(hi, lo) == <<hi, lo>>
Flags == <<Word(0, 0), Word(0, 16), Word(1, 0), Word(65535, 65535)>>          \* 0, client-compress, compress, all ones
Vers  == <<Word(0, 1), Word(65535, 65535), Word(32767, 65535), Word(32768, 0)>> \* 1, -1, 2^31-1, -2^31
Tss   == <<Word(0, 0), Word(0, 1), Word(32768, 0), Word(65535, 65535)>>         \* 0, 1, 2^31, 2^32-1
SmallKeys == <<<<97>>, <<255, 33>>, <<107, 1, 128>>>>

RecOf(key, val, flag, ver, ts) == [key |-> key, val |-> val, flag |-> flag, ver |-> ver, ts |-> ts]
LayoutVec(T, id, recs) ==
  [k |-> "layout", id |-> id, recs |-> recs,
   images |-> [i \in 1..Len(recs) |-> RecordImageT(T, recs[i].key, recs[i].val, recs[i].flag, recs[i].ver, recs[i].ts)]]

\* small records: one file per (key, value length, flag) holding the 16 (ver, ts) combinations
SmallCase(T, j) ==         \* j in 0..71
  LET ki == (j % 3) + 1
      vl == (j \div 3) % 6
      fi == (j \div 18) + 1
  IN  LayoutVec(T, "ls" \o ToString(j),
                [c \in 1..16 |-> RecOf(SmallKeys[ki], Pat(vl, j + c), Flags[fi], Vers[((c - 1) % 4) + 1], Tss[((c - 1) \div 4) + 1])])
\* block boundaries: total size (header + key + value) on either side of 256, 512, 768, three key sizes
Totals == <<255, 256, 257, 511, 512, 513, 767, 768, 769>>
Kszs   == <<1, 17, 250>>
BoundCase(T, j) ==         \* j in 0..8 : one file with the three key sizes, preceded and followed by a small record
  LET t == Totals[j + 1] IN
  LayoutVec(T, "lb" \o ToString(j),
            <<RecOf(<<98>>, <<>>, Word(0, 0), Word(0, 1), Word(0, 5))>>
            \o [c \in 1..3 |-> RecOf(KeyOf(Kszs[c], j), Pat(t - 24 - Kszs[c], j * 3 + c), Word(0, j), Word(0, c), Word(1, j))]
            \o <<RecOf(<<99>>, <<7>>, Word(0, 0), Word(0, 2), Word(0, 6))>>)

\* DoLayout: 0 = only the records of inputs.ndjson, 1 = + block boundaries, 2 = + the small records
LayoutVecs(T) == (IF DoLayout >= 2 THEN MapSet({j \in 0..71 : Mine(j)}, LAMBDA j : SmallCase(T, j)) ELSE <<>>)
                 \o (IF DoLayout >= 1 THEN MapSet({j \in 0..8 : Mine(j)}, LAMBDA j : BoundCase(T, j)) ELSE <<>>)
                 \o MapSet({j \in 1..Len(Inputs) : Inputs[j].k = "layout" /\ Mine(j)},
                           LAMBDA j : LayoutVec(T, Inputs[j].id, Inputs[j].recs))

\* the CRC table is computed once (LET) and handed to every case
ASSUME LET T == CrcTable IN ndJsonSerialize("vectors.ndjson", ShortVecs(T) \o InputVecs(T) \o LayoutVecs(T))
=============================================================================
