------------------------------ MODULE HintFile ------------------------------
(***************************************************************************)
(* Property C14 - hint files: faithful round-trip, total lookup, correct   *)
(* merge (DESIGN.md section 6, C14).                                       *)
(*                                                                         *)
(* A hint split on disk is                                                 *)
(*    header(16 B) | items sorted by (hash, key) | sparse index            *)
(*    header = [indexOffset, numKey, datasize]                             *)
(*    item   = 23 B head + key bytes                                       *)
(*    index  = one 16 B entry (hash, fileOffset) per item whose distance   *)
(*             from the last indexed item exceeds the interval             *)
(*                                                                         *)
(* This module is pure (no variables).  It contains                        *)
(*  - the SPECIFICATION side: Sorted, DumpSpec, Present, MergeSpec,        *)
(*    CollisionsSpec (declarative; what the property text says), and       *)
(*  - the TRANSCRIPTION side: Dump (hintFileWriter.writeItem/close),       *)
(*    ReadAll (hintFileReader.next), Lookup (hintFileIndex.get),           *)
(*    MergeCode (merge() heap + mergeWriter.write/flush),                  *)
(*    written the way the code does it, with switches (Mut) for the way    *)
(*    the code does it WRONG (F1) and for the code mutants of the notes.   *)
(* The properties C14_* relate the two sides; MC_HintFile checks them      *)
(* exhaustively over small abstract files, Trace_HintFile checks the       *)
(* specification side against observations of the real code.               *)
(*                                                                         *)
(* Hashes and keys are abstract ordered values: the instantiating module   *)
(* supplies the orders (small ints in MC, 64-bit limb triples and Go       *)
(* strings in traces).                                                     *)
(***************************************************************************)
EXTENDS Integers, Sequences, FiniteSets, SequencesExt

CONSTANTS HLt(_, _),   \* strict total order on key hashes (uint64 <)
          KLt(_, _),   \* strict total order on keys (Go string <, bytewise)
          KLen(_),     \* length of a key in bytes (1..250)
          PLt(_, _),   \* strict order on positions of items: (chunk, offset) lexicographic = Position.CmpKey
          Mut          \* set of switches: "F1" = code as it is today; others = code mutants (self-test)

HeadSize  == 16        \* HINTFILE_HEAD_SIZE
ItemHead  == 23        \* HINTITEM_HEAD_SIZE
IdxEntry  == 16
Slack     == ItemHead + 256   \* writeItem: Conf.IndexIntervalSize - HINTITEM_HEAD_SIZE - 256
Threshold(intervalSize) == intervalSize - Slack

\* an item is a record [h, k, c, o, v, vh]: hash, key, chunk, offset, version, value hash
ISize(it)     == ItemHead + KLen(it.k)
SameKey(a, b) == a.h = b.h /\ a.k = b.k
ItLt(a, b)    == HLt(a.h, b.h) \/ (a.h = b.h /\ KLt(a.k, b.k))     \* byKeyHash.Less
SeqRange(s)      == {s[i] : i \in DOMAIN s}
StrictlySorted(s) == \A i \in 1..Len(s) - 1 : ItLt(s[i], s[i + 1])

-----------------------------------------------------------------------------
(* SPECIFICATION SIDE                                                      *)

\* a hint buffer is [items: set of items with pairwise different (h,k), maxoff]
RECURSIVE SortSet(_)
SortSet(S) == IF S = {} THEN <<>>
              ELSE LET m == CHOOSE x \in S : \A y \in S \ {x} : ItLt(x, y)
                   IN <<m>> \o SortSet(S \ {m})
Sorted(S) == SortSet(S)

\* what reading a dumped buffer back must yield
DumpSpec(buf) == [items |-> Sorted(buf.items), datasize |-> buf.maxoff]

\* lookup: the item with that (hash, key) if the file has one
Present(items, h, k) == {it \in items : it.h = h /\ it.k = k}
LookupSpec(items, h, k) ==
  IF Present(items, h, k) = {} THEN [res |-> "none"]
  ELSE [res |-> "found", it |-> CHOOSE it \in Present(items, h, k) : TRUE]

\* merge: a source file is [chunk, items (sequence), datasize]; an item read from source
\* file f is positioned in f's chunk (merge() overwrites Pos.ChunkID with the reader's chunk)
Positioned(f) == {[f.items[i] EXCEPT !.c = f.chunk] : i \in 1..Len(f.items)}
AllItems(files) == UNION {Positioned(files[i]) : i \in DOMAIN files}
Latest(U) == {x \in U : \A y \in U : SameKey(x, y) => ~PLt(x, y)}
MergeSpec(files) == Sorted(Latest(AllItems(files)))
\* every hash carried by >= 2 different keys: all of its latest items
CollisionsSpec(files) ==
  LET M == Latest(AllItems(files)) IN {x \in M : \E y \in M : y.h = x.h /\ y.k # x.k}
MaxDatasize(files, DLt(_, _), zero) ==
  LET D == {files[i].datasize : i \in DOMAIN files} \cup {zero}
  IN CHOOSE d \in D : \A e \in D : ~DLt(d, e)

-----------------------------------------------------------------------------
(* TRANSCRIPTION SIDE: writer                                              *)

\* hintFileWriter.writeItem over a sequence of items, then close():
\*   file = [items, at (start offset of each item), idx, indexOffset, n, datasize, size]
WriteFile(its, datasize, T) ==
  LET step(st, it) ==
        LET ix == (st.off - st.last) > T
            eo == IF "IdxMid" \in Mut THEN st.off + 1 ELSE st.off      \* mutant: entry points into the item
        IN [off  |-> st.off + ISize(it),
            last |-> IF ix THEN st.off ELSE st.last,
            idx  |-> IF ix THEN Append(st.idx, [h |-> it.h, off |-> eo]) ELSE st.idx,
            at   |-> Append(st.at, st.off)]
      r == FoldLeft(step, [off |-> HeadSize, last |-> 0, idx |-> <<>>, at |-> <<>>], its)
  IN [items |-> its, at |-> r.at, idx |-> r.idx, indexOffset |-> r.off, n |-> Len(its),
      datasize |-> datasize, size |-> r.off + IdxEntry * Len(r.idx)]

\* HintBuffer.Dump: sort the slots by (hash, key), write them
Dump(buf, T) == WriteFile(Sorted(buf.items), buf.maxoff, T)

\* the index rule alone, for a given item sequence (used to compare a real index: drift)
IndexOf(its, T) == WriteFile(its, 0, T).idx

-----------------------------------------------------------------------------
(* TRANSCRIPTION SIDE: sequential reader (hintFileReader.open / next)      *)

ItemAt(f, p) == LET I == {i \in 1..Len(f.at) : f.at[i] = p}
                IN IF I = {} THEN <<>> ELSE <<f.items[CHOOSE i \in I : TRUE]>>

RECURSIVE ReadFrom(_, _, _)
ReadFrom(f, p, acc) ==
  IF p >= f.indexOffset THEN [err |-> FALSE, items |-> acc]
  ELSE IF ItemAt(f, p) = <<>> THEN [err |-> TRUE, items |-> acc]
  ELSE LET it == ItemAt(f, p)[1] IN ReadFrom(f, p + ISize(it), Append(acc, it))
ReadAll(f) == ReadFrom(f, HeadSize, <<>>)

-----------------------------------------------------------------------------
(* TRANSCRIPTION SIDE: hintFileIndex.get                                   *)

\* sort.Search(len(arr), arr[i].keyhash >= keyhash): 0-based position of the first entry >= h
SearchIdx(idx, h) ==
  LET C == {j \in 0..Len(idx) - 1 : ~HLt(idx[j + 1].h, h)}
  IN IF C = {} THEN Len(idx) ELSE CHOOSE j \in C : \A i \in C : j <= i

\* `if j > 1 { offset = arr[j-1].offset }` - the j = 1 case starts at 16 (harmless quirk)
StartOffset(idx, h) ==
  LET j == SearchIdx(idx, h) IN
  IF "StartAtJ" \in Mut                                  \* mutant: start AT the first entry >= h
    THEN (IF j < Len(idx) THEN idx[j + 1].off ELSE IF j > 0 THEN idx[j].off ELSE HeadSize)
  ELSE IF j > 1 THEN idx[j].off ELSE HeadSize            \* 1-based idx[j] = 0-based arr[j-1]

\* the loop of get(): p = physical file position, lo = reader.offset (the "logical" offset that
\* next() compares with indexOffset).  A correct reader has lo = p.  Today's code (F1) seeks to
\* `offset` but leaves reader.offset = 16, so lo lags by (offset - 16): the loop does not stop at
\* the end of the item region, the index entries are parsed as items and the read ends in
\* io.ErrUnexpectedEOF / io.EOF (abstracted here as "err"; whenever a garbage hash happens to
\* compare greater than h the real code stops with "none" by luck - impossible for h = 2^64-1).
RECURSIVE Scan(_, _, _, _, _)
Scan(f, h, k, p, lo) ==
  IF lo >= f.indexOffset THEN [res |-> "none"]
  ELSE IF p >= f.indexOffset THEN [res |-> "err"]
  ELSE IF ItemAt(f, p) = <<>> THEN [res |-> "err"]        \* inside an item: garbage
  ELSE LET it == ItemAt(f, p)[1]
           np == p + ISize(it)
           nl == lo + ISize(it)
       IN IF HLt(it.h, h) THEN Scan(f, h, k, np, nl)
          ELSE IF HLt(h, it.h) THEN [res |-> "none"]
          ELSE IF it.k = k THEN [res |-> "found", it |-> it]
          ELSE Scan(f, h, k, np, nl)

Lookup(f, h, k) ==
  LET s == StartOffset(f.idx, h)
  IN Scan(f, h, k, s, IF "F1" \in Mut THEN HeadSize ELSE s)

\* closed form of "today's get() runs past the item region" (signature of finding F1):
\* the scan starts at an index entry (j > 1), the key is absent, and no item has a greater hash
F1Signature(its, idx, h, k) ==
  /\ SearchIdx(idx, h) > 1
  /\ \A i \in 1..Len(its) : ~(its[i].h = h /\ its[i].k = k)
  /\ (Len(its) > 0 => ~HLt(h, its[Len(its)].h))

-----------------------------------------------------------------------------
(* TRANSCRIPTION SIDE: merge()                                             *)

\* mergeHeap.Less
HeapLess(a, b) ==
  IF a.h # b.h THEN HLt(a.h, b.h)
  ELSE IF a.k # b.k THEN KLt(a.k, b.k)
  ELSE IF "OlderWins" \in Mut THEN PLt(b, a) ELSE PLt(a, b)

\* the order in which heap.Pop delivers the items of the sources (every source non-empty: the
\* code dereferences the first item of each source before testing it - ASSUMPTION of C14)
RECURSIVE PopOrder(_, _)
PopOrder(files, cur) ==
  LET live == {i \in DOMAIN files : cur[i] <= Len(files[i].items)}
      hd(i) == [files[i].items[cur[i]] EXCEPT !.c = files[i].chunk]
  IN IF live = {} THEN <<>>
     ELSE LET m == CHOOSE i \in live : \A j \in live \ {i} : ~HeapLess(hd(j), hd(i))
          IN <<hd(m)>> \o PopOrder(files, [cur EXCEPT ![m] = @ + 1])

\* mergeWriter.write / flush: buf holds the items of one hash with different keys
MWFlush(st) ==
  [buf |-> <<>>,
   out |-> st.out \o st.buf,
   ct  |-> IF Len(st.buf) > 1
             THEN st.ct \cup (IF "Group2" \in Mut THEN {st.buf[i] : i \in 1..2} ELSE SeqRange(st.buf))
             ELSE st.ct]
MWWrite(st, it) ==
  IF st.buf = <<>> THEN [st EXCEPT !.buf = <<it>>]
  ELSE LET last == st.buf[Len(st.buf)] IN
       IF last.h # it.h THEN [MWFlush(st) EXCEPT !.buf = <<it>>]
       ELSE IF last.k # it.k THEN [st EXCEPT !.buf = Append(@, it)]
       ELSE IF "FirstWins" \in Mut THEN st
       ELSE [st EXCEPT !.buf[Len(st.buf)] = it]
MergeCode(files) ==
  LET s == PopOrder(files, [i \in DOMAIN files |-> 1])
      r == MWFlush(FoldLeft(MWWrite, [buf |-> <<>>, out |-> <<>>, ct |-> {}], s))
  IN [out |-> r.out, ct |-> r.ct]

-----------------------------------------------------------------------------
(* PROPERTIES (over one buffer / one file / a family of files)             *)

\* positions of the same key must differ between sources (one record = one key at one place)
NoTies(files) == \A x, y \in AllItems(files) : (SameKey(x, y) /\ x # y) => (PLt(x, y) \/ PLt(y, x))

C14_RoundTrip(buf, T) ==
  LET f == Dump(buf, T)
      r == ReadAll(f)
  IN /\ ~r.err
     /\ r.items = DumpSpec(buf).items
     /\ StrictlySorted(r.items)
     /\ f.datasize = DumpSpec(buf).datasize
     /\ f.n = Cardinality(buf.items)

\* for EVERY (h,k) of the universe Q: found <=> present, never an error
C14_Lookup(items, T, Q) ==
  LET f == WriteFile(Sorted(items), 0, T)
  IN \A q \in Q : Lookup(f, q[1], q[2]) = LookupSpec(items, q[1], q[2])

C14_Merge(files) ==
  NoTies(files) =>
    LET m == MergeCode(files)
    IN /\ m.out = MergeSpec(files)
       /\ m.ct = CollisionsSpec(files)

\* the closed form used to tag known finding F1 in traces is exactly "today's get() errs"
F1_Exact(items, T, Q) ==
  "F1" \in Mut =>
    LET f == WriteFile(Sorted(items), 0, T)
    IN \A q \in Q : (Lookup(f, q[1], q[2]).res = "err") <=> F1Signature(f.items, f.idx, q[1], q[2])
=============================================================================
