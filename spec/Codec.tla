------------------------------- MODULE Codec -------------------------------
(***************************************************************************)
(* INDEPENDENT reference definitions of the numeric functions whose values *)
(* gobeansdb stores on disk and compares between replicas (C16), and of    *)
(* the data-record image (C09 layout clause):                              *)
(*                                                                         *)
(*   Fnv1aSigned   the historical beansdb "FNV-1a over SIGNED bytes"       *)
(*   Murmur3_32    MurmurHash3_x86_32, seed 0, from the published algorithm*)
(*   KeyHash       64-bit key hash  = Fnv1aSigned (high) o Murmur3 (low)   *)
(*   VHash         16-bit value hash                                       *)
(*   CRC32         CRC-32 IEEE 802.3, reflected, polynomial 0xEDB88320,    *)
(*                 the 256-entry table is DERIVED here from the polynomial *)
(*   RecordImage   24-byte little-endian header crc|ts|flag|ver|ksz|vsz,   *)
(*                 key, value, zero padding to a multiple of 256           *)
(*                                                                         *)
(* Nothing here is copied from /repo: the definitions are written from the *)
(* published algorithms and the beansdb file-format description.           *)
(*                                                                         *)
(* TLC integers are 32-bit signed Java ints and TLC raises an error on     *)
(* overflow, so an unsigned 32-bit word is a pair <<hi, lo>> of 16-bit     *)
(* limbs and every intermediate product stays below 2^31.  Byte strings    *)
(* are sequences of 0..255.                                                *)
(***************************************************************************)
EXTENDS Naturals, Sequences, Bitwise, SequencesExt

M16 == 65536
M8  == 256

W(hi, lo)  == <<hi, lo>>
Hi(x)      == x[1]
Lo(x)      == x[2]
IsU32(x)   == /\ x \in Seq(Nat) /\ Len(x) = 2 /\ x[1] < M16 /\ x[2] < M16
FromNat(n) == <<(n \div M16) % M16, n % M16>>        \* n < 2^31
Zero32     == <<0, 0>>
Ones32     == <<65535, 65535>>

Xor32(a, b) == <<a[1] ^^ b[1], a[2] ^^ b[2]>>
Add32(a, b) == LET s == a[2] + b[2] IN <<(a[1] + b[1] + (s \div M16)) % M16, s % M16>>

\* unsigned comparison
Lt32(a, b)  == a[1] < b[1] \/ (a[1] = b[1] /\ a[2] < b[2])
Le32(a, b)  == a = b \/ Lt32(a, b)

\* x * y for 16-bit x, y as a 32-bit word; no intermediate reaches 2^31
Mul16(x, y) ==
  LET u == x * (y \div M8)            \* < 2^24
      v == x * (y % M8)               \* < 2^24
      w == (u % M8) * M8 + v          \* < 2^25 ;  x*y = (u \div 256) * 2^16 + w
  IN  <<(u \div M8) + (w \div M16), w % M16>>
\* low 16 bits of x * y
Mul16lo(x, y) == ((((x * (y \div M8)) % M8) * M8) + x * (y % M8)) % M16

\* a * b mod 2^32
Mul32(a, b) ==
  LET p == Mul16(a[2], b[2])
  IN  <<(p[1] + Mul16lo(a[1], b[2]) + Mul16lo(a[2], b[1])) % M16, p[2]>>

\* shifts and rotation, 0 <= n < 32
Shl32(a, n) ==
  IF n = 0 THEN a
  ELSE IF n >= 16 THEN <<(a[2] * 2^(n - 16)) % M16, 0>>
  ELSE LET l == a[2] * 2^n IN <<(((a[1] * 2^n) % M16) + (l \div M16)) % M16, l % M16>>
Shr32(a, n) ==
  IF n = 0 THEN a
  ELSE IF n >= 16 THEN <<0, a[1] \div 2^(n - 16)>>
  ELSE <<a[1] \div 2^n, (a[2] \div 2^n) + (a[1] % 2^n) * 2^(16 - n)>>
\* the two halves have disjoint bits, so OR is +
Rotl32(a, n) == LET x == Shl32(a, n) y == Shr32(a, 32 - n) IN <<x[1] + y[1], x[2] + y[2]>>

\* little-endian bytes of a word and back
Bytes32(a)          == <<a[2] % M8, a[2] \div M8, a[1] % M8, a[1] \div M8>>
LE32(b0, b1, b2, b3) == <<b3 * M8 + b2, b1 * M8 + b0>>

-----------------------------------------------------------------------------
(* FNV-1a, 32 bit, with the historical quirk: each byte is taken as a SIGNED *)
(* char and sign-extended to 32 bits before the XOR.                         *)
FnvInit  == <<33052, 40389>>     \* 0x811c9dc5
FnvPrime == <<256, 403>>         \* 0x01000193
SignExt(b) == IF b < 128 THEN <<0, b>> ELSE <<65535, 65280 + b>>      \* 0xFFFFFF00 + b
Fnv1aSigned(s) == FoldLeft(LAMBDA h, b : Mul32(Xor32(h, SignExt(b)), FnvPrime), FnvInit, s)

-----------------------------------------------------------------------------
(* MurmurHash3_x86_32 (Austin Appleby, public domain), seed 0.               *)
MurC1 == <<52382, 11601>>        \* 0xcc9e2d51
MurC2 == <<7047, 13715>>         \* 0x1b873593
MurN  == <<58964, 27492>>        \* 0xe6546b64
MurF1 == <<34283, 51819>>        \* 0x85ebca6b
MurF2 == <<49842, 44597>>        \* 0xc2b2ae35

MurK(k)       == Mul32(Rotl32(Mul32(k, MurC1), 15), MurC2)
MurBlock(h, k) == Add32(Mul32(Rotl32(Xor32(h, MurK(k)), 13), <<0, 5>>), MurN)
Fmix32(h0) ==
  LET h1 == Xor32(h0, Shr32(h0, 16))
      h2 == Mul32(h1, MurF1)
      h3 == Xor32(h2, Shr32(h2, 13))
      h4 == Mul32(h3, MurF2)
  IN  Xor32(h4, Shr32(h4, 16))

Murmur3_32(s) ==
  LET n    == Len(s)
      nb   == n \div 4
      body == FoldLeft(LAMBDA h, i : MurBlock(h, LE32(s[4 * i - 3], s[4 * i - 2], s[4 * i - 1], s[4 * i])),
                       Zero32, [i \in 1..nb |-> i])
      t    == 4 * nb                  \* tail bytes are s[t+1 .. n]
      r    == n % 4
      k    == IF r = 3 THEN LE32(s[t + 1], s[t + 2], s[t + 3], 0)
              ELSE IF r = 2 THEN LE32(s[t + 1], s[t + 2], 0, 0)
              ELSE IF r = 1 THEN LE32(s[t + 1], 0, 0, 0) ELSE Zero32
      h1   == IF r = 0 THEN body ELSE Xor32(body, MurK(k))
  IN  Fmix32(Xor32(h1, FromNat(n)))

\* the 64-bit key hash as four 16-bit limbs, most significant first
KeyHash(s) == Fnv1aSigned(s) \o Murmur3_32(s)

-----------------------------------------------------------------------------
(* 16-bit value hash: len*97 + fnv(value) for short values, for values above *)
(* 1024 bytes (len*97 + fnv(first 512)) * 97 + fnv(last 512); 32-bit wrap,   *)
(* low 16 bits kept.  Len(v) < 2^24.                                         *)
VHash(v) ==
  LET n == Len(v)
      l97 == FromNat(n * 97)
  IN  IF n <= 1024 THEN Lo(Add32(l97, Fnv1aSigned(v)))
      ELSE Lo(Add32(Mul32(Add32(l97, Fnv1aSigned(SubSeq(v, 1, 512))), <<0, 97>>),
                    Fnv1aSigned(SubSeq(v, n - 511, n))))

-----------------------------------------------------------------------------
(* CRC-32 (IEEE 802.3), reflected: polynomial 0xEDB88320, initial value and  *)
(* final XOR 0xFFFFFFFF.  The table is derived from the polynomial.          *)
CrcPoly == <<60856, 33568>>      \* 0xEDB88320
CrcBit(c)   == IF c[2] % 2 = 1 THEN Xor32(Shr32(c, 1), CrcPoly) ELSE Shr32(c, 1)
CrcEntry(i) == CrcBit(CrcBit(CrcBit(CrcBit(CrcBit(CrcBit(CrcBit(CrcBit(<<0, i>>))))))))
CrcTable    == [i \in 0..255 |-> CrcEntry(i)]
CrcIndex(c, b)  == (c[2] % M8) ^^ b
(* The operators below take the table as an argument T (= CrcTable): whether TLC evaluates a constant *)
(* definition of an EXTENDed module once or at every use is not reliable, so specifications that     *)
(* compute many CRCs hold the table in a LET or in a variable and pass it down.                      *)
CrcByteT(T, c, b)   == Xor32(T[CrcIndex(c, b)], Shr32(c, 8))
CrcUpdateT(T, c, s) == FoldLeft(LAMBDA x, b : CrcByteT(T, x, b), c, s)
CRC32T(T, s)        == Xor32(CrcUpdateT(T, Ones32, s), Ones32)
CRC32(s)            == CRC32T(CrcTable, s)
\* the set of table indices an input exercises (evidence: all 256 entries were used)
CrcIndicesT(T, s) ==
  FoldLeft(LAMBDA st, b : <<CrcByteT(T, st[1], b), st[2] \cup {CrcIndex(st[1], b)}>>, <<Ones32, {}>>, s)[2]

-----------------------------------------------------------------------------
(* Data record image.  ts, flag, ver are 32-bit words (ver two's complement).*)
HeaderSize == 24
RecSizeReal(ksz, vsz) == HeaderSize + ksz + vsz
RecBlocks(ksz, vsz)   == (RecSizeReal(ksz, vsz) + 255) \div 256
Zeros(n) == [i \in 1..n |-> 0]
RecordBody(key, val, flag, ver, ts) ==
  Bytes32(ts) \o Bytes32(flag) \o Bytes32(ver) \o Bytes32(FromNat(Len(key))) \o Bytes32(FromNat(Len(val)))
    \o key \o val
RecordImageT(T, key, val, flag, ver, ts) ==
  LET body == RecordBody(key, val, flag, ver, ts)
      n    == 4 + Len(body)
  IN  Bytes32(CRC32T(T, body)) \o body \o Zeros(RecBlocks(Len(key), Len(val)) * 256 - n)
RecordImage(key, val, flag, ver, ts) == RecordImageT(CrcTable, key, val, flag, ver, ts)
=============================================================================
