----------------------------- MODULE Trace_Lock -----------------------------
(***************************************************************************)
(* Level-2 conformance of the WRITE PATH and the FLUSH PATH: the hook       *)
(* micro-events of concurrently running goroutines of the real store,      *)
(* ordered by the sequence number taken inside the hook, must follow the    *)
(* protocol that Bucket.tla's actions W_Lock .. W_Unlock and F_Lock ..      *)
(* F_End prescribe and that MC_Conc.tla's results rest on:                  *)
(*   - the bucket write lock is exclusive (the w.lock event is emitted      *)
(*     while holding the lock and w.unlock before releasing it, so two      *)
(*     overlapping [lock, unlock] intervals in the log prove that both      *)
(*     goroutines held it at once);                                         *)
(*   - under the lock: read-old, then append, then tree update, then hint   *)
(*     (W_ReadOld < W_Append < W_TreeSet < W_HintSet);                      *)
(*   - the flush lock is exclusive; snapshot < write < detach (F_Snap <     *)
(*     F_Write < F_Detach): the buffer prefix is detached only after it was *)
(*     written.                                                             *)
(* pc values are those of Bucket.tla.  Failures accumulate in `bad`.        *)
(***************************************************************************)
EXTENDS Integers, Sequences, FiniteSets, TLC, Json

CONSTANTS Procs

Trace == ndJsonDeserialize("trace.ndjson")

VARIABLES l, sid, bad, wowner, pc, fowner, fpc

vars == <<l, sid, bad, wowner, pc, fowner, fpc>>
Ev == Trace[l]
IsEv(a) == l <= Len(Trace) /\ Trace[l].a = a
Adv == l' = l + 1
Bad(name) == bad' = bad \cup {<<sid, Ev.n, name>>}

Init == /\ l = 1 /\ sid = "" /\ bad = {} /\ TLCSet(1, 1) /\ wowner = "" /\ fowner = ""
        /\ pc = [p \in Procs |-> "idle"] /\ fpc = [p \in Procs |-> "idle"]

TrReset == /\ IsEv("Reset") /\ Adv /\ sid' = Ev.sid /\ bad' = bad /\ wowner' = "" /\ fowner' = ""
           /\ pc' = [p \in Procs |-> "idle"] /\ fpc' = [p \in Procs |-> "idle"]

\* ---- write path (Bucket.tla: W_Lock, W_ReadOld, W_Append, W_TreeSet / W_TreeOnly, W_HintSet, W_Unlock)
TrWLock ==
  /\ IsEv("w.lock") /\ Adv /\ UNCHANGED <<sid, fowner, fpc>>
  /\ wowner' = Ev.p /\ pc' = [pc EXCEPT ![Ev.p] = "w_readold"]
  /\ IF wowner = "" THEN bad' = bad ELSE Bad("C04_WriteLockNotExclusive")

TrWReadOld ==
  /\ IsEv("w.readold") /\ Adv /\ UNCHANGED <<sid, wowner, fowner, fpc>>
  /\ pc' = [pc EXCEPT ![Ev.p] = "w_append"]
  /\ IF wowner = Ev.p /\ pc[Ev.p] = "w_readold" THEN bad' = bad ELSE Bad("C04_ReadOldOutsideLock")

TrWAppend ==
  /\ IsEv("w.append") /\ Adv /\ UNCHANGED <<sid, wowner, fowner, fpc>>
  /\ IF Ev.p \notin Procs \/ Ev.p = "gc" THEN UNCHANGED <<pc, bad>>
     ELSE IF wowner = Ev.p
       THEN /\ pc' = [pc EXCEPT ![Ev.p] = "w_treeset"]
            /\ IF pc[Ev.p] = "w_append" THEN bad' = bad ELSE Bad("C04_AppendOrder")
       ELSE \* incr appends without the write lock (documented); a locked writer must own the lock
            /\ pc' = [pc EXCEPT ![Ev.p] = "i_treeset"] /\ bad' = bad

TrTreeSet ==
  /\ IsEv("tree.set") /\ Adv /\ UNCHANGED <<sid, wowner, fowner, fpc>>
  /\ IF Ev.p \notin Procs \/ Ev.p = "gc" \/ Ev.p = "main" THEN UNCHANGED <<pc, bad>>
     ELSE IF wowner = Ev.p
       THEN /\ pc' = [pc EXCEPT ![Ev.p] = "w_hintset"]
            \* tree update only after the record was appended (or the check_vhash tree-only path straight after read-old)
            /\ IF pc[Ev.p] \in {"w_treeset", "w_append"} THEN bad' = bad ELSE Bad("C04_TreeSetOrder")
       ELSE /\ pc' = [pc EXCEPT ![Ev.p] = "i_hintset"]
            /\ IF pc[Ev.p] = "i_treeset" THEN bad' = bad ELSE Bad("C04_TreeSetOutsideLock")

TrHintSet ==
  /\ IsEv("hint.set") /\ Adv /\ UNCHANGED <<sid, wowner, fowner, fpc>>
  /\ IF Ev.p \notin Procs \/ Ev.p = "gc" \/ Ev.p = "main" THEN UNCHANGED <<pc, bad>>
     ELSE IF wowner = Ev.p
       THEN /\ pc' = [pc EXCEPT ![Ev.p] = "w_unlock"]
            /\ IF pc[Ev.p] = "w_hintset" THEN bad' = bad ELSE Bad("C04_HintSetOrder")
       ELSE pc' = [pc EXCEPT ![Ev.p] = "idle"] /\ bad' = bad

TrWUnlock ==
  /\ IsEv("w.unlock") /\ Adv /\ UNCHANGED <<sid, fowner, fpc>>
  /\ pc' = [pc EXCEPT ![Ev.p] = "idle"]
  /\ wowner' = IF wowner = Ev.p THEN "" ELSE wowner
  /\ IF wowner = Ev.p THEN bad' = bad ELSE Bad("C04_UnlockNotOwner")

\* ---- flush path (Bucket.tla: F_Lock, F_Snap, F_Write, F_Detach, F_End)
TrFLock ==
  /\ IsEv("f.lock") /\ Adv /\ UNCHANGED <<sid, wowner, pc>>
  /\ fowner' = Ev.p /\ fpc' = [fpc EXCEPT ![Ev.p] = "f_snap"]
  /\ IF fowner = "" THEN bad' = bad ELSE Bad("C04_FlushLockNotExclusive")
TrFSnap ==
  /\ IsEv("f.snap") /\ Adv /\ UNCHANGED <<sid, wowner, pc, fowner>>
  /\ IF Ev.gc THEN UNCHANGED <<fpc, bad>>
     ELSE /\ fpc' = [fpc EXCEPT ![Ev.p] = "f_write"]
          /\ IF fowner = Ev.p THEN bad' = bad ELSE Bad("C04_FlushOutsideLock")
TrFWritten ==
  /\ IsEv("f.written") /\ Adv /\ UNCHANGED <<sid, wowner, pc, fowner>>
  /\ fpc' = [fpc EXCEPT ![Ev.p] = "f_detach"]
  /\ IF fowner = Ev.p /\ fpc[Ev.p] = "f_write" THEN bad' = bad ELSE Bad("C04_FlushOrder")
TrFDetach ==
  /\ IsEv("f.detach") /\ Adv /\ UNCHANGED <<sid, wowner, pc, fowner>>
  /\ fpc' = [fpc EXCEPT ![Ev.p] = "f_end"]
  \* the flushed prefix may be detached only after it has been written
  /\ IF fowner = Ev.p /\ fpc[Ev.p] = "f_detach" THEN bad' = bad ELSE Bad("C04_DetachBeforeWrite")
TrFUnlock ==
  /\ IsEv("f.unlock") /\ Adv /\ UNCHANGED <<sid, wowner, pc>>
  /\ fowner' = IF fowner = Ev.p THEN "" ELSE fowner
  /\ fpc' = [fpc EXCEPT ![Ev.p] = "idle"] /\ bad' = bad

Known == {"Reset", "w.lock", "w.readold", "w.append", "tree.set", "hint.set", "w.unlock",
          "f.lock", "f.snap", "f.written", "f.detach", "f.unlock"}
TrOther == /\ l <= Len(Trace) /\ Trace[l].a \notin Known /\ Adv /\ UNCHANGED <<sid, bad, wowner, pc, fowner, fpc>>

Next == TrReset \/ TrWLock \/ TrWReadOld \/ TrWAppend \/ TrTreeSet \/ TrHintSet \/ TrWUnlock
        \/ TrFLock \/ TrFSnap \/ TrFWritten \/ TrFDetach \/ TrFUnlock \/ TrOther
Spec == Init /\ [][Next]_vars

Done == l = Len(Trace) + 1
Report == Done => PrintT(<<"VERIF-RESULT", ToJson([bad |-> bad, drift |-> {}, lead |-> {}, consumed |-> l - 1])>>)
HighWater == TLCSet(1, IF TLCGet(1) < l THEN l ELSE TLCGet(1))
TraceAccepted == IF TLCGet(1) = Len(Trace) + 1 THEN TRUE ELSE PrintT(<<"VERIF-STUCK", TLCGet(1)>>) /\ FALSE
=============================================================================
