--------------------------- MODULE Trace_Compress ---------------------------
(***************************************************************************)
(* Validation of the observation traces of TestVerifCompress (C10).        *)
(* Every line of trace.ndjson is one operation of the harness on the REAL  *)
(* store followed by what it observed: the get reply (bytes_equal against  *)
(* the harness's copy, returned flag, length), the value hash held by the  *)
(* tree, the newest on-disk record of the key (independent scanner) and    *)
(* the hint items of the key.  CSet lines also carry the MEASURED inputs   *)
(* of Decision and the codec cross-check booleans.                         *)
(*                                                                         *)
(* The state machine of Compress.tla is driven by the logged operations.   *)
(*  bad   : property-level failures of the OBSERVED behaviour against the  *)
(*          client's view kept in s.cur  (C10_Transparent, C10_VHash,      *)
(*          C10_Codec) - these become VIOLATION lines                      *)
(*  drift : the transcription disagrees with the code (TryCompress decided *)
(*          differently from Decision, stored size, predicted tree hash,   *)
(*          GC eligibility) - reported, never a verdict                    *)
(*  lead  : the specification's own state violates a property (model-only) *)
(***************************************************************************)
EXTENDS Compress, Json

VARIABLES l, s, bad, drift, lead, sid

Trace == ndJsonDeserialize("trace.ndjson")

tvars == <<l, s, bad, drift, lead, sid>>

Ev      == Trace[l]
IsEv(a) == l <= Len(Trace) /\ Trace[l].a = a
Adv     == l' = l + 1

ValIn(e) == [id |-> e.id, cflag |-> e.cflag, len |-> e.len, ksz |-> e.ksz,
             class |-> IF e.nocomp THEN "audio" ELSE "other", pc |-> e.pc, fc |-> e.fc]
CurIn(e) == [id |-> e.id, cflag |-> e.cflag, len |-> e.len, vh |-> e.vh, svh |-> e.svh, ver |-> e.get.ver]

-----------------------------------------------------------------------------
\* property checks of one observation e made in (new) specification state t
ObsChecks(t, e) ==
  LET p == PathName(t)
      c == t.cur
  IN IF c.id = 0 THEN {}
     ELSE (IF ~t.up THEN {}
           ELSE (IF e.get.res = "hit" /\ e.get.eq /\ e.get.len = c.len THEN {}
                 ELSE {<<sid, e.n, "C10_Transparent_bytes_" \o p>>})
                \cup (IF e.get.res # "hit" \/ e.get.flag = c.cflag THEN {}
                      ELSE {<<sid, e.n, "C10_Transparent_flag_" \o p>>})
                \cup (IF e.tree.found /\ e.tree.vh = c.vh THEN {}
                      ELSE {<<sid, e.n, "C10_VHash_tree_" \o p>>}))
          \cup (IF \A i \in 1..Len(e.hints) : e.hints[i].ver = c.ver => e.hints[i].vh = c.vh THEN {}
                ELSE {<<sid, e.n, "C10_VHash_hint_" \o p>>})

CodecNames == {"c2g", "c2gs", "c2cs", "gcomp", "g2cs", "g2gs", "sized", "s2g"}
CodecChecks(e) == IF ~e.hascodec THEN {} ELSE {<<sid, e.n, "C10_Codec_" \o nm>> : nm \in {x \in CodecNames : ~e.codec[x]}}

\* the value hash a symbolic index entry stands for
NumVH(t, idx) == IF idx.vid # t.cur.id THEN -3
                 ELSE IF idx.form = "plain" THEN t.cur.vh
                 ELSE IF idx.form = "qlz" THEN t.cur.svh ELSE -2

ObsDrift(t, e) ==
  (IF t.cur.id # 0 /\ e.disk.found /\ e.disk.ver = t.cur.ver /\ t.rec.loc = "disk"
      /\ HasBit(e.disk.flag, FLAG_COMPRESS) # (t.rec.form # "plain")
     THEN {<<sid, e.n, "policy: on-disk compress flag differs from Decision">>} ELSE {})
  \cup (IF t.cur.id # 0 /\ e.disk.found /\ e.disk.ver = t.cur.ver /\ t.rec.loc = "disk" /\ e.disk.vsz # t.rec.slen
          THEN {<<sid, e.n, "stored size differs from the predicted one">>} ELSE {})
  \cup (IF t.cur.id # 0 /\ t.cur.ver # 0 /\ (t.rec.loc = "disk") # (e.disk.found /\ e.disk.ver = t.cur.ver)
          THEN {<<sid, e.n, "flush state differs">>} ELSE {})
  \cup (IF t.cur.id # 0 /\ t.up /\ e.tree.found /\ t.tree.has /\ e.tree.vh # NumVH(t, t.tree)
          THEN {<<sid, e.n, "tree value hash differs from the transcription">>} ELSE {})

ModelLead(t, e) ==
  (IF C10_TransparentS(t) THEN {} ELSE {<<sid, e.n, "C10_TransparentS">>})
  \cup (IF C10_VHashS(t) THEN {} ELSE {<<sid, e.n, "C10_VHashS">>})

\* common tail of every operation: new state t, observation e, extra failures / drift
Step(t, e, xbad, xdrift) ==
  /\ s' = t
  /\ bad' = bad \cup ObsChecks(t, e) \cup xbad
  /\ drift' = drift \cup ObsDrift(t, e) \cup xdrift
  /\ lead' = lead \cup ModelLead(t, e)
  /\ sid' = sid /\ Adv

Skip(what) == /\ drift' = drift \cup {<<sid, Ev.n, what>>}
              /\ UNCHANGED <<s, bad, lead, sid>> /\ Adv

-----------------------------------------------------------------------------
TrReset == /\ IsEv("Reset") /\ Adv
           /\ s' = S0 /\ sid' = Ev.sid /\ UNCHANGED <<bad, drift, lead>>

TrSet ==
  /\ IsEv("CSet")
  /\ IF ~s.up THEN Skip("set-while-down")
     ELSE LET e == Ev
              v == ValIn(e)
              st == StoredOf(v)
              t == DoSet(s, v, CurIn(e))
          IN Step(t, e,
                  CodecChecks(e) \cup (IF e.res = "ok" THEN {} ELSE {<<sid, e.n, "C10_Transparent_set_refused">>}),
                  (IF e.sflag = st.sflag THEN {} ELSE {<<sid, e.n, "policy: TryCompress decided differently from Decision">>})
                  \cup (IF e.sflag # st.sflag \/ e.slen = st.slen THEN {} ELSE {<<sid, e.n, "stored length at set differs">>}))

TrFiller == /\ IsEv("CFiller")
            /\ IF s.up THEN s' = DoFiller(s) /\ UNCHANGED <<bad, drift, lead, sid>> /\ Adv ELSE Skip("filler-while-down")

TrGet   == IsEv("CGet")   /\ Step(s, Ev, {}, {})
TrFlush == IsEv("CFlush") /\ IF s.up THEN Step(DoFlush(s), Ev, {}, {}) ELSE Skip("flush-while-down")
TrClose == IsEv("CClose") /\ IF s.up THEN Step(DoClose(s), Ev, {}, {}) ELSE Skip("close-while-down")

TrOpen ==
  /\ IsEv("COpen")
  /\ IF s.up THEN Skip("open-while-up")
     ELSE IF ~Ev.ok THEN /\ bad' = bad \cup {<<sid, Ev.n, "C10_Transparent_unreadable_after_reopen">>}
                         /\ UNCHANGED <<s, drift, lead, sid>> /\ Adv
     ELSE Step(DoOpen(s, Ev.rmhint, Ev.rmtree), Ev, {}, {})

TrGC ==
  /\ IsEv("CGC")
  /\ IF ~s.up THEN Skip("gc-while-down")
     ELSE LET e == Ev
              ran == e.res = "ok"
          IN Step(IF ran THEN DoGC([s EXCEPT !.filler = IF GCOk(s) THEN @ ELSE "disk"]) ELSE s, e,
                  IF e.res = "err" THEN {<<sid, e.n, "C10_Transparent_gc_error">>} ELSE {},
                  (IF ran = GCOk(s) THEN {} ELSE {<<sid, e.n, "gc eligibility differs">>})
                  \cup (IF ~ran \/ e.released = s.nold THEN {} ELSE {<<sid, e.n, "gc released count differs">>}))

\* the harness had to stop (Fatalf inside the store / reopen failed)
TrAbort == /\ IsEv("Abort") /\ Adv
           /\ bad' = bad \cup {<<sid, Ev.n, "C10_Transparent_store_died">>}
           /\ UNCHANGED <<s, drift, lead, sid>>

TrEnd == IsEv("End") /\ Adv /\ UNCHANGED <<s, bad, drift, lead, sid>>

TrOther == /\ l <= Len(Trace)
           /\ Trace[l].a \notin {"Reset", "CSet", "CFiller", "CGet", "CFlush", "CClose", "COpen", "CGC", "Abort", "End"}
           /\ Skip("unknown-event")

TraceInit == l = 1 /\ s = S0 /\ bad = {} /\ drift = {} /\ lead = {} /\ sid = "" /\ TLCSet(1, 1)

TraceNext == TrReset \/ TrSet \/ TrFiller \/ TrGet \/ TrFlush \/ TrClose \/ TrOpen \/ TrGC \/ TrAbort \/ TrEnd \/ TrOther

TraceSpec == TraceInit /\ [][TraceNext]_tvars

Done == l = Len(Trace) + 1
Report == Done => PrintT(<<"VERIF-RESULT", ToJson([bad |-> bad, drift |-> drift, lead |-> lead, consumed |-> l - 1])>>)
HighWater == TLCSet(1, IF TLCGet(1) < l THEN l ELSE TLCGet(1))
TraceAccepted == IF TLCGet(1) = Len(Trace) + 1 THEN TRUE
                 ELSE PrintT(<<"VERIF-STUCK", TLCGet(1), Trace[TLCGet(1)].n>>) /\ FALSE
=============================================================================
