------------------------------ MODULE Gen_Seq ------------------------------
(* Scenario generation from the specification itself (DESIGN.md 2b): TLC    *)
(* simulates behaviours of MC_Seq and records the PUBLIC operations it      *)
(* chose (hist); every finished behaviour is printed as one JSON line that  *)
(* the orchestrator turns into a scenario for the real store.  hist exists  *)
(* only here, never in the MC configurations.                               *)
EXTENDS MC_Seq, Json

VARIABLE hist

\* the public operation (if any) that the step <<vars, vars'>> started
OpOf ==
  IF pc["c1"] = "idle" /\ pc'["c1"] = "w_lock"
    THEN <<[op |-> IF loc'["c1"].rev < 0 THEN "del" ELSE "set", k |-> loc'["c1"].k, v |-> loc'["c1"].val,
            rev |-> IF loc'["c1"].rev < 0 THEN 0 ELSE loc'["c1"].rev, nblk |-> loc'["c1"].nblk, d |-> 0, c |-> 0, rm |-> <<>>,
            begin |-> 0, end |-> 0]>>
  ELSE IF pc["c1"] = "idle" /\ pc'["c1"] = "r_lookup"
    THEN <<[op |-> loc'["c1"].op, k |-> loc'["c1"].k, v |-> 0, rev |-> 0, nblk |-> 0, d |-> loc'["c1"].delta, c |-> 0, rm |-> <<>>,
            begin |-> 0, end |-> 0]>>
  ELSE IF pc["flusher"] = "idle" /\ pc'["flusher"] = "f_enter"
    THEN <<[op |-> "flush", k |-> "", v |-> 0, rev |-> 0, nblk |-> 0, d |-> 0, c |-> 0, rm |-> <<>>, begin |-> 0, end |-> 0]>>
  ELSE IF \E c \in Chunks : pc[RotName(c)] = "spawned" /\ pc'[RotName(c)] # "spawned" /\ up'
    THEN <<[op |-> "rotflush", k |-> "", v |-> 0, rev |-> 0, nblk |-> 0, d |-> 0,
            c |-> CHOOSE c \in Chunks : pc[RotName(c)] = "spawned" /\ pc'[RotName(c)] # "spawned", rm |-> <<>>, begin |-> 0, end |-> 0]>>
  ELSE IF pc["closer"] = "idle" /\ pc'["closer"] = "cl_pick"
    THEN <<[op |-> "close", k |-> "", v |-> 0, rev |-> 0, nblk |-> 0, d |-> 0, c |-> 0, rm |-> <<>>, begin |-> 0, end |-> 0]>>
  ELSE IF pc["gc"] = "idle" /\ pc'["gc"] = "g_register"
    THEN <<[op |-> "gc", k |-> "", v |-> 0, rev |-> 0, nblk |-> 0, d |-> 0, c |-> 0, rm |-> <<>>, begin |-> gc'.begin, end |-> gc'.end]>>
  ELSE IF ~up /\ up'
    THEN <<[op |-> "open", k |-> "", v |-> 0, rev |-> 0, nblk |-> 0, d |-> 0, c |-> 0, rm |-> <<>>, begin |-> 0, end |-> 0]>>
  ELSE IF ~up /\ ~up' /\ disk'.treef # disk.treef
    THEN <<[op |-> "rmtree", k |-> "", v |-> 0, rev |-> 0, nblk |-> 0, d |-> 0, c |-> 0, rm |-> <<>>, begin |-> 0, end |-> 0]>>
  ELSE IF ~up /\ ~up' /\ disk'.hintf # disk.hintf
    THEN LET cc == CHOOSE c \in Chunks : disk'.hintf[c] # disk.hintf[c]
             jj == CHOOSE j \in 1..Len(disk.hintf[cc]) : disk'.hintf[cc][j] # disk.hintf[cc][j]
         IN <<[op |-> "rmhint", k |-> "", v |-> 0, rev |-> 0, nblk |-> 0, d |-> jj - 1, c |-> cc, rm |-> <<>>, begin |-> 0, end |-> 0]>>
  ELSE <<>>

GenInit == MCInit /\ hist = <<>>
GenNext == MCNext /\ hist' = hist \o OpOf
GenSpec == GenInit /\ [][GenNext]_<<vars, nops, nrestart, hist>>

\* a finished behaviour: budget used up, nothing in progress, store up
Finished == nops = MaxOps /\ Quiet /\ up
Emit == Finished => PrintT(<<"VERIF-CASE", ToJson(hist)>>)
=============================================================================
