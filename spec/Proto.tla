------------------------------- MODULE Proto -------------------------------
(***************************************************************************)
(* One memcached connection of gobeansdb as a parser/dispatcher automaton   *)
(* over ABSTRACT commands (DESIGN.md section 6, C11/C12, appendix A.7;      *)
(* corrected decision table: notes/fam_proto.md).                           *)
(*                                                                         *)
(* Part 1  reply patterns and the matcher                                   *)
(* Part 2  Outcomes(c, s, F, last): transcription of Request.Read +         *)
(*         ServeOnce + Request.Process + StorageClient (+ the store calls   *)
(*         it makes) as a decision procedure.  F is the set of FINDINGS     *)
(*         taken "as is" (the code today); a finding outside F is taken as  *)
(*         "fixed": the outcome set then holds every property-conforming    *)
(*         behaviour (C11: one well-formed reply per complete command /     *)
(*         an error reply or an orderly close for a malformed one; C12: no  *)
(*         buffer left behind).                                             *)
(* Part 3  running a whole script against an observed reply list (NFA over  *)
(*         outcome alternatives and junk-mode repetitions)                  *)
(* Part 4  the connection machine with request tokens and OWNERSHIP ghosts  *)
(*         of every value buffer (model-checked by MC_Proto)                *)
(***************************************************************************)
EXTENDS Integers, Sequences, FiniteSets, TLC

CONSTANTS KeyNames          \* model names of the ordinary keys

FlagIncr == 516
ErrT     == {"ERROR", "CLIENT_ERROR", "SERVER_ERROR"}

\* finding signatures (known_findings.json)
C11Findings == {"F10", "F10-negbytes", "F10-resvflag", "F10-stale-recvtime", "F10-emptylong", "F13"}
C12Findings == {"F2", "F2-incr-get", "F2-negrev", "F2-unserved-del", "F2-dupget", "F10", "F10-resvflag", "F10-emptylong"}
AllFindings == C11Findings \cup C12Findings \cup {"F14"}

Abs(x) == IF x < 0 THEN -x ELSE x
Max2(a, b) == IF a > b THEN a ELSE b

-----------------------------------------------------------------------------
(* Part 1: patterns                                                         *)

\* a pattern describes ONE reply
Pt(t)       == [t |-> t, items |-> {}, opt |-> {}, v |-> 0, anyv |-> TRUE, cas |-> FALSE]
PErr        == Pt("ERR")                    \* ERROR | CLIENT_ERROR ... | SERVER_ERROR ...
PAny        == Pt("ANY1")                   \* any single well-formed reply
PNum(v)     == [Pt("NUM") EXCEPT !.v = v, !.anyv = FALSE]
PNumAny     == Pt("NUM")
\* VALUE blocks for exactly the ids of `items` (any order, each once) plus optionally those of `opt`, then END
PValues(items, opt, cas) == [Pt("VALUES") EXCEPT !.items = items, !.opt = opt, !.cas = cas]

\* item pattern: vid "*" = opaque body; vid "meta" = the "?k" text (ver flag len compared; mver 0 = unknown)
It(id, vid, flag)           == [id |-> id, vid |-> vid, flag |-> flag, mver |-> 0, mflag |-> 0, mlen |-> 0]
ItMeta(id, ver, flag, len)  == [id |-> id, vid |-> "meta", flag |-> 0, mver |-> ver, mflag |-> flag, mlen |-> len]

ItemOK(x, p, relaxed) ==
  /\ x.id = p.id
  /\ \/ relaxed
     \/ p.vid = "*"
     \/ /\ p.vid = "meta" /\ x.vid = "meta" /\ x.flag = 0
        /\ (p.mver = 0 \/ x.mver = p.mver) /\ x.mflag = p.mflag /\ x.mlen = p.mlen
     \/ p.vid \notin {"*", "meta"} /\ x.vid = p.vid /\ x.flag = p.flag

\* rep: an observed (or realised) reply [t, items (sequence), v, vbig]
Match(rep, p, relaxed) ==
  CASE p.t = "ERR"    -> rep.t \in ErrT
    [] p.t = "ANY1"   -> rep.t \notin {"GARBAGE", "PARTIAL"}
    [] p.t = "NUM"    -> rep.t = "NUM" /\ (p.anyv \/ (~rep.vbig /\ rep.v = p.v))
    [] p.t = "VALUES" ->
         /\ rep.t = "VALUES"
         /\ LET got == {rep.items[i] : i \in 1..Len(rep.items)} IN
            /\ Cardinality({x.id : x \in got}) = Len(rep.items)
            /\ \A x \in got : x.cas = p.cas /\ \E q \in p.items \cup p.opt : ItemOK(x, q, relaxed)
            /\ \A q \in p.items : \E x \in got : x.id = q.id
    [] OTHER          -> rep.t = p.t

\* expectation items of one command
One(adm)  == [k |-> "one", adm |-> adm]        \* exactly one reply matching a pattern of adm
Opt(adm)  == [k |-> "opt", adm |-> adm]        \* at most one
Junk      == [k |-> "junk", adm |-> {}]        \* any number of error-class replies (lost framing)
JunkAny   == [k |-> "junkany", adm |-> {}]     \* any number of any replies

-----------------------------------------------------------------------------
(* Part 2: the decision procedure                                           *)
(*                                                                         *)
(* abstract command c:                                                      *)
(*   verb    get gets set add replace cas append prepend incr decr delete   *)
(*           stats version verbosity flush_all quit optimize_stat unknown   *)
(*           empty garbage                                                  *)
(*   keys    sequence of [cls, name, id, klen]                              *)
(*   nf, nc  the numeric field carrying a fault and its class               *)
(*           nf: none flags exptime bytes cas delta                         *)
(*           nc: ok nonnum neg over negwrap resv rev                        *)
(*   n       announced body length, content, vid, flag, rev, delta          *)
(*   noreply, fault: none lfonly tokens extra badterm bodyshort             *)
(*           tok4 (delete / incr with a last token that is not "noreply":   *)
(*           accepted, answered)                                            *)
(*   hl, tl, got  header length, total length, bytes delivered (got < tl:   *)
(*           the stream was cut inside this command, then EOF)              *)
(*                                                                         *)
(* state s: [ref, backlog, junk, cf]                                        *)
(*   ref[k] = [st (none live tomb wild poison), vid, flag, ver, len,        *)
(*             isnum, num]                                                  *)
(*   backlog: some stored value with n > 0 waits in a write buffer          *)
(*   junk:    the previous command stole the first bytes of the next one    *)
(*   fresh:   no line ending in CRLF was read on this connection yet        *)
(*   cf:      [oomgate, bodyc, bodybig, bodymax, disk]                      *)
(***************************************************************************)

StoreVerbs == {"set", "add", "replace", "cas", "append", "prepend"}
SetVerbs   == {"set", "add", "replace", "cas"}
\* disk: the record was written before the last restart (a read takes it from the data file)
NoRef      == [st |-> "none", vid |-> "", flag |-> 0, ver |-> 0, len |-> 0, isnum |-> FALSE, num |-> 0, disk |-> FALSE]
WildRef    == [NoRef EXCEPT !.st = "wild"]

ValidKeyCls == {"plain", "unserved"}
HasBody(c)  == c.verb \in StoreVerbs

\* buffers of one command: [kind (set cnt get neg), n, inc, fate (freed wbuf resp leak)]
Buf(kind, n, inc, fate) == [kind |-> kind, n |-> n, inc |-> inc, fate |-> fate]

\* an outcome
Out(exp, closes, s, tok, bufs, sig, wild) ==
  [exp |-> exp, closes |-> closes, ends |-> FALSE, s |-> s, tok |-> tok, bufs |-> bufs, sig |-> sig, wild |-> wild]
Plain(exp, s)      == Out(exp, FALSE, s, FALSE, <<>>, "", FALSE)
Closing(exp, s)    == Out(exp, TRUE, s, FALSE, <<>>, "", FALSE)
Ending(o)          == [o EXCEPT !.ends = TRUE]     \* the client's EOF follows: nothing after this command

\* capacity accounted in GetData for a value read by bkt.get: write-buffer copy or data-file read
GetCap(s, klen, x) == IF x.disk THEN klen + x.len ELSE IF x.len > s.cf.bodyc THEN x.len ELSE 0
GetInC(s, klen, x) == IF x.disk THEN klen + x.len > s.cf.bodyc ELSE x.len > s.cf.bodyc
MaybeCompressed(klen, len) == 24 + klen + len > 256

\* ---- reading one key (StorageClient.Get) -------------------------------------------------
\* result: [r (hit miss err panic opt wild), it]
KR(r, it) == [r |-> r, it |-> it]
NoIt == It("", "*", 0)

KeyGet(kr, s) ==
  LET x == IF kr.name \in KeyNames THEN s.ref[kr.name] ELSE NoRef IN
  CASE kr.cls = "plain" ->
         (CASE x.st = "live"   -> KR("hit", It(kr.id, x.vid, x.flag))
            [] x.st = "poison" -> KR("panic", It(kr.id, "*", 0))
            [] x.st = "wild"   -> KR("wild", It(kr.id, "*", 0))
            [] OTHER           -> KR("miss", NoIt))
    [] kr.cls \in {"meta", "meta2"} ->
         (CASE x.st = "live"   -> KR("hit", ItMeta(kr.id, x.ver, x.flag, x.len))
            [] x.st = "tomb"   -> KR("hit", ItMeta(kr.id, x.ver, x.flag, x.len))
            [] x.st = "poison" -> KR("panic", It(kr.id, "*", 0))
            [] x.st = "wild"   -> KR("wild", It(kr.id, "*", 0))
            [] OTHER           -> KR("miss", NoIt))
    [] kr.cls = "hash" ->
         (CASE x.st = "live"   -> KR("hit", It(kr.id, "*", 0))
            [] x.st = "none"   -> KR("miss", NoIt)
            [] OTHER           -> KR("opt", It(kr.id, "*", 0)))
    [] kr.cls \in {"dir", "dirbad", "coll"} -> KR("opt", It(kr.id, "*", 0))
    [] kr.cls \in {"dir17", "hashbad"}      -> KR("panic", NoIt)
    [] kr.cls \in {"hashlen", "q"}          -> KR("err", NoIt)
    [] OTHER -> KR("miss", NoIt)   \* unserved ctrl metabad qq collall hashmiss

RECURSIVE SetToSeq0(_)
SetToSeq0(S) == IF S = {} THEN <<>> ELSE LET x == CHOOSE y \in S : \A z \in S : y <= z IN <<x>> \o SetToSeq0(S \ {x})

\* ---- get / gets ----------------------------------------------------------------------------
GetOutcomes(c, s, F) ==
  LET K    == c.keys
      n    == Len(K)
      cas  == c.verb = "gets"
      res  == [i \in 1..n |-> KeyGet(K[i], s)]
      long == \E i \in 1..n : K[i].cls = "long"
      pidx == {i \in 1..n : res[i].r = "panic"}
      hits == {res[i].it : i \in {j \in 1..n : res[j].r = "hit"}}
      opts == {res[i].it : i \in {j \in 1..n : res[j].r \in {"opt", "wild"}}}
      wild == \E i \in 1..n : res[i].r = "wild"
      tokd(o) == [o EXCEPT !.tok = TRUE]
      phit == {j \in 1..n : res[j].r = "hit" /\ K[j].cls = "plain"}
      respbufs == [i \in 1..Cardinality({K[j].id : j \in phit}) |-> Buf("get", 0, FALSE, "resp")]
      \* GetMulti stores every fetched value under its key: a repeated key drops the earlier copy (F2-dupget)
      dups == {j \in phit : \E i \in phit : i < j /\ K[i].id = K[j].id}
      dupseq == SetToSeq0(dups)
      dupbufs(fate) == [i \in 1..Len(dupseq) |->
                          LET x == s.ref[K[dupseq[i]].name] IN
                          Buf("get", GetCap(s, K[dupseq[i]].klen, x), GetInC(s, K[dupseq[i]].klen, x), fate)]
      dupwild == \E j \in dups : MaybeCompressed(K[j].klen, s.ref[K[j].name].len)
  IN
  IF long THEN {tokd(Plain(<<One({PErr})>>, s))}
  ELSE IF pidx # {} THEN
       LET first == CHOOSE i \in pidx : \A j \in pidx : i <= j
           sig   == IF K[first].cls \in {"dir17", "hashbad"} THEN "F10" ELSE "F10-resvflag"
           \* values fetched by GetMulti before the panic are never released
           before == {j \in 1..(first - 1) : res[j].r = "hit" /\ K[j].cls = "plain"}
           lbufs == [i \in 1..Cardinality(before) |-> Buf("get", 0, FALSE, "leak")]
           \* a value stored with the reserved compression bit: Decompress of bytes that are not compressed either
           \* panics or fails and hands the raw bytes back, depending on the bytes; GetData is left unbalanced
           poisoned == {res[i].it : i \in {j \in 1..n : res[j].r = "panic" /\ K[j].cls \notin {"dir17", "hashbad"}}}
       IN IF sig \in F
            THEN {[tokd(Plain(<<>>, s)) EXCEPT !.bufs = lbufs, !.sig = sig, !.wild = (before # {} \/ sig = "F10-resvflag")]}
                 \cup (IF sig = "F10-resvflag"
                         THEN {[tokd(Plain(<<One({PValues(hits, opts \cup poisoned, cas)})>>, s)) EXCEPT !.sig = sig, !.wild = TRUE]}
                         ELSE {})
            ELSE {tokd(Plain(<<One({PErr, PValues({}, hits \cup opts, cas)})>>, s)),
                  tokd(Closing(<<Opt({PErr})>>, s))}
  ELSE IF n = 1 /\ res[1].r = "err" THEN {tokd(Plain(<<One({PErr})>>, s))}
  ELSE IF wild THEN {tokd(Plain(<<One({PErr, PValues(hits, opts, cas)})>>, s))}
  ELSE IF dups # {} /\ "F2-dupget" \in F
       THEN {[tokd(Plain(<<One({PValues(hits, opts, cas)})>>, s)) EXCEPT !.bufs = respbufs \o dupbufs("leak"), !.sig = "F2-dupget", !.wild = dupwild]}
  ELSE {[tokd(Plain(<<One({PValues(hits, opts, cas)})>>, s)) EXCEPT !.bufs = respbufs \o dupbufs("freed")]}

\* ---- the body region after a refused / unparsable header ----------------------------------
\* delivered bytes of the body region (0 when the command has no body)
BodyGot(c) == IF c.got > c.hl THEN c.got - c.hl ELSE 0
Cut(c)     == c.got < c.tl

\* reply to a header the parser rejected, then the body is read as command lines
HeaderError(c, s, pats) ==
  LET junk == IF HasBody(c) /\ BodyGot(c) > 0
                THEN (IF c.content = "cmd" THEN <<JunkAny>> ELSE <<Junk>>) ELSE <<>>
      s2   == IF HasBody(c) /\ c.content = "cmd" /\ BodyGot(c) > 0
                THEN [s EXCEPT !.ref = [k \in KeyNames |-> WildRef]] ELSE s
      o    == Plain(<<One(pats)>> \o junk, s2)
  IN IF Cut(c) THEN Ending(o) ELSE o

\* refusal of a parsable header (value too large, memory shortage): F13
Refusal(c, s, F, pats) ==
  IF "F13" \in F \/ ~HasBody(c)
    THEN {HeaderError(c, s, pats)}
  ELSE IF BodyGot(c) = 0
    \* nothing of the announced body arrived (yet): one error reply; the repaired server (fix F13) closes the
    \* connection after a refusal for size whether or not body bytes follow
    THEN {HeaderError(c, s, pats), Closing(<<One(pats)>>, s)}
    ELSE \* conforming: one error reply, then the announced body is swallowed, or the connection is closed
         {IF Cut(c) THEN Ending(Plain(<<One(pats)>>, s)) ELSE Plain(<<One(pats)>>, s),
          Closing(<<One(pats)>>, s)}

\* ---- set add replace cas append prepend ---------------------------------------------------------
StoreOutcomes(c, s, F, nextgot) ==
  LET kr     == c.keys[1]
      n      == c.n
      inc    == n > s.cf.bodyc
      x      == IF kr.name \in KeyNames THEN s.ref[kr.name] ELSE NoRef
      hdrbad == c.fault \in {"lfonly", "tokens", "extra"}
                  \/ (c.nf \in {"flags", "exptime", "bytes"} /\ c.nc \in {"nonnum", "over"})
      huge   == (c.nf = "bytes" /\ c.nc = "neg") \/ n > s.cf.bodymax
      oom    == s.cf.oomgate /\ n > s.cf.bodybig /\ s.backlog
      negw   == c.nf = "bytes" /\ c.nc = "negwrap"
      tokd(o) == [o EXCEPT !.tok = TRUE]
      with(o, bufs, sig) == [tokd(o) EXCEPT !.bufs = bufs, !.sig = sig]
      sbuf(fate) == <<Buf("set", n, inc, fate)>>
      nr(pats) == IF c.noreply THEN <<>> ELSE <<One(pats)>>
  IN
  IF hdrbad THEN {HeaderError(c, s, {PErr})}
  ELSE IF negw THEN
       \* make([]byte, negative) panics in Request.Read after the token was taken
       IF "F10-negbytes" \in F
         THEN {LET o == HeaderError(c, s, {PErr}) IN [tokd(o) EXCEPT !.exp = Tail(o.exp), !.sig = "F10-negbytes"]}
         ELSE Refusal(c, s, F, {PErr}) \cup {Closing(<<Opt({PErr})>>, s)}
  ELSE IF huge THEN Refusal(c, s, F, {PErr})
  ELSE IF oom THEN Refusal(c, s, F, {PErr, Pt("NOT_STORED")})
  ELSE IF c.verb = "cas" /\ c.fault = "castokens" THEN {HeaderError(c, s, {PErr})}
  ELSE IF c.got < c.hl + n + 2 /\ c.fault # "bodyshort" THEN
       \* token taken, body buffer allocated, EOF inside body or terminator: released, no reply
       {Ending(with(Plain(<<>>, s), sbuf("freed"), ""))}
  ELSE IF c.fault = "badterm" THEN
       LET o == with(Plain(<<One({PErr}), Junk>>, s), sbuf("freed"), "") IN {IF Cut(c) THEN Ending(o) ELSE o}
  ELSE IF c.fault = "bodyshort" THEN
       \* the announced length exceeds the body by two: the CRLF is taken as data, the first two bytes of the
       \* NEXT command as terminator; while fewer than two more bytes arrive the parser waits, then EOF
       IF Cut(c) \/ nextgot < 2 THEN {Ending(with(Plain(<<>>, s), sbuf("freed"), ""))}
       ELSE {with(Plain(<<One({PErr})>>, [s EXCEPT !.junk = TRUE]), sbuf("freed"), "")}
  ELSE IF c.verb = "append" THEN
       IF "F2" \in F
         THEN {IF c.noreply THEN with(Closing(<<>>, s), sbuf("leak"), "F2")
                            ELSE with(Plain(<<One({PErr})>>, s), sbuf("leak"), "F2")}
         ELSE {with(Plain(nr({PErr}), s), sbuf("freed"), ""), with(Closing(<<>>, s), sbuf("freed"), "")}
  ELSE IF c.verb = "prepend" THEN
       IF "F2" \in F
         THEN {with(Closing(<<>>, s), sbuf("leak"), "F2")}
         ELSE {with(Plain(nr({PErr}), s), sbuf("freed"), ""), with(Closing(<<>>, s), sbuf("freed"), "")}
  ELSE \* set add replace cas
  IF kr.cls \notin ValidKeyCls THEN {with(Plain(nr({Pt("NOT_STORED")}), s), sbuf("freed"), "")}
  ELSE IF kr.cls = "unserved" THEN {with(Plain(nr({Pt("STORED")}), s), sbuf("freed"), "")}
  ELSE IF c.nf = "exptime" /\ c.nc = "neg" THEN
       \* negative revision = delete carrying a body
       IF "F2-negrev" \in F
         THEN IF x.st \in {"live", "poison"}
                THEN {with(Plain(nr({Pt("STORED")}),
                                 [s EXCEPT !.ref[kr.name] = [NoRef EXCEPT !.st = "tomb", !.ver = -(Abs(x.ver) + 1),
                                                                          !.flag = c.flag, !.len = n]]),
                           <<Buf("set", n, FALSE, "leak")>>, "F2-negrev")}      \* the flush frees the memory, not the SetData entry
              ELSE IF x.st = "wild"
                \* the key may be live (the flush frees the memory, only the SetData entry stays) or absent (both stay)
                THEN {with(Plain(nr({Pt("STORED"), PErr}), s), sbuf("leak"), "F2-negrev"),
                      with(Plain(nr({Pt("STORED")}), s), <<Buf("set", n, FALSE, "leak")>>, "F2-negrev"),
                      with(Closing(nr({PErr}), s), sbuf("leak"), "F2-negrev")}
              ELSE {IF c.noreply THEN with(Closing(<<>>, s), sbuf("leak"), "F2-negrev")
                                 ELSE with(Plain(<<One({PErr})>>, s), sbuf("leak"), "F2-negrev")}
         ELSE {with(Plain(nr({Pt("STORED"), Pt("NOT_STORED"), PErr}), [s EXCEPT !.ref[kr.name] = WildRef]), sbuf("freed"), ""),
               with(Closing(nr({PErr}), [s EXCEPT !.ref[kr.name] = WildRef]), sbuf("freed"), "")}
  ELSE IF c.nf = "flags" /\ c.nc = "resv" THEN
       \* the server-reserved compression bit is stored verbatim: every later read of the key panics
       IF "F10-resvflag" \in F
         THEN {with(Plain(nr({Pt("STORED")}), [s EXCEPT !.ref[kr.name] = [NoRef EXCEPT !.st = "poison", !.ver = Abs(x.ver) + 1],
                                                         !.backlog = s.backlog \/ n > 0]), sbuf("wbuf"), "F10-resvflag")}
         ELSE {with(Plain(nr({Pt("STORED"), Pt("NOT_STORED"), PErr}), [s EXCEPT !.ref[kr.name] = WildRef, !.backlog = TRUE]), sbuf("wbuf"), "")}
  ELSE IF n = 0 /\ 24 + kr.klen > 256 /\ ~c.ccomp /\ "F10-emptylong" \in F THEN
       \* an EMPTY value whose record is larger than 256 bytes (key > 232 bytes) goes to TryCompress, and
       \* quicklz.CCompress takes &src[0] of the empty body: panic, recovered, no reply; the SetData entry and the
       \* 400-byte compression buffer stay behind
       {[with(Plain(<<>>, s), <<Buf("set", 0, FALSE, "leak"), Buf("calloc", 400, TRUE, "leak")>>, "F10-emptylong")
           EXCEPT !.wild = ~(400 > s.cf.bodyc)]}
  ELSE
       LET rev    == IF c.nf = "exptime" /\ c.nc = "rev" THEN c.rev ELSE 0
           accept == rev = 0 \/ rev > Abs(x.ver) \/ x.st = "wild"
           ver2   == IF x.st = "wild" THEN 0 ELSE IF rev = 0 THEN Abs(x.ver) + 1 ELSE rev
           \* (an explicit revision against an unknown version may be taken or ignored: the key stays unknown)
           r2     == IF x.st = "wild" /\ rev > 0 THEN WildRef
                     ELSE [st |-> "live", vid |-> c.vid, flag |-> c.flag, ver |-> ver2, len |-> n, isnum |-> FALSE, num |-> 0, disk |-> FALSE]
       IN IF accept
            THEN {with(Plain(nr({Pt("STORED")}), [s EXCEPT !.ref[kr.name] = r2, !.backlog = s.backlog \/ n > 0]), sbuf("wbuf"), "")}
            ELSE {with(Plain(nr({Pt("STORED")}), s), sbuf("freed"), "")}

\* ---- delete ---------------------------------------------------------------------------------
DeleteOutcomes(c, s, F) ==
  LET kr == c.keys[1]
      x  == IF kr.name \in KeyNames THEN s.ref[kr.name] ELSE NoRef
      nr(pats) == IF c.noreply THEN <<>> ELSE <<One(pats)>>
      tomb == [NoRef EXCEPT !.st = "tomb", !.ver = -(Abs(x.ver) + 1)]
  IN
  IF kr.cls \notin ValidKeyCls THEN {Plain(nr({Pt("NOT_FOUND")}), s)}
  ELSE IF kr.cls = "unserved" THEN
       \* HStore.Set releases a SetData entry that a delete never took
       IF "F2-unserved-del" \in F
         THEN {[Plain(nr({Pt("DELETED")}), s) EXCEPT !.bufs = <<Buf("neg", 0, FALSE, "leak")>>, !.sig = "F2-unserved-del"]}
         ELSE {Plain(nr({Pt("DELETED"), Pt("NOT_FOUND")}), s)}
  ELSE CASE x.st \in {"live", "poison"} -> {Plain(nr({Pt("DELETED")}), [s EXCEPT !.ref[kr.name] = tomb])}
         [] x.st = "wild" -> {Plain(nr({Pt("DELETED"), Pt("NOT_FOUND")}), s)}
         [] OTHER -> {Plain(nr({Pt("NOT_FOUND")}), s)}

\* ---- incr -----------------------------------------------------------------------------------
Digits(v) == IF v < 0 THEN 2 ELSE IF v < 10 THEN 1 ELSE IF v < 100 THEN 2 ELSE IF v < 1000 THEN 3 ELSE IF v < 10000 THEN 4 ELSE 5

IncrOutcomes(c, s, F) ==
  LET kr == c.keys[1]
      x  == IF kr.name \in KeyNames THEN s.ref[kr.name] ELSE NoRef
      d  == c.delta
      nr(pats) == IF c.noreply THEN <<>> ELSE <<One(pats)>>
      tokd(o) == [o EXCEPT !.tok = TRUE]
      cnt(fate) == Buf("cnt", 0, FALSE, fate)
      gbuf(fate) == Buf("get", GetCap(s, kr.klen, x), GetInC(s, kr.klen, x), fate)
      numref(v, ver) == [st |-> "live", vid |-> "n" \o ToString(v), flag |-> FlagIncr, ver |-> ver, len |-> Digits(v), isnum |-> TRUE, num |-> v,
                         disk |-> FALSE]
      \* F2: the SetData count taken by the parser is not given back
      f2(o) == IF "F2" \in F THEN [o EXCEPT !.bufs = <<cnt("leak")>>, !.sig = "F2"] ELSE [o EXCEPT !.bufs = <<cnt("freed")>>]
  IN
  IF c.nf = "delta" /\ c.nc \in {"nonnum", "over"} THEN {f2(tokd(Plain(nr({PErr}), s)))}
  ELSE IF kr.cls \notin ValidKeyCls \/ kr.cls = "unserved" THEN {f2(tokd(Plain(nr({PNum(0)}), s)))}
  ELSE
  CASE x.st = "none" ->
         {[tokd(Plain(nr({PNum(d)}), [s EXCEPT !.ref[kr.name] = numref(d, 1)])) EXCEPT !.bufs = <<cnt("wbuf")>>]}
    [] x.st = "tomb" ->
         \* the tombstone read by bkt.get is never released (F2-incr-get)
         LET o == tokd(Plain(nr({PNum(d)}), [s EXCEPT !.ref[kr.name] = numref(d, 1)])) IN
         IF "F2-incr-get" \in F
           THEN {[o EXCEPT !.bufs = <<cnt("wbuf"), gbuf("leak")>>, !.sig = "F2-incr-get"]}
           ELSE {[o EXCEPT !.bufs = <<cnt("wbuf"), gbuf("freed")>>]}
    [] x.st = "live" ->
         IF x.len > 22 THEN
              \* early return: neither the SetData count nor the value read is released (F2)
              LET o == tokd(Plain(nr({PNum(0)}), s)) IN
              IF "F2" \in F
                THEN {[o EXCEPT !.bufs = <<cnt("leak"), gbuf("leak")>>, !.sig = "F2", !.wild = MaybeCompressed(kr.klen, x.len)]}
                ELSE {[o EXCEPT !.bufs = <<cnt("freed"), gbuf("freed")>>]}
         ELSE IF x.flag # FlagIncr \/ ~x.isnum THEN
              {[tokd(Plain(nr({PNum(0)}), s)) EXCEPT !.bufs = <<cnt("freed"), gbuf("freed")>>]}
         ELSE LET v == x.num + d
                  o == tokd(Plain(nr({PNum(v)}), [s EXCEPT !.ref[kr.name] = numref(v, x.ver + 1)])) IN
              IF "F2-incr-get" \in F
                THEN {[o EXCEPT !.bufs = <<cnt("wbuf"), gbuf("leak")>>, !.sig = "F2-incr-get"]}
                ELSE {[o EXCEPT !.bufs = <<cnt("wbuf"), gbuf("freed")>>]}
    [] x.st = "poison" ->
         IF "F10-resvflag" \in F
           THEN {[tokd(Plain(<<>>, s)) EXCEPT !.bufs = <<cnt("leak")>>, !.sig = "F10-resvflag", !.wild = TRUE],
                 [tokd(Plain(nr({PNumAny}), s)) EXCEPT !.bufs = <<cnt("leak")>>, !.sig = "F10-resvflag", !.wild = TRUE]}
           ELSE {tokd(Plain(nr({PNumAny, PErr}), [s EXCEPT !.ref[kr.name] = WildRef])), tokd(Closing(<<Opt({PErr})>>, s))}
    [] OTHER -> \* wild: what the store remembers of the key is not known here (e.g. a tombstone across a restart)
         {tokd(Plain(nr({PNumAny, PErr}), s))}
         \cup (IF "F2-incr-get" \in F
                THEN {[tokd(Plain(nr({PNumAny, PErr}), s)) EXCEPT !.bufs = <<cnt("wbuf"), gbuf("leak")>>, !.sig = "F2-incr-get", !.wild = TRUE]}
                ELSE {})

\* ---- decr (not implemented by the server) --------------------------------------------------------
DecrOutcomes(c, s, F) ==
  LET tokd(o) == [o EXCEPT !.tok = TRUE]
      cnt(fate) == <<Buf("cnt", 0, FALSE, fate)>>
      nr(pats) == IF c.noreply THEN <<>> ELSE <<One(pats)>>
  IN IF "F2" \in F
       THEN {[tokd(Closing(<<>>, s)) EXCEPT !.bufs = cnt("leak"), !.sig = "F2"]}
       ELSE {[tokd(Closing(<<>>, s)) EXCEPT !.bufs = cnt("freed")],
             [tokd(Plain(nr({PErr}), s)) EXCEPT !.bufs = cnt("freed")]}

\* ---- dispatcher ------------------------------------------------------------------------------------
\* nextgot: bytes delivered of the command that follows c in the stream (0: the client's EOF follows c)
Outcomes0(c, s, F, nextgot) ==
  IF s.junk THEN
       \* the previous command took this command's first two bytes: what is left is read as lines
       LET o == Plain(<<Junk>>, [s EXCEPT !.junk = FALSE]) IN {IF Cut(c) THEN Ending(o) ELSE o}
  ELSE IF c.got < c.hl THEN {Ending(Plain(<<>>, s))}        \* line cut short, then EOF: orderly close, no reply
  ELSE IF c.fault = "lfonly" /\ s.fresh /\ "F10-stale-recvtime" \in F THEN
       \* a line without CR is rejected BEFORE Request.ReceiveTime is set: on a fresh connection it is the zero
       \* time, the reply is replaced by PROCESS_TIMEOUT, and that one is never written
       LET o == HeaderError(c, s, {PErr}) IN {[o EXCEPT !.exp = Tail(o.exp), !.sig = "F10-stale-recvtime"]}
  ELSE IF c.verb \in StoreVerbs THEN StoreOutcomes(c, s, F, nextgot)
  ELSE IF c.fault = "lfonly" \/ c.verb = "empty" THEN {Plain(<<One({PErr})>>, s)}
  ELSE
  CASE c.verb \in {"get", "gets"} ->
         IF c.fault = "tokens" THEN {Plain(<<One({PErr})>>, s)} ELSE GetOutcomes(c, s, F)
    [] c.verb = "delete" ->
         IF c.fault \in {"tokens", "extra"} THEN {Plain(<<One({PErr})>>, s)} ELSE DeleteOutcomes(c, s, F)
    [] c.verb = "incr" ->
         IF c.fault \in {"tokens", "extra"} THEN {Plain(<<One({PErr})>>, s)} ELSE IncrOutcomes(c, s, F)
    [] c.verb = "decr" ->
         IF c.fault \in {"tokens", "extra"} THEN {Plain(<<One({PErr})>>, s)} ELSE DecrOutcomes(c, s, F)
    [] c.verb = "stats"     -> {Plain(<<One({Pt("STATS")})>>, s)}
    [] c.verb = "version"   -> {Plain(<<One({Pt("VERSION")})>>, s)}
    [] c.verb \in {"verbosity", "flush_all"} -> {Plain(<<One({Pt("OK")})>>, s)}
    [] c.verb = "quit"      -> {Closing(<<>>, s)}
    [] c.verb = "optimize_stat" -> {Plain(<<One({Pt("EXT")})>>, s)}
    [] OTHER -> {Plain(<<One({PErr})>>, s)}        \* unknown verbs, garbage lines

\* Request.ReceiveTime is set once a line ending in CRLF has been read
Outcomes(c, s, F, nextgot) ==
  LET fr == s.fresh /\ ~s.junk /\ (c.fault = "lfonly" \/ c.got < c.hl) IN
  {[o EXCEPT !.s.fresh = fr] : o \in Outcomes0(c, s, F, nextgot)}

\* does command c belong to the signature of finding f (used only to NAME a failure)?
SigOf(c, s) ==
  LET kr == IF Len(c.keys) > 0 THEN c.keys[1] ELSE [cls |-> "", name |-> "", id |-> "", klen |-> 0]
      x  == IF kr.name \in KeyNames THEN s.ref[kr.name] ELSE NoRef
  IN {f \in AllFindings : \E o \in Outcomes(c, s, AllFindings, 99) : o.sig = f}
     \cup (IF c.verb \in StoreVerbs /\ c.got >= c.hl /\ ~(c.fault \in {"lfonly", "tokens", "extra"})
              /\ ((c.nf = "bytes" /\ c.nc = "neg") \/ c.n > s.cf.bodymax \/ (s.cf.oomgate /\ c.n > s.cf.bodybig /\ s.backlog))
            THEN {"F13"} ELSE {})

-----------------------------------------------------------------------------
(* Part 3: a script against an observed reply list                          *)

\* accumulated residue of the counters: get/set/alloc (count, size), wild = not predictable, sigs = who
ZeroLk == [gc |-> 0, gs |-> 0, sc |-> 0, ss |-> 0, ac |-> 0, as |-> 0, wild |-> FALSE, sigs |-> {}]

RECURSIVE AddBufs(_, _, _)
AddBufs(lk, bufs, i) ==
  IF i > Len(bufs) THEN lk
  ELSE LET b == bufs[i]
           l2 == IF b.fate # "leak" THEN lk
                 ELSE CASE b.kind = "set" -> [lk EXCEPT !.sc = @ + 1, !.ss = @ + b.n,
                                                        !.ac = @ + (IF b.inc THEN 1 ELSE 0), !.as = @ + (IF b.inc THEN b.n ELSE 0)]
                        [] b.kind = "cnt" -> [lk EXCEPT !.sc = @ + 1]
                        [] b.kind = "neg" -> [lk EXCEPT !.sc = @ - 1]
                        [] b.kind = "calloc" -> [lk EXCEPT !.ac = @ + 1, !.as = @ + b.n]
                        [] OTHER          -> [lk EXCEPT !.gc = @ + 1, !.gs = @ + b.n,
                                                        !.ac = @ + (IF b.inc THEN 1 ELSE 0), !.as = @ + (IF b.inc THEN b.n ELSE 0)]
       IN AddBufs(l2, bufs, i + 1)

AddLeak(lk, o) ==
  LET l2 == AddBufs(lk, o.bufs, 1) IN
  [l2 EXCEPT !.wild = @ \/ o.wild, !.sigs = IF o.sig # "" THEN @ \cup {o.sig} ELSE @]

JunkSpan(obs, p) == {q \in p..(Len(obs) + 1) : \A i \in p..(q - 1) : obs[i].t \in ErrT}

MatchItem(item, P, obs, relaxed) ==
  LET hit == {q \in P : q <= Len(obs) /\ \E pat \in item.adm : Match(obs[q], pat, relaxed)} IN
  CASE item.k = "one"     -> {q + 1 : q \in hit}
    [] item.k = "opt"     -> P \cup {q + 1 : q \in hit}
    [] item.k = "junk"    -> UNION {JunkSpan(obs, p) : p \in P}
    [] OTHER              -> UNION {p..(Len(obs) + 1) : p \in P}

RECURSIVE MatchItems(_, _, _, _, _)
MatchItems(items, i, P, obs, relaxed) ==
  IF i > Len(items) \/ P = {} THEN P
  ELSE MatchItems(items, i + 1, MatchItem(items[i], P, obs, relaxed), obs, relaxed)

\* configurations: [s, pos, closed, ended, lk]
StepCfg(cf, c, nextgot, obs, F, relaxed) ==
  IF cf.closed \/ cf.ended THEN {cf}
  ELSE UNION {{[s |-> o.s, pos |-> p, closed |-> o.closes, ended |-> o.ends, lk |-> AddLeak(cf.lk, o)] :
                 p \in MatchItems(o.exp, 1, {cf.pos}, obs, relaxed)} : o \in Outcomes(c, cf.s, F, nextgot)}

NextGot(cmds, i) == IF i < Len(cmds) THEN cmds[i + 1].got ELSE 0

RECURSIVE RunFrom(_, _, _, _, _, _, _)
RunFrom(cfgs, cmds, i, upto, obs, F, relaxed) ==
  IF i > upto \/ cfgs = {} THEN cfgs
  ELSE RunFrom(UNION {StepCfg(cf, cmds[i], NextGot(cmds, i), obs, F, relaxed) : cf \in cfgs}, cmds, i + 1, upto, obs, F, relaxed)

\* every script runs on a connection of its own
Start(w) == {[s |-> [w.s EXCEPT !.fresh = TRUE, !.junk = FALSE], pos |-> 1, closed |-> FALSE, ended |-> FALSE, lk |-> w.lk]}

\* worlds [s, lk] reachable when the script's observation is accepted under F
Accepted(w, cmds, obs, closed, F, relaxed) ==
  {[s |-> cf.s, lk |-> cf.lk] :
     cf \in {x \in RunFrom(Start(w), cmds, 1, Len(cmds), obs, F, relaxed) : x.pos = Len(obs) + 1 /\ x.closed = closed}}

\* index of the first command at which no configuration survives (Len+1: the end condition failed)
FailIdx(w, cmds, obs, F) ==
  LET dead == {i \in 1..Len(cmds) : RunFrom(Start(w), cmds, 1, i, obs, F, FALSE) = {}} IN
  IF dead = {} THEN Len(cmds) + 1 ELSE CHOOSE i \in dead : \A j \in dead : i <= j

BadKeyCls == {"ctrl", "long", "dir17", "dirbad", "hashbad", "hashlen", "q", "qq", "metabad"}
WellFormed(c, cf) ==
  /\ c.fault = "none" /\ c.nc \in {"ok", "rev"} /\ c.got = c.tl
  /\ c.verb \notin {"unknown", "empty", "garbage", "append", "prepend", "decr", "optimize_stat"}
  /\ (c.verb \in StoreVerbs => c.n <= cf.bodymax)
  /\ \A i \in 1..Len(c.keys) : c.keys[i].cls \notin BadKeyCls
  /\ (c.verb \notin {"get", "gets"} => \A i \in 1..Len(c.keys) : c.keys[i].cls \in ValidKeyCls)

\* walks (first alternative) that name the findings a plan can touch: with the findings F, stopping at a
\* close or not (a finding that closes the connection today hides what follows it, once fixed it does not)
RECURSIVE PresentFrom(_, _, _, _, _, _)
PresentFrom(s, cmds, i, acc, F, stop) ==
  IF i > Len(cmds) THEN [s |-> s, sigs |-> acc]
  ELSE LET c  == cmds[i]
           os == Outcomes(c, s, F, NextGot(cmds, i))
           o  == CHOOSE x \in os : TRUE
       IN IF stop /\ (o.closes \/ o.ends) THEN [s |-> o.s, sigs |-> acc \cup SigOf(c, s)]
          ELSE PresentFrom(o.s, cmds, i + 1, acc \cup SigOf(c, s), F, stop)

-----------------------------------------------------------------------------
(* Part 4: the connection machine (ServeOnce at the grain of its stages)    *)
(*                                                                         *)
(*   Recv   Request.Read up to the end of the header: parse, RL.Get (blocks  *)
(*          while no token is free), body buffer allocated (owner parser)    *)
(*   Body   the client delivers the body          | Eof: the client goes away*)
(*   Proc   Request.Process / StorageClient: ownership moves                 *)
(*   Reply  Response.Write + Flush                                           *)
(*   Done   deferred cleanup: CleanBuffer, RL.Put                            *)
(*   Flush  dataStore.flush: write-buffer records written and freed          *)
(*                                                                         *)
(* Every value buffer is a ghost [id, kind, n, inc, owner, frees];           *)
(* owner in parser client wbuf reader response freed; the four published     *)
(* counters are DERIVED from ownership, never stored.                        *)
(***************************************************************************)
CONSTANTS Conns,        \* connection names
          MaxReq,       \* request tokens
          FAsIs,        \* findings taken as-is by the machine (subset of AllFindings)
          Mutants       \* specification mutants (self-test of the invariants)

VARIABLES conn,   \* [Conns -> [script, todo, stage, plan, base, out, tok, junk, closed, srvclosed]]
          free,   \* free request tokens
          bufs,   \* set of buffer ghosts
          st,     \* store state [ref, backlog, junk, cf] (junk is per connection: conn[c].junk)
          s0,     \* the initial store state (never changes; reference point of C11_OneReply)
          nid     \* next buffer id

mvars == <<conn, free, bufs, st, s0, nid>>

NoPlan == Plain(<<>>, [ref |-> [k \in KeyNames |-> NoRef], backlog |-> FALSE, junk |-> FALSE, fresh |-> TRUE,
                       cf |-> [oomgate |-> FALSE, bodyc |-> 0, bodybig |-> 0, bodymax |-> 0, disk |-> FALSE]])

RECURSIVE SetToSeq(_)
SetToSeq(S) == IF S = {} THEN <<>> ELSE LET x == CHOOSE y \in S : TRUE IN <<x>> \o SetToSeq(S \ {x})

Reply(t) == [t |-> t, items |-> <<>>, v |-> 0, vbig |-> FALSE]
Realise(p) ==
  CASE p.t = "ERR"    -> Reply("ERROR")
    [] p.t = "ANY1"   -> Reply("OK")
    [] p.t = "NUM"    -> [Reply("NUM") EXCEPT !.v = p.v]
    [] p.t = "VALUES" -> [Reply("VALUES") EXCEPT !.items =
                            SetToSeq({[id |-> q.id, vid |-> q.vid, flag |-> q.flag, cas |-> p.cas,
                                       mver |-> q.mver, mflag |-> q.mflag, mlen |-> q.mlen] : q \in p.items})]
    [] OTHER          -> Reply(p.t)

RECURSIVE Realisations(_, _)
Realisations(exp, i) ==
  IF i > Len(exp) THEN {<<>>}
  ELSE LET rest == Realisations(exp, i + 1)
           it   == exp[i]
           here == CASE it.k = "one"  -> {<<Realise(p)>> : p \in it.adm}
                     [] it.k = "opt"  -> {<<Realise(p)>> : p \in it.adm} \cup {<<>>}
                     [] it.k = "junk" -> {<<>>, <<Reply("ERROR")>>}
                     [] OTHER         -> {<<>>}
       IN {h \o r : h \in here, r \in rest}

\* ---- derived counters -----------------------------------------------------------------------
Live(b)   == b.owner # "freed"
CntSet    == Cardinality({b \in bufs : b.kind \in {"set", "cnt"} /\ b.owner \in {"parser", "client"}})
               - Cardinality({b \in bufs : b.kind = "neg"})
CntFlush  == Cardinality({b \in bufs : b.owner = "wbuf"})
CntGet    == Cardinality({b \in bufs : b.kind = "get" /\ b.owner \in {"reader", "response"}})
CntAlloc  == Cardinality({b \in bufs : b.inc /\ Live(b)})

Held      == Cardinality({c \in Conns : conn[c].tok})

\* ---- actions ---------------------------------------------------------------------------------------
MkBuf(id, c, b, owner) == [id |-> id, c |-> c, kind |-> b.kind, n |-> b.n, inc |-> b.inc, fate |-> b.fate,
                           owner |-> owner, frees |-> 0]
Free(b) == [b EXCEPT !.owner = "freed", !.frees = @ + 1]

ParserBufs(o) == SelectSeq(o.bufs, LAMBDA b : b.kind \in {"set", "cnt"})
ReaderBufs(o) == SelectSeq(o.bufs, LAMBDA b : b.kind \in {"get", "neg", "calloc"})

Recv(c) ==
  /\ conn[c].stage = "idle" /\ conn[c].todo # <<>> /\ ~conn[c].closed
  /\ LET cmd == Head(conn[c].todo)
         sin == [st EXCEPT !.junk = conn[c].junk, !.fresh = conn[c].fresh] IN
     \E o \in Outcomes(cmd, sin, FAsIs, NextGot(conn[c].todo, 1)) :
       /\ o.tok => free > 0
       /\ free' = IF o.tok THEN free - 1 ELSE free
       /\ LET pb == ParserBufs(o) IN
          /\ bufs' = bufs \cup {MkBuf(nid + i, c, pb[i], "parser") : i \in 1..Len(pb)}
          /\ nid' = nid + Len(pb)
       /\ conn' = [conn EXCEPT ![c].stage = IF HasBody(cmd) /\ o.tok THEN "body" ELSE "ready",
                               ![c].plan = o, ![c].base = st, ![c].tok = o.tok]
       /\ UNCHANGED <<st, s0>>

\* the body (and terminator) arrive
Body(c) ==
  /\ conn[c].stage = "body" /\ ~conn[c].plan.ends
  /\ conn' = [conn EXCEPT ![c].stage = "ready"]
  /\ UNCHANGED <<free, bufs, st, s0, nid>>

\* Request.Process and below
Proc(c) ==
  /\ conn[c].stage = "ready"
  /\ LET o  == conn[c].plan
         rb == ReaderBufs(o)
         mine == {b \in bufs : b.c = c /\ b.owner = "parser"}
         moved == {IF b.fate = "wbuf" THEN [b EXCEPT !.owner = "wbuf"]
                   ELSE IF b.fate = "freed" THEN Free(b)
                   ELSE [b EXCEPT !.owner = "client"] : b \in mine}
         fresh == {MkBuf(nid + i, c, rb[i],
                         IF rb[i].kind = "neg" THEN "negative"
                         ELSE IF rb[i].fate = "resp" THEN "response"
                         ELSE IF rb[i].fate = "leak" THEN "reader" ELSE "reader") : i \in 1..Len(rb)}
         fresh2 == {IF b.kind = "get" /\ b.fate = "freed" THEN Free(b) ELSE b : b \in fresh}
     IN /\ bufs' = (bufs \ mine) \cup moved \cup fresh2
        /\ nid' = nid + Len(rb)
        /\ st' = [st EXCEPT !.ref = [k \in KeyNames |-> IF o.s.ref[k] # conn[c].base.ref[k] THEN o.s.ref[k] ELSE st.ref[k]],
                            !.backlog = st.backlog \/ o.s.backlog]
        /\ conn' = [conn EXCEPT ![c].stage = "processed", ![c].junk = o.s.junk, ![c].fresh = o.s.fresh]
        /\ UNCHANGED <<free, s0>>

Respond(c) ==
  /\ conn[c].stage = "processed"
  /\ \E r \in Realisations(conn[c].plan.exp, 1) :
       conn' = [conn EXCEPT ![c].stage = "replied", ![c].out = @ \o r]
  /\ UNCHANGED <<free, bufs, st, s0, nid>>

\* deferred cleanup of ServeOnce
Done(c) ==
  /\ conn[c].stage = "replied"
  /\ LET o == conn[c].plan
         resp == {b \in bufs : b.c = c /\ b.owner = "response"}
         keepTok == "NoTokenPutOnPanic" \in Mutants /\ o.sig \in {"F10", "F10-negbytes", "F10-resvflag"}
         dbl == "DoubleFree" \in Mutants
     IN /\ bufs' = (bufs \ resp) \cup {IF dbl THEN Free(Free(b)) ELSE Free(b) : b \in resp}
        /\ free' = IF conn[c].tok /\ ~keepTok THEN free + 1 ELSE free
        /\ conn' = [conn EXCEPT ![c].stage = "idle", ![c].tok = FALSE, ![c].todo = Tail(@),
                                ![c].closed = o.closes \/ o.ends, ![c].srvclosed = o.closes]
  /\ UNCHANGED <<st, s0, nid>>

\* the client goes away while the server waits for the rest of a command
Eof(c) ==
  /\ conn[c].stage = "body" /\ conn[c].plan.ends
  /\ LET mine == {b \in bufs : b.c = c /\ b.owner = "parser"}
         leak == "LeakOnEof" \in Mutants
     IN bufs' = IF leak THEN bufs ELSE (bufs \ mine) \cup {Free(b) : b \in mine}
  /\ free' = IF conn[c].tok THEN free + 1 ELSE free
  /\ conn' = [conn EXCEPT ![c].stage = "idle", ![c].tok = FALSE, ![c].todo = <<>>, ![c].closed = TRUE]
  /\ UNCHANGED <<st, s0, nid>>

\* (with the memory-shortage gate on, the model flushes only at the end: the reference run of C11_OneReply
\* knows no flush, like the harness, where only Close flushes)
Flush ==
  /\ \E b \in bufs : b.owner = "wbuf"
  /\ st.cf.oomgate => \A c \in Conns : conn[c].stage = "idle" /\ (conn[c].todo = <<>> \/ conn[c].closed)
  /\ bufs' = {IF b.owner = "wbuf" THEN Free(b) ELSE b : b \in bufs}
  /\ st' = [st EXCEPT !.backlog = FALSE]
  /\ UNCHANGED <<conn, free, s0, nid>>

MInit(scripts, init) ==
  /\ conn = [c \in Conns |-> [script |-> scripts[c], todo |-> scripts[c], stage |-> "idle", plan |-> NoPlan, base |-> init,
                               out |-> <<>>, tok |-> FALSE, junk |-> FALSE, fresh |-> TRUE, closed |-> FALSE, srvclosed |-> FALSE]]
  /\ free = MaxReq /\ bufs = {} /\ st = init /\ s0 = init /\ nid = 0

\* every connection idle and everything flushed: the run is over (keeps deadlock checking meaningful:
\* any OTHER state without a successor is a wedged server, C11 "never wedged")
Finished == (\A c \in Conns : conn[c].stage = "idle" /\ (conn[c].todo = <<>> \/ conn[c].closed))
            /\ (\A b \in bufs : b.owner # "wbuf") /\ UNCHANGED mvars

MNext == (\E c \in Conns : Recv(c) \/ Body(c) \/ Proc(c) \/ Respond(c) \/ Done(c) \/ Eof(c)) \/ Flush \/ Finished

\* ---- properties of the machine ----------------------------------------------------------------------
Idle(c)   == conn[c].stage = "idle" /\ (conn[c].todo = <<>> \/ conn[c].closed)
Quiescent == (\A c \in Conns : Idle(c)) /\ CntFlush = 0

C12_Tokens       == free + Held = MaxReq /\ free >= 0
C12_Zero         == Quiescent => (free = MaxReq /\ CntSet = 0 /\ CntGet = 0 /\ CntAlloc = 0 /\ \A b \in bufs : ~Live(b) \/ b.kind = "neg")
C12_ZeroStrict   == Quiescent => (free = MaxReq /\ \A b \in bufs : ~Live(b))
C12_NoDoubleFree == \A b \in bufs : b.frees <= 1
C12_NoNegative   == CntSet >= 0

\* one reply per command, in order: the machine's own output against the property-conforming outcomes
InitWorld == [s |-> s0, lk |-> ZeroLk]
C11_OneReply ==
  \A c \in Conns : Idle(c) =>
     Accepted(InitWorld, conn[c].script, conn[c].out, conn[c].srvclosed, {}, FALSE) # {}
=============================================================================
