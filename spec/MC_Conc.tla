------------------------------ MODULE MC_Conc ------------------------------
(* Free interleaving of client writers, a reader, the flusher, the post-   *)
(* rotation flusher and (optionally) one GC pass over Bucket.tla: every    *)
(* ordering of (append, tree update, flush write, buffer detach, read by   *)
(* position) and every placement of a client write relative to GC's        *)
(* newest-check / copy / repoint-get / repoint-set / hint / source clear.  *)
(* C04 / C05 / C17(single pass).                                           *)
EXTENDS Bucket

CONSTANTS Writers, Readers, OpsPerWriter, OpsPerReader, WithGC, WithFlush, Prefix, FileMax, SplitCap, Mutants

VARIABLES budget,   \* remaining operations per client
          phase,    \* "prefix" (sequential preparation) | "conc"
          flushes, gcs

Conf0 == [hashOf |-> [k \in Keys |-> "h" \o k], rank |-> [k \in Keys |-> 1],
          fileMax |-> FileMax, splitCap |-> SplitCap, checkVHash |-> FALSE, dumpEager |-> FALSE,
          bodyMaxBlk |-> 1, mut |-> Mutants]

mvars == <<budget, phase, flushes, gcs>>

\* values are unique per (writer, remaining budget) so a read identifies the write it saw
WNo == ("c1" :> 1) @@ ("c2" :> 2) @@ ("c3" :> 3) @@ ("r1" :> 4) @@ ("r2" :> 5)
ValOf(w, n) == 10 * WNo[w] + n

\* preparations (sequential prefix): key "a" current in file 0 (and superseded once), file 0 full, head moved on
PrefixNone == <<>>
PrefixA2   == <<[k |-> "a", rev |-> 0], [k |-> "a", rev |-> 0], [k |-> "a", rev |-> 0]>>          \* a v1,a v2 | a v3
PrefixAB   == <<[k |-> "a", rev |-> 0], [k |-> "b", rev |-> 0], [k |-> "b", rev |-> 0]>>          \* a v1,b v1 | b v2
PrefixAdel == <<[k |-> "a", rev |-> 0], [k |-> "a", rev |-> -1], [k |-> "b", rev |-> 0]>>         \* a v1,a del | b v1

MCInit ==
  /\ Init(Conf0)
  /\ budget = [c \in Clients |-> IF c \in Writers THEN OpsPerWriter ELSE OpsPerReader]
  /\ phase = IF Prefix = <<>> THEN "conc" ELSE "prefix"
  /\ flushes = 0 /\ gcs = 0

\* sequential preparation: a fixed list of writes + flush so that GC has something to do
PrefixStep ==
  /\ phase = "prefix" /\ Quiet
  /\ LET i == Len(recs) + 1 IN
     IF i <= Len(Prefix)
       THEN /\ W_Begin("c1", Prefix[i].k, 90 + i, Prefix[i].rev, 0, 1, 90 + i)
            /\ UNCHANGED mvars
       ELSE IF TotalWbuf \/ (\E c \in Chunks : pc[RotName(c)] = "spawned")
         THEN /\ (\/ (\E c \in Chunks : pc[RotName(c)] = "spawned" /\ F_Enter(RotName(c)))
                  \/ ((\A c \in Chunks : pc[RotName(c)] # "spawned") /\ F_Start("flusher")))
              /\ UNCHANGED mvars
       ELSE /\ phase' = "conc" /\ UNCHANGED <<vars, budget, flushes, gcs>>

ClientStart(c) ==
  /\ phase = "conc" /\ budget[c] > 0
  /\ budget' = [budget EXCEPT ![c] = @ - 1]
  /\ UNCHANGED <<phase, flushes, gcs>>
  /\ IF c \in Writers
       THEN \E k \in Keys : \/ W_Begin(c, k, ValOf(c, budget[c]), 0, 0, 1, ValOf(c, budget[c]))
                            \/ W_Begin(c, k, 0, -1, 0, 1, 0)
       ELSE \E k \in Keys : R_Begin(c, k)

FlushStart == /\ phase = "conc" /\ WithFlush /\ flushes < 1 /\ F_Start("flusher")
              /\ flushes' = flushes + 1 /\ UNCHANGED <<budget, phase, gcs>>
RotStart   == /\ \E c \in Chunks : pc[RotName(c)] = "spawned" /\ F_Enter(RotName(c))
              /\ UNCHANGED mvars
GCStart    == /\ phase = "conc" /\ WithGC /\ gcs < 1
              /\ \E b \in 0..MaxChunk, e \in 0..MaxChunk :
                   LET r == RangeOf(b, e, LAMBDA n : TRUE) IN r.ok /\ r.b = b /\ r.e = e /\ G_Start(b, e, FALSE)
              /\ gcs' = gcs + 1 /\ UNCHANGED <<budget, phase, flushes>>

MCNext == \/ PrefixStep
          \/ (phase = "prefix" /\ Continue /\ UNCHANGED mvars)
          \/ (phase = "conc" /\ (\/ (\E c \in Clients : ClientStart(c))
                                 \/ FlushStart \/ RotStart \/ GCStart
                                 \/ (Continue /\ UNCHANGED mvars)))

MCSpec == MCInit /\ [][MCNext]_<<vars, mvars>>

Bound == head < MaxChunk

\* ---- C04 / C05 as state predicates over the ghosts ----
\* a completed read (pc = r_done) returned a real write of its key, not older than the newest write
\* acknowledged before it began; a miss only if nothing was acknowledged or a delete at least that new exists
C04_Read ==
  \A p \in Clients : pc[p] = "r_done" =>
     LET l == loc[p] IN
     IF l.res = "hit" /\ l.ver > 0 THEN recs[l.rid].key = l.k /\ Abs(l.ver) >= l.lb
     ELSE IF l.res = "miss" \/ (l.res = "hit" /\ l.ver < 0)
       THEN l.lb = 0 \/ \E i \in 1..Len(recs) : recs[i].key = l.k /\ recs[i].ver < 0 /\ Abs(recs[i].ver) >= l.lb
     ELSE TRUE        \* read ERRORS are counted, not C04 violations (the text speaks of values returned)
C04_NoReadErr == \A p \in Clients : pc[p] = "r_done" => loc[p].res # "err"

AllDone == phase = "conc" /\ Quiet /\ (\A c \in Clients : budget[c] = 0) /\ (\A c \in Chunks : pc[RotName(c)] = "idle")
\* once everything stops every key holds the write with the highest version (= the reference map)
C04_Final == AllDone => \A k \in Keys : Agrees(k, SpecRead(k), ref[k], 1)
=============================================================================
