SPECIFICATION Spec
CONSTANTS
  Procs = {%PROCS%}
CONSTRAINT HighWater
INVARIANT Report
POSTCONDITION TraceAccepted
CHECK_DEADLOCK FALSE
