SPECIFICATION TraceSpec
CONSTANTS
  KeyNames = {%KEYNAMES%}
  Conns = {"c1"}
  MaxReq = 1
  FAsIs = {}
  Mutants = {}
CONSTRAINT HighWater
INVARIANT Report
POSTCONDITION TraceAccepted
CHECK_DEADLOCK FALSE
