SPECIFICATION TraceSpec
CONSTANTS
  KeyNames = {%KEYNAMES%}
  Conns = {"c1"}
  MaxReq = 1
  FAsIs = {}
  Mutants = {}
  Listed = {%LISTED%}
CONSTRAINT HighWater
INVARIANT Report
POSTCONDITION TraceAccepted
CHECK_DEADLOCK FALSE
