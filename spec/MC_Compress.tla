---------------------------- MODULE MC_Compress ----------------------------
(***************************************************************************)
(* Two uses of Compress.tla:                                               *)
(*  MCSpec  - exhaustive model checking of the one-key state machine: any  *)
(*            interleaving of set (every case value) / flush / filler /    *)
(*            close / open with any subset of {hints, tree dump} deleted / *)
(*            GC, bounded by MaxOps; invariants C10_Transparent, C10_VHash.*)
(*  GenSpec - the scenario generator: every (case value, read path) is     *)
(*            walked through the model (each operation of the path must be *)
(*            applicable: GenWellFormed) and printed as JSON at its end.   *)
(***************************************************************************)
EXTENDS Compress, Json

CONSTANTS MaxOps,     \* bound on the operations of a behaviour (MCSpec)
          MaxSets,    \* ... of which sets
          SPFilter    \* size points used (a subset keeps the quick tier small)

VARIABLES s,      \* the state record of Compress.tla
          nops, nsets,
          g       \* generator: [cs, path, i, ok, comp] or NoGen

NoGen == [on |-> FALSE]
Vals  == {v \in Values : v.sp \in SPFilter}

vars == <<s, nops, nsets, g>>

CurOf(v) == [id |-> v.id, cflag |-> v.cflag, len |-> v.len, vh |-> v.id, svh |-> -v.id, ver |-> 0]

-----------------------------------------------------------------------------
MCInit == s = S0 /\ nops = 0 /\ nsets = 0 /\ g = NoGen

Op(t) == s' = t /\ nops' = nops + 1 /\ UNCHANGED <<nsets, g>>

MCNext ==
  /\ nops < MaxOps
  /\ \/ /\ s.up /\ nsets < MaxSets
        /\ \E cs \in Vals : LET v == ValOf(cs, nsets + 1) IN s' = DoSet(s, v, CurOf(v))
        /\ nops' = nops + 1 /\ nsets' = nsets + 1 /\ UNCHANGED g
     \/ (s.up /\ Op(DoFlush(s)))
     \/ (s.up /\ s.filler = "none" /\ Op(DoFiller(s)))
     \/ (s.up /\ Op(DoClose(s)))
     \/ (~s.up /\ \E rh, rt \in BOOLEAN : Op(DoOpen(s, rh, rt)))
     \/ (GCOk(s) /\ Op(DoGC(s)))

MCSpec == MCInit /\ [][MCNext]_vars

C10_Transparent == C10_TransparentS(s)
C10_VHash       == C10_VHashS(s)

\* sanity of the model itself: the stored flag carries 0x10000 iff Decision, the client bit is preserved
StoredFlagOK == s.rec.loc # "none" =>
                  /\ HasBit(s.rec.sflag, FLAG_COMPRESS) = (s.rec.form # "plain")
                  /\ s.rec.sflag - (IF HasBit(s.rec.sflag, FLAG_COMPRESS) THEN FLAG_COMPRESS ELSE 0) = s.cur.cflag

-----------------------------------------------------------------------------
(* generator *)

Apply(t, op, v) ==
  CASE op = "set"         -> DoSet(t, v, CurOf(v))
    [] op = "prev"        -> LET p == [id |-> 99, cflag |-> 0, len |-> 3000, ksz |-> v.ksz, class |-> "compressible",
                                       pc |-> 1250, fc |-> 1250] IN DoSet(t, p, CurOf(p))
    [] op = "get"         -> t
    [] op = "flush"       -> DoFlush(t)
    [] op = "filler"      -> DoFiller(t)
    [] op = "close"       -> DoClose(t)
    [] op = "open"        -> DoOpen(t, FALSE, FALSE)
    [] op = "open_rmhint" -> DoOpen(t, TRUE, FALSE)
    [] op = "open_rmtree" -> DoOpen(t, FALSE, TRUE)
    [] op = "open_rmall"  -> DoOpen(t, TRUE, TRUE)
    [] op = "gc"          -> DoGC(t)

Applicable(t, op) ==
  CASE op \in {"set", "prev", "get", "flush", "filler", "close"} -> t.up
    [] op \in {"open", "open_rmhint", "open_rmtree", "open_rmall"} -> ~t.up
    [] op = "gc" -> GCOk(t)

GenInit == /\ s = S0 /\ nops = 0 /\ nsets = 0
           /\ g \in {[on |-> TRUE, cs |-> cs, path |-> p, i |-> 1, ok |-> TRUE, seen |-> {}] : cs \in Vals, p \in Paths}

GenNext ==
  /\ g.on /\ g.i <= Len(PathOps(g.path))
  /\ LET op == PathOps(g.path)[g.i]
         v  == ValOf(g.cs, 1)
         t  == Apply(s, op, v)
     IN /\ s' = t
        /\ g' = [g EXCEPT !.i = @ + 1, !.ok = @ /\ Applicable(s, op),
                          !.seen = IF t.up /\ t.cur.id = 1 THEN @ \cup {PathName(t)} ELSE @]
  /\ UNCHANGED <<nops, nsets>>

GenSpec == GenInit /\ [][GenNext]_vars

GenDone == g.on /\ g.i = Len(PathOps(g.path)) + 1

\* printed once per (value, path): the scenario, with what the model expects of it
GenCase == [class |-> g.cs.class, sp |-> g.cs.sp, content |-> g.cs.content, permille |-> g.cs.permille,
            cflag |-> g.cs.cflag, len |-> g.cs.len, ksz |-> g.cs.ksz, path |-> g.path, ops |-> PathOps(g.path),
            expect_comp |-> Decide(ValOf(g.cs, 1)), reads |-> g.seen]

GenPrint == GenDone => PrintT(<<"VERIF-CASE", ToJson(GenCase)>>)
GenWellFormed == g.on => g.ok
\* the model satisfies the properties along every generated path as well
GenProps == g.on => (C10_TransparentS(s) /\ C10_VHashS(s))
=============================================================================
