\* vector generation: reads inputs.ndjson, writes vectors.ndjson (no behaviour specification: only the ASSUME is evaluated)
CONSTANTS
  Shard = 0
  NShards = 1
  DoShort = TRUE
  DoLayout = 2
  PatSeed = 1
