SPECIFICATION MCSpec
CONSTANTS
  Keys = {"a", "b"}
  HashIds = {"ha", "hb"}
  Clients = {"c1"}
  MaxChunk = 3
  Vals = {1, 2, 3}
  Revs = {0, 5}
  MaxOps = 4
  CheckVH = FALSE
  Collide = FALSE
  MaxRestarts = 1
  Mutants = {}
CONSTRAINT Bound
INVARIANTS TypeOK C02_Restart NoFatal C02_NoLostAck
CHECK_DEADLOCK FALSE
