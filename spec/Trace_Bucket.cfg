SPECIFICATION TraceSpec
CONSTANTS
  Keys = {%KEYS%}
  HashIds = {%HASHIDS%}
  Clients = {"c1"}
  MaxChunk = %MAXCHUNK%
CONSTRAINT HighWater
INVARIANT Report
POSTCONDITION TraceAccepted
CHECK_DEADLOCK FALSE
