----------------------------- MODULE Trace_Conc -----------------------------
(***************************************************************************)
(* Validation of invoke/response histories recorded from concurrently      *)
(* running client goroutines of the real store (free-running mode) against *)
(* the per-key register with versions that C04/C05 describe:               *)
(*  C04_Distinct : accepted writes to one key get distinct |versions|, and *)
(*                 a write acknowledged before another is invoked has the  *)
(*                 smaller |version|                                       *)
(*  C04_Read     : a read returns a value some write to that key stored,   *)
(*                 not older than the newest write acknowledged before the *)
(*                 read began; a miss only if nothing was acknowledged or  *)
(*                 a delete at least that new was invoked before it ended  *)
(*  C04_Final    : when everything has stopped every key holds the write   *)
(*                 with the greatest |version|                             *)
(* Every write carries a unique value id, so a read identifies its write;  *)
(* versions make the per-key order explicit: validation is linear.         *)
(***************************************************************************)
EXTENDS Integers, Sequences, FiniteSets, TLC, Json

CONSTANTS Keys, Procs

Trace == ndJsonDeserialize("trace.ndjson")

VARIABLES l, sid, bad,
          W,        \* key -> set of writes [val, ver (0 = not yet known), del, done]
          acked,    \* key -> greatest |version| acknowledged so far
          pend      \* proc -> [op, k, val, lb] of the operation in progress ("" = none)

vars == <<l, sid, bad, W, acked, pend>>
Abs(n) == IF n < 0 THEN -n ELSE n
Max2(a, b) == IF a >= b THEN a ELSE b
Ev == Trace[l]
IsEv(a) == l <= Len(Trace) /\ Trace[l].a = a
NoPend == [op |-> "", k |-> "", val |-> 0, lb |-> 0]

Init == /\ l = 1 /\ sid = "" /\ bad = {} /\ TLCSet(1, 1)
        /\ W = [k \in Keys |-> {}] /\ acked = [k \in Keys |-> 0] /\ pend = [p \in Procs |-> NoPend]

TrReset == /\ IsEv("Reset") /\ l' = l + 1 /\ sid' = Ev.sid /\ bad' = bad
           /\ W' = [k \in Keys |-> {}] /\ acked' = [k \in Keys |-> 0] /\ pend' = [p \in Procs |-> NoPend]

\* a sequential write before the concurrent phase (Set event of the ordinary runner)
TrSeqSet == /\ IsEv("Set") /\ l' = l + 1 /\ UNCHANGED <<sid, bad, pend>>
            /\ IF Ev.res = "ok" /\ Ev.ver # 0
                 THEN /\ W' = [W EXCEPT ![Ev.k] = @ \cup {[val |-> Ev.val, ver |-> Ev.ver, del |-> Ev.rev < 0, done |-> TRUE, p |-> ""]}]
                      /\ acked' = [acked EXCEPT ![Ev.k] = Max2(@, Abs(Ev.ver))]
                 ELSE UNCHANGED <<W, acked>>

TrInv == /\ IsEv("Inv") /\ l' = l + 1 /\ UNCHANGED <<sid, bad, acked>>
         /\ pend' = [pend EXCEPT ![Ev.p] = [op |-> Ev.op, k |-> Ev.k, val |-> Ev.val, lb |-> acked[Ev.k]]]
         /\ W' = IF Ev.op \in {"set", "del"}
                   THEN [W EXCEPT ![Ev.k] = @ \cup {[val |-> Ev.val, ver |-> 0, del |-> Ev.op = "del", done |-> FALSE, p |-> Ev.p]}]
                   ELSE W

TrRes ==
  /\ IsEv("Res") /\ l' = l + 1 /\ sid' = sid
  /\ LET p == Ev.p pe == pend[p] k == Ev.k IN
     /\ pend' = [pend EXCEPT ![p] = NoPend]
     /\ IF Ev.op \in {"set", "del"}
          THEN LET mine == {w \in W[k] : ~w.done /\ w.p = p}
                   others == W[k] \ mine
                   wrote == Ev.ok /\ Ev.ver # 0 /\ (Ev.op = "set" \/ Ev.ver < 0)
                   dup == wrote /\ \E w \in others : w.ver # 0 /\ Abs(w.ver) = Abs(Ev.ver)
                   stale == wrote /\ Abs(Ev.ver) <= pe.lb
               IN /\ W' = [W EXCEPT ![k] = IF wrote THEN others \cup {[val |-> Ev.val, ver |-> Ev.ver, del |-> Ev.op = "del", done |-> TRUE, p |-> ""]}
                                           ELSE others]
                  /\ acked' = IF wrote THEN [acked EXCEPT ![k] = Max2(@, Abs(Ev.ver))] ELSE acked
                  /\ bad' = bad \cup (IF dup THEN {<<sid, Ev.n, "C04_Distinct">>} ELSE {})
                                \cup (IF stale THEN {<<sid, Ev.n, "C04_Order">>} ELSE {})
          ELSE \* get
               LET okHit == \E w \in W[k] : w.val = Ev.val /\ ~w.del /\ (w.ver = 0 \/ w.ver = Ev.ver) /\ Abs(Ev.ver) >= pe.lb
                   okMiss == pe.lb = 0 \/ \E w \in W[k] : w.del /\ (w.ver = 0 \/ Abs(w.ver) >= pe.lb)
                   okTomb == \E w \in W[k] : w.del /\ (w.ver = 0 \/ w.ver = Ev.ver) /\ Abs(Ev.ver) >= pe.lb
                   fine == IF Ev.res = "hit" /\ Ev.ver > 0 THEN okHit
                           ELSE IF Ev.res = "hit" THEN okTomb
                           ELSE IF Ev.res = "miss" THEN okMiss ELSE TRUE     \* read errors are counted by the harness, not violations
               IN /\ UNCHANGED <<W, acked>>
                  /\ bad' = bad \cup (IF fine THEN {} ELSE {<<sid, Ev.n, "C04_Read">>})

\* everything has stopped: every key holds its write of greatest |version|
TrFreeDone ==
  /\ IsEv("FreeDone") /\ l' = l + 1 /\ UNCHANGED <<sid, W, acked, pend>>
  /\ bad' = bad \cup
       {<<sid, Ev.n, "C04_Final">> : k \in {k \in DOMAIN Ev.reads :
            k \in Keys /\
            LET g == Ev.reads[k]
                done == {w \in W[k] : w.ver # 0}
                top == IF done = {} THEN [val |-> 0, ver |-> 0, del |-> TRUE]
                       ELSE CHOOSE w \in done : \A v \in done : Abs(w.ver) >= Abs(v.ver)
            IN ~(IF top.ver = 0 THEN g.res = "miss"
                 ELSE IF top.del THEN (g.res = "miss" \/ (g.res = "hit" /\ g.ver = top.ver))
                 ELSE g.res = "hit" /\ g.ver = top.ver /\ g.val = top.val)}}

TrOther == /\ l <= Len(Trace) /\ Trace[l].a \notin {"Reset", "Set", "Inv", "Res", "FreeDone"}
           /\ l' = l + 1 /\ UNCHANGED <<sid, bad, W, acked, pend>>

Next == TrReset \/ TrSeqSet \/ TrInv \/ TrRes \/ TrFreeDone \/ TrOther
Spec == Init /\ [][Next]_vars

Done == l = Len(Trace) + 1
Report == Done => PrintT(<<"VERIF-RESULT", ToJson([bad |-> bad, drift |-> {}, lead |-> {}, consumed |-> l - 1])>>)
HighWater == TLCSet(1, IF TLCGet(1) < l THEN l ELSE TLCGet(1))
TraceAccepted == IF TLCGet(1) = Len(Trace) + 1 THEN TRUE ELSE PrintT(<<"VERIF-STUCK", TLCGet(1)>>) /\ FALSE
=============================================================================
