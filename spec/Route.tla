------------------------------- MODULE Route -------------------------------
(***************************************************************************)
(* C15: a key is served by exactly one bucket, the one named by the first  *)
(* TreeDepth hex digits of its key hash (store/key.go KeyInfo.Prepare,     *)
(* store/hstore.go Get/Set/Incr with the BUCKET_STAT_READY gate,           *)
(* store/config.go GetBucketDir).  NumBucket \in {1,16,256} is depth       *)
(* \in {0,1,2}.  A node keeps one store per bucket; operations on a key of *)
(* a bucket that is not served change nothing (set replies success, as the *)
(* code does; get misses; incr replies 0).  Listings above the bucket      *)
(* level aggregate the roots of the served buckets (HTreeList!UpNode).     *)
(*                                                                         *)
(* Model checked over 2 significant digits, a small digit alphabet, EVERY  *)
(* served subset and every sequence of <= RMaxOps operations.              *)
(***************************************************************************)
EXTENDS HTreeList

RDepth  == 2
RAlpha  == {0, 7, 15}
RMaxOps == 3
RVh     == {1, 65535}
\* overridable variants for the configuration files
Depth0 == 0
Depth1 == 1
Depth2 == 2
Alpha2 == {0, 15}
Alpha3 == {0, 7, 15}
RVh1 == {40503}
RVh2 == {1, 65535}
ROps2 == 2
ROps3 == 3
ROps4 == 4
MutShift == "shift"
MutNoGate == "nogate"
RMut  == "none"     \* specification mutants: "shift" (wrong digits for 256 buckets) "nogate" (Incr not gated)

RConf == [depth |-> RDepth, height |-> 2, listTh |-> 2, bigTh |-> 2]
RKeys == {<<a, b, 0, 0, 0, 0, 1, 1, 0, 0, 0, 0, 0, 0, 0, 0>> : a \in RAlpha, b \in RAlpha}
RECURSIVE PathsOver(_)
PathsOver(n) == IF n = 0 THEN {<<>>} ELSE {Append(p, a) : p \in PathsOver(n - 1), a \in RAlpha}
BPaths == PathsOver(RDepth)
Buckets == {BucketId(p) : p \in BPaths}

\* the property's definition: the value of the first depth digits
Bucket(d) == BucketId(SubSeq(d, 1, RDepth))
\* KeyInfo.Prepare, transcribed: BucketID <<= 4; BucketID += v  over KeyPath[:TreeDepth]
BucketCode(d) ==
  IF RMut = "shift" /\ RDepth = 2 THEN d[1] * 16 + d[1]
  ELSE FoldLeft(LAMBDA id, v : id * 16 + v, 0, SubSeq(d, 1, RDepth))
\* GetBucketDir: "" | "%x" | "%x/%x" of (id/16, id%16), as a digit path
DirOf(b) == IF RDepth = 0 THEN <<>> ELSE IF RDepth = 1 THEN <<b>> ELSE <<b \div 16, b % 16>>

VARIABLES served,   \* set of bucket ids that are READY
          bstore,   \* bucket id -> set of items [d, vh, ver] held in that bucket's directory/tree
          ref,      \* key -> [vh, ver]: the content an ideal single store would hold for SERVED keys
          rops, last
rvars == <<served, bstore, ref, rops, last>>

NoRef == [vh |-> 0, ver |-> 0]
NoObs == [op |-> "none", k |-> <<>>, res |-> "", grew |-> {}]
Abs(x) == IF x < 0 THEN -x ELSE x

RInit == /\ served \in SUBSET Buckets
         /\ bstore = [b \in Buckets |-> {}]
         /\ ref = [k \in RKeys |-> NoRef]
         /\ rops = 0 /\ last = NoObs
         /\ HDummy

Slot(b, k) == IF \E x \in bstore[b] : x.d = k THEN CHOOSE x \in bstore[b] : x.d = k ELSE [d |-> k, vh |-> 0, ver |-> 0]
Put(b, k, vh, ver) == [bstore EXCEPT ![b] = {x \in @ : x.d # k} \cup {[d |-> k, vh |-> vh, ver |-> ver]}]

\* HStore.Set: gate, then checkAndSet (auto version)
RSet(k, vh) ==
  LET b == BucketCode(k) IN
  /\ rops' = rops + 1 /\ UNCHANGED served /\ HIdle
  /\ IF b \in served
       THEN LET nv == Abs(Slot(b, k).ver) + 1 IN
            /\ bstore' = Put(b, k, vh, nv)
            /\ ref' = [ref EXCEPT ![k] = [vh |-> vh, ver |-> Abs(@.ver) + 1]]
            /\ last' = [op |-> "set", k |-> k, res |-> "ok", grew |-> {b}]
       ELSE /\ UNCHANGED <<bstore, ref>>
            /\ last' = [op |-> "set", k |-> k, res |-> "ok", grew |-> {}]

RDel(k) ==
  LET b == BucketCode(k) IN
  /\ rops' = rops + 1 /\ UNCHANGED served /\ HIdle
  /\ IF b \in served /\ Slot(b, k).ver > 0
       THEN /\ bstore' = Put(b, k, 0, -Slot(b, k).ver - 1)
            /\ ref' = [ref EXCEPT ![k] = [vh |-> 0, ver |-> -@.ver - 1]]
            /\ last' = [op |-> "del", k |-> k, res |-> "ok", grew |-> {b}]
       ELSE /\ UNCHANGED <<bstore, ref>>
            /\ last' = [op |-> "del", k |-> k, res |-> IF b \in served THEN "NOT_FOUND" ELSE "ok", grew |-> {}]

RGet(k) ==
  LET b == BucketCode(k) IN
  /\ rops' = rops + 1 /\ UNCHANGED <<served, bstore, ref>> /\ HIdle
  /\ last' = [op |-> "get", k |-> k, grew |-> {},
              res |-> IF b \in served /\ Slot(b, k).ver > 0 THEN <<"hit", Slot(b, k).vh, Slot(b, k).ver>> ELSE <<"miss">>]

\* HStore.Incr: gate, then read-add-set WITHOUT the version check (Bucket.incr)
RIncr(k, vh) ==
  LET b == BucketCode(k) IN
  /\ rops' = rops + 1 /\ UNCHANGED served /\ HIdle
  /\ IF b \in served \/ (RMut = "nogate" /\ b \in Buckets)
       THEN LET nv == IF Slot(b, k).ver > 0 THEN Slot(b, k).ver + 1 ELSE 1 IN
            /\ bstore' = Put(b, k, vh, nv)
            /\ ref' = [ref EXCEPT ![k] = [vh |-> vh, ver |-> IF @.ver > 0 THEN @.ver + 1 ELSE 1]]
            /\ last' = [op |-> "incr", k |-> k, res |-> "n", grew |-> {b}]
       ELSE /\ UNCHANGED <<bstore, ref>>
            /\ last' = [op |-> "incr", k |-> k, res |-> "0", grew |-> {}]

RNext == /\ rops < RMaxOps
         /\ \E k \in RKeys : \/ \E vh \in RVh : RSet(k, vh) \/ RIncr(k, vh)
                             \/ RDel(k) \/ RGet(k)
RSpec == RInit /\ [][RNext]_<<rvars, hvars>>

-----------------------------------------------------------------------------
\* content of the whole node by the reference map (keys of unserved buckets never enter it)
All == {[d |-> k, vh |-> ref[k].vh, ver |-> ref[k].ver] : k \in {k \in RKeys : ref[k].ver # 0}}

\* only the bucket named by the key's digits grew, none if it is not served; every stored item
\* sits in the bucket (and directory) named by its own leading digits, and that bucket is served
C15_Place ==
  /\ last.op \in {"set", "del", "incr"} =>
       last.grew \subseteq (IF Bucket(last.k) \in served THEN {Bucket(last.k)} ELSE {})
  /\ \A b \in Buckets : \A x \in bstore[b] :
       /\ b = Bucket(x.d) /\ b \in served
       /\ DirOf(b) = SubSeq(x.d, 1, RDepth)
\* reads: a key of an unserved bucket misses; a served key reads what the reference map holds
C15_Miss ==
  last.op = "get" =>
    IF Bucket(last.k) \notin served THEN last.res = <<"miss">>
    ELSE IF ref[last.k].ver > 0 THEN last.res = <<"hit", ref[last.k].vh, ref[last.k].ver>>
    ELSE last.res = <<"miss">>
C15_RefOnlyServed == \A k \in RKeys : ref[k].ver # 0 => Bucket(k) \in served

\* ListUpper as the code computes it: per-bucket roots from the per-bucket trees, 0 for unserved
RECURSIVE UpCode(_)
UpCode(p0) ==
  Let1(p0, LAMBDA p :
    IF \E i \in 1..Len(p) : p[i] \notin RAlpha THEN Zero      \* no key of the model lives there
    ELSE IF Len(p) >= RDepth
      THEN (IF BucketId(p) \in served THEN Node(bstore[BucketId(p)], p, RConf) ELSE Zero)
      ELSE Let1(KidsBy(p, LAMBDA q : UpCode(q)),
                LAMBDA kids : [count |-> KidsCount(kids), hash |-> KidsHash(kids, TRUE)]))
C15_Upper ==
  \A n \in 0..(RDepth - 1) : \A pre \in PathsOver(n) :
     KidsBy(pre, LAMBDA q : UpCode(q)) = UpperListing(All, pre, RConf, served)
\* the count at the top = number of live keys of served buckets
C15_TopCount ==
  RDepth > 0 => KidsCount(KidsBy(<<>>, LAMBDA q : UpCode(q))) = Cardinality(Live(All))
=============================================================================
