SPECIFICATION MCSpec
CONSTANTS
  KeyNames = {"kh", "km", "kt", "kl"}
  Conns = {"c1"}
  MaxReq = 1
  FAsIs = {}
  Mutants = {}
  MaxLen = 1
  Alpha = "full"
  OomGates = {FALSE}
  PrintAlpha = FALSE
INVARIANTS C12_Tokens C12_Zero C12_NoDoubleFree C12_NoNegative C11_OneReply
CHECK_DEADLOCK TRUE
