-------------------------------- MODULE Scan --------------------------------
(***************************************************************************)
(* The data-file scanner of gobeansdb as a pure function over a sequence   *)
(* of typed 256-byte blocks (C09, scan clause).                            *)
(*                                                                         *)
(* A file is a sequence of blocks; the block at block-offset o (0-based)   *)
(* is f[o+1].  A block is                                                  *)
(*   Rec(rid, i, n)   block i of the n blocks of the stored record rid     *)
(*                    (i = 1 carries the header, whose lengths say n)      *)
(*   Junk(class, m)   a damaged block:                                     *)
(*       garbage   arbitrary bytes whose key-size field is invalid         *)
(*       zero      256 zero bytes (key size 0)                             *)
(*       ksz0      a header whose key size was set to 0 (or > 250)         *)
(*       vszhuge   a header with a valid key size and a value size above   *)
(*                 body_max                                                *)
(*       hdr       a header with VALID sizes that claims m blocks but whose*)
(*                 CRC does not match what follows.  Whether the claim     *)
(*                 ends inside the file (hdr_len_inside) or past its end   *)
(*                 (hdr_len_pastEOF) follows from o, m and Len(f).         *)
(* A record head whose continuation blocks were damaged or cut off behaves *)
(* exactly like `hdr`; an orphaned continuation block like `garbage` (the  *)
(* harness writes values whose bytes make an invalid key-size field).      *)
(*                                                                         *)
(* ReadAt  transcribes store/datafile.go readRecordAt                      *)
(* ScanAll transcribes DataStreamReader.Next / nextValid driven to the end *)
(* INCLUDING today's behaviour that a header with valid sizes whose claim  *)
(* reaches past the end of the file makes Next return an error (short      *)
(* read, `unexpected EOF`) and the scan stops there - finding F9.          *)
(* Expected is what the property demands: every intact record, in order.   *)
(***************************************************************************)
EXTENDS Naturals, Sequences, FiniteSets

CONSTANT ScanMut        \* set of strings; {} = the code as it is.  Specification mutants for self-tests:
                        \*   "resync_after_claim"  after a CRC failure resynchronise from the END of the claimed span
                        \*   "no_crc_stream"       the sequential path does not verify the CRC
                        \*   "f9_fixed"            a short read is treated as a broken region (what a fix would do)

Rec(rid, i, n)  == [t |-> "rec", rid |-> rid, i |-> i, n |-> n]
Junk(class, m)  == [t |-> class, rid |-> 0, i |-> 0, n |-> m]
JunkClasses     == {"garbage", "zero", "ksz0", "vszhuge", "hdr"}
BigClaim        == 100000       \* a claim that no file of the model can hold (vsz = body_max)

\* how the 24 bytes at the start of a block read as a header
Kind(b) == IF b.t = "rec" THEN (IF b.i = 1 THEN "len" ELSE "badk")
           ELSE IF b.t = "hdr" THEN "len"
           ELSE IF b.t = "vszhuge" THEN "badv"
           ELSE "badk"
Claim(b) == b.n                  \* blocks the header's lengths span (Kind = "len")

\* an intact record starts at block offset o
IntactAt(f, o) ==
  /\ o < Len(f)
  /\ LET b == f[o + 1] IN
       /\ b.t = "rec" /\ b.i = 1
       /\ o + b.n <= Len(f)
       /\ \A j \in 2..b.n : f[o + j] = Rec(b.rid, j, b.n)

Ok(rid, n) == [ok |-> TRUE,  rid |-> rid, n |-> n, why |-> ""]
Err(why)   == [ok |-> FALSE, rid |-> 0,   n |-> 0, why |-> why]

(* readRecordAt: header read, key-size test, value-size test, body read, CRC *)
ReadAt(f, o) ==
  IF o >= Len(f) THEN Err("eof")
  ELSE LET b == f[o + 1] k == Kind(b) IN
       IF k = "badk" THEN Err("ksz")
       ELSE IF k = "badv" THEN Err("vsz")
       ELSE IF o + Claim(b) > Len(f) THEN Err("short")
       ELSE IF IntactAt(f, o) THEN Ok(b.rid, b.n)
       ELSE Err("crc")

(* DataStreamReader.Next called until it returns no record.                  *)
(* result: yields = <<offset, rid, blocks skipped as broken>>, err = the     *)
(* scan ended with an error, at = offset where it ended                      *)
\* the first block offset >= o at which readRecordAt succeeds, Len(f) if there is none
RECURSIVE FirstOk(_, _)
FirstOk(f, o) == IF o >= Len(f) THEN Len(f) ELSE IF ReadAt(f, o).ok THEN o ELSE FirstOk(f, o + 1)

RECURSIVE ScanFrom(_, _, _, _), Resync(_, _, _, _)
ScanFrom(mut, f, pos, acc) ==
  IF pos >= Len(f) THEN [yields |-> acc, err |-> FALSE, at |-> pos]            \* io.EOF on the header: clean end
  ELSE LET b == f[pos + 1] IN
       IF Kind(b) # "len" THEN Resync(mut, f, pos, acc)                         \* bad key / value size: nextValid
       ELSE IF pos + Claim(b) > Len(f)
            THEN (IF "f9_fixed" \in mut THEN Resync(mut, f, pos, acc)
                  ELSE [yields |-> acc, err |-> TRUE, at |-> pos])              \* io.ReadFull fails: error, scan over (F9)
       ELSE IF IntactAt(f, pos) \/ ("no_crc_stream" \in mut /\ b.t = "rec")
            THEN ScanFrom(mut, f, pos + Claim(b), Append(acc, <<pos, b.rid, 0>>))
       ELSE Resync(mut, f, IF "resync_after_claim" \in mut THEN pos + Claim(b) ELSE pos, acc)   \* CRC failure: nextValid
\* nextValid: try readRecordAt at every block from the start of the broken record
Resync(mut, f, p, acc) ==
  LET o == FirstOk(f, p) IN
  IF o >= Len(f) THEN [yields |-> acc, err |-> FALSE, at |-> Len(f)]
  ELSE ScanFrom(mut, f, o + f[o + 1].n, Append(acc, <<o, f[o + 1].rid, o - p>>))

ScanAll(f)   == ScanFrom(ScanMut, f, 0, <<>>)
ScanFixed(f) == ScanFrom({"f9_fixed"}, f, 0, <<>>)      \* the behaviour a repair of F9 would have

(* what the property asks for: every intact record, in file order, that does *)
(* not lie inside an earlier yielded record                                   *)
RECURSIVE ExpFrom(_, _, _)
ExpFrom(f, o, acc) ==
  IF o >= Len(f) THEN acc
  ELSE IF IntactAt(f, o) THEN ExpFrom(f, o + f[o + 1].n, Append(acc, <<o, f[o + 1].rid>>))
  ELSE ExpFrom(f, o + 1, acc)
Expected(f) == ExpFrom(f, 0, <<>>)

Proj(ys) == [i \in 1..Len(ys) |-> <<ys[i][1], ys[i][2]>>]

-----------------------------------------------------------------------------
(* Properties (C09, scan clause)                                             *)
C09_Scan(f)   == Proj(ScanAll(f).yields) = Expected(f)
C09_ReadAt(f) == \A o \in 0..Len(f) :
                   LET r == ReadAt(f, o) IN
                   /\ r.ok <=> IntactAt(f, o)
                   /\ r.ok => (r.rid = f[o + 1].rid /\ r.n = f[o + 1].n)
\* finding F9: the sequential path met a header with valid sizes whose claim passes the end of
\* the file and gave up with an error; intact records behind it are lost to the scan
KF_F9(f)      == ScanAll(f).err
F9_Loses(f)   == ScanAll(f).err /\ Proj(ScanAll(f).yields) # Expected(f)

-----------------------------------------------------------------------------
(* Abstract files: a base of intact records (sizes in blocks), damage        *)
(* <<block index (1-based), class, claim>> and a truncation length           *)
RECURSIVE BaseBlocks(_, _)
BaseBlocks(sizes, rid) ==
  IF sizes = <<>> THEN <<>>
  ELSE [i \in 1..Head(sizes) |-> Rec(rid, i, Head(sizes))] \o BaseBlocks(Tail(sizes), rid + 1)
Build(base, dmg, trunc) ==
  LET b0 == BaseBlocks(base, 1)
      b1 == [i \in 1..Len(b0) |->
               IF \E d \in 1..Len(dmg) : dmg[d][1] = i
               THEN LET d == CHOOSE d \in 1..Len(dmg) : dmg[d][1] = i IN Junk(dmg[d][2], dmg[d][3])
               ELSE b0[i]]
  IN  SubSeq(b1, 1, trunc)
=============================================================================
