\* quick-tier configuration of MC_Scan (fam_codec.py generates the same text with other bounds / mutants)
SPECIFICATION Spec
CONSTANTS
  MaxBlocks = 5
  MaxRec = 3
  MaxDmg = 2
  Emit = FALSE
  Excuse = TRUE
  ScanMut = {}
INVARIANTS InvAll
CHECK_DEADLOCK FALSE
