---------------------------- MODULE Trace_Proto ----------------------------
(***************************************************************************)
(* Validation of recorded executions of the REAL memcached front end        *)
(* (memcache.ServerConn + gobeansdb.StorageClient + store.HStore) against   *)
(* Proto.tla.  trace.ndjson holds, per scenario:                            *)
(*   Reset    configuration and the plan (all scripts, to name the findings *)
(*            a scenario can touch)                                         *)
(*   Script   one connection: abstract commands + the reply list parsed by  *)
(*            the harness's independent parser + closed-by-server + hang    *)
(*   Quiesce  all connections ended, store closed (flush forced): DBRL      *)
(*            counters, free tokens, the ledger of the counter hooks        *)
(*   RT       Request/Response Write->Read round trips                      *)
(*   End                                                                    *)
(* The expectation checked is the PROPERTY (mode {} = every finding fixed). *)
(* If it fails, the same observation is tried against the code-as-is model  *)
(* of the findings the plan touches; a match attaches the finding's         *)
(* signature (check!Fnn), otherwise the failure stays an unexplained        *)
(* violation.  Failures are accumulated in `bad`.                           *)
(***************************************************************************)
EXTENDS Proto, Json

VARIABLES l, bad, drift, lead, sid, W, modes, present

Trace == ndJsonDeserialize("trace.ndjson")

tvars == <<l, bad, drift, lead, sid, W, modes, present>>

Ev      == Trace[l]
IsEv(a) == l <= Len(Trace) /\ Trace[l].a = a
Adv     == l' = l + 1

Cf(c)     == [oomgate |-> c.oomgate, bodyc |-> c.bodyc, bodybig |-> c.bodybig, bodymax |-> c.bodymax, disk |-> FALSE]
State0(c) == [ref |-> [k \in KeyNames |-> NoRef], backlog |-> FALSE, junk |-> FALSE, fresh |-> TRUE, cf |-> Cf(c)]
World0(c) == [s |-> State0(c), lk |-> ZeroLk, dead |-> FALSE]

RECURSIVE PlanSigsW(_, _, _, _, _, _)
PlanSigsW(s, plan, i, acc, F, stop) ==
  IF i > Len(plan) THEN acc
  ELSE LET r == PresentFrom([s EXCEPT !.junk = FALSE, !.fresh = TRUE], plan[i], 1, {}, F, stop)
       IN PlanSigsW(r.s, plan, i + 1, acc \cup r.sigs, F, stop)
PlanSigs(s, plan, i, acc) ==
  PlanSigsW(s, plan, i, acc, AllFindings, TRUE) \cup PlanSigsW(s, plan, i, acc, AllFindings, FALSE)
    \cup PlanSigsW(s, plan, i, acc, {}, FALSE)

ModesOf(P) == IF Cardinality(P) <= 3 THEN SUBSET P ELSE {{}} \cup {{f} : f \in P} \cup {P}

\* when nothing explains an observation the scenario goes on from a state that promises nothing
\* (dead: its counter prediction explains nothing any more)
Recovery(w) == [s |-> [w.s EXCEPT !.ref = [k \in KeyNames |-> WildRef], !.junk = FALSE], lk |-> w.lk, dead |-> TRUE]

\* the smallest set of findings that explains an observation; among equally small ones, one made of LISTED known
\* findings only is preferred (an observation that a listed finding alone explains is that known finding)
CONSTANT Listed
MinMode(S) == LET best == {m \in S : \A m2 \in S : Cardinality(m) <= Cardinality(m2)} IN
              IF \E m \in best : m \subseteq Listed THEN CHOOSE m \in best : m \subseteq Listed ELSE CHOOSE m \in best : TRUE

TrReset ==
  /\ IsEv("Reset") /\ Adv
  /\ sid' = Ev.sid
  /\ LET P == PlanSigs(State0(Ev.conf), Ev.plan, 1, {})
         M == ModesOf(P) IN
     /\ present' = P /\ modes' = M
     /\ W' = [m \in M |-> {World0(Ev.conf)}]
  /\ UNCHANGED <<bad, drift, lead>>

\* ---- one connection's script -------------------------------------------------------------
AccW(e, m, rel) == UNION {{[s |-> x.s, lk |-> x.lk, dead |-> w.dead] : x \in Accepted(w, e.cmds, e.replies, e.closed, m, rel)} : w \in W[m]}

ScriptChecks(e, A) ==
  LET alive  == {m \in modes : A[m] # {}}
      w0     == CHOOSE w \in W[{}] : TRUE
      idx    == FailIdx(w0, e.cmds, e.replies, {})
      c      == e.cmds[IF idx > Len(e.cmds) THEN Len(e.cmds) ELSE idx]
      name   == IF e.probe THEN "C11_Isolation"
                ELSE IF AccW(e, {}, TRUE) # {} THEN "C11_Values"
                ELSE IF WellFormed(c, w0.s.cf) THEN "C11_OneReply" ELSE "C11_Malformed"
  IN IF e.hang THEN {<<sid, e.n, "C11_Alive">>}
     ELSE IF Len(e.cmds) = 0 \/ {} \in alive THEN {}
     ELSE IF alive # {} THEN {<<sid, e.n, name \o "!" \o f>> : f \in MinMode(alive)}
     ELSE {<<sid, e.n, name>>}

TrScript ==
  /\ IsEv("Script") /\ Adv /\ sid' = sid
  /\ LET A == [m \in modes |-> AccW(Ev, m, FALSE)] IN
     /\ bad' = bad \cup ScriptChecks(Ev, A)
     /\ W' = [m \in modes |-> IF A[m] # {} /\ ~Ev.hang THEN A[m] ELSE {Recovery(w) : w \in W[m]}]
  /\ UNCHANGED <<drift, lead, modes, present>>

\* ---- quiescent point -------------------------------------------------------------------------
LkMatch(lk, o) == lk.wild \/ (lk.gc = o.gc /\ lk.gs = o.gs /\ lk.sc = o.sc /\ lk.ss = o.ss /\ lk.ac = o.ac /\ lk.as = o.as)

\* ledger: sequence of [k, d]; running balances per counter, live C allocations, tokens in flight
RECURSIVE Ledger(_, _, _)
Ledger(led, i, a) ==
  IF i > Len(led) THEN a
  ELSE LET x == led[i]
           a2 == CASE x.k \in {"Gc", "Gs", "Sc", "Ss", "Fc", "Fs", "Ac", "As"} ->
                        LET v == a.bal[x.k] + x.d IN
                        [a EXCEPT !.bal[x.k] = v, !.neg = IF v < 0 THEN @ \cup {x.k} ELSE @]
                   [] x.k = "ca" -> [a EXCEPT !.live = @ \cup {x.d}]
                   [] x.k = "cf" -> IF x.d \in a.live THEN [a EXCEPT !.live = @ \ {x.d}] ELSE [a EXCEPT !.dfree = TRUE]
                   [] x.k = "tg" -> IF x.d \in a.tok THEN [a EXCEPT !.tokbad = TRUE] ELSE [a EXCEPT !.tok = @ \cup {x.d}]
                   [] x.k = "tp" -> IF x.d \in a.tok THEN [a EXCEPT !.tok = @ \ {x.d}] ELSE [a EXCEPT !.tokbad = TRUE]
                   [] OTHER -> a
       IN Ledger(led, i + 1, a2)
Ledger0 == [bal |-> [k \in {"Gc", "Gs", "Sc", "Ss", "Fc", "Fs", "Ac", "As"} |-> 0], neg |-> {}, live |-> {}, dfree |-> FALSE,
            tok |-> {}, tokbad |-> FALSE]

QuiesceChecks(e) ==
  LET o      == e.cnt
      zero   == o.gc = 0 /\ o.gs = 0 /\ o.sc = 0 /\ o.ss = 0 /\ o.ac = 0 /\ o.as = 0
      \* an EXACT prediction of the counters explains them better than a world that promises nothing (wild): a wild
      \* world of another mode must not be chosen (arbitrarily, among modes of equal size) over an exact one
      exact  == {m \in modes : \E w \in W[m] : ~w.dead /\ ~w.lk.wild /\ LkMatch(w.lk, o)}
      fits   == IF exact # {} THEN exact ELSE {m \in modes : \E w \in W[m] : ~w.dead /\ LkMatch(w.lk, o)}
      m0     == MinMode(fits)
      w1     == CHOOSE w \in W[m0] : ~w.dead /\ LkMatch(w.lk, o) /\ (exact # {} => ~w.lk.wild)
      tags   == w1.lk.sigs \cap C12Findings
      a      == Ledger(e.led, 1, Ledger0)
      negtag == IF "F2-unserved-del" \in present THEN "!F2-unserved-del" ELSE ""
  IN (IF zero THEN {}
      ELSE IF fits # {} /\ tags # {} THEN {<<sid, e.n, "C12_Zero!" \o f>> : f \in tags}
      ELSE {<<sid, e.n, "C12_Zero">>})
     \cup (IF e.tokens = e.maxreq /\ a.tok = {} /\ ~a.tokbad THEN {} ELSE {<<sid, e.n, "C12_Tokens">>})
     \cup (IF o.fc = 0 /\ o.fs = 0 THEN {} ELSE {<<sid, e.n, "C12_Flush">>})
     \cup (IF a.dfree THEN {<<sid, e.n, "C12_NoDoubleFree">>} ELSE {})
     \cup (IF a.neg = {} THEN {} ELSE {<<sid, e.n, "C12_NoNegative" \o negtag>>})

\* the ledger must add up to the counters read at the end: otherwise the harness lost events
QuiesceDrift(e) ==
  LET a == Ledger(e.led, 1, Ledger0) o == e.cnt IN
  IF e.clamped \/ (a.bal["Gc"] = o.gc /\ a.bal["Gs"] = o.gs /\ a.bal["Sc"] = o.sc /\ a.bal["Ss"] = o.ss
                    /\ a.bal["Ac"] = o.ac /\ a.bal["As"] = o.as /\ a.bal["Fc"] = o.fc /\ a.bal["Fs"] = o.fs)
    THEN {} ELSE {<<sid, e.n, "ledger-vs-counters">>}

TrQuiesce ==
  /\ IsEv("Quiesce") /\ Adv /\ sid' = sid
  /\ bad' = bad \cup QuiesceChecks(Ev)
  /\ drift' = drift \cup QuiesceDrift(Ev)
  \* a restart follows a non-final quiescent point: counters start from zero, later reads come from the
  \* data files, and what a reopened store remembers of deleted keys is not the protocol's business
  /\ W' = IF Ev.final THEN W
          ELSE [m \in modes |-> {[s |-> [w.s EXCEPT !.cf.disk = TRUE, !.backlog = FALSE,
                                                   !.ref = [k \in KeyNames |-> IF w.s.ref[k].st = "tomb" THEN WildRef
                                                                               ELSE [w.s.ref[k] EXCEPT !.disk = TRUE]]],
                                  lk |-> ZeroLk, dead |-> w.dead] : w \in W[m]}]
  /\ UNCHANGED <<lead, modes, present>>

\* ---- Write -> Read round trips (C11_RoundTrip, F14) ----------------------------------------
F14Sig == {"req:verbosity", "req:cas", "resp:VERSION", "resp:STAT"}
TrRT ==
  /\ IsEv("RT") /\ Adv /\ sid' = sid
  /\ bad' = bad \cup {<<sid, Ev.n, IF Ev.items[i].name \in F14Sig THEN "C11_RoundTrip!F14" ELSE "C11_RoundTrip">> :
                        i \in {j \in 1..Len(Ev.items) : ~Ev.items[j].ok}}
  /\ UNCHANGED <<drift, lead, W, modes, present>>

TrEnd ==
  /\ IsEv("End") /\ Adv /\ sid' = sid
  /\ UNCHANGED <<bad, drift, lead, W, modes, present>>

\* harness trouble (crash of the serving process, setup error): never a verdict
TrOther ==
  /\ l <= Len(Trace) /\ Adv /\ sid' = sid
  /\ Trace[l].a \notin {"Reset", "Script", "Quiesce", "RT", "End"}
  /\ lead' = lead \cup {<<sid, Trace[l].n, Trace[l].a>>}
  /\ UNCHANGED <<bad, drift, W, modes, present>>

TraceInit ==
  /\ l = 1 /\ bad = {} /\ drift = {} /\ lead = {} /\ sid = "" /\ TLCSet(1, 1)
  /\ modes = {{}} /\ present = {}
  /\ W = [m \in {{}} |-> {}]
  /\ MInit([c \in Conns |-> <<>>], NoPlan.s)

TraceNext == (TrReset \/ TrScript \/ TrQuiesce \/ TrRT \/ TrEnd \/ TrOther) /\ UNCHANGED mvars

TraceSpec == TraceInit /\ [][TraceNext]_<<mvars, tvars>>

AllRead == l = Len(Trace) + 1
Report == AllRead => PrintT(<<"VERIF-RESULT", ToJson([bad |-> bad, drift |-> drift, lead |-> lead, consumed |-> l - 1])>>)
HighWater == TLCSet(1, IF TLCGet(1) < l THEN l ELSE TLCGet(1))
TraceAccepted == IF TLCGet(1) = Len(Trace) + 1 THEN TRUE
                 ELSE PrintT(<<"VERIF-STUCK", TLCGet(1), Trace[TLCGet(1)].n>>) /\ FALSE
=============================================================================
