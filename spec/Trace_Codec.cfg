\* validation of trace.ndjson (observations of the real code) against Codec.tla / Scan.tla; run with -workers 1
SPECIFICATION TraceSpec
CONSTANTS
  ScanMut = {}
CONSTRAINT HighWater
INVARIANT Report
POSTCONDITION TraceAccepted
CHECK_DEADLOCK FALSE
