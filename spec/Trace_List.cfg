SPECIFICATION TraceSpec
CONSTRAINT HighWater
INVARIANT Report
POSTCONDITION TraceAccepted
CHECK_DEADLOCK FALSE
