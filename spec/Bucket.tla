------------------------------- MODULE Bucket -------------------------------
(***************************************************************************)
(* One gobeansdb bucket (store/bucket.go and the files it drives) at the   *)
(* grain of the implementation's critical sections.  Sizes and offsets are *)
(* counted in 256-byte blocks.  A record is identified by a fresh record   *)
(* id (rid) so that "another key's value", "an older value", "a torn       *)
(* record" are statements about ids, never about bytes.                    *)
(*                                                                         *)
(* The same actions are used three ways (DESIGN.md section 2):             *)
(*   MC_*    : exhaustive model checking for small constants               *)
(*   Gen_*   : generation of scenarios                                     *)
(*   Trace_* : validation of traces recorded from the real code            *)
(* Every action names the code site it transcribes.                        *)
(***************************************************************************)
EXTENDS Integers, Sequences, FiniteSets, TLC

CONSTANTS Keys,       \* key names
          HashIds,    \* abstract key-hash ids (colliding keys share one)
          Clients,    \* client process names
          MaxChunk    \* data files are 0..MaxChunk

Chunks == 0..MaxChunk

VARIABLES
  conf,   \* configuration record; no action changes it (TraceReset sets it)
  \* ---- memory (lost by Crash / Exit) ----
  up,     \* the process is alive (a store object exists)
  head,   \* dataStore.newHead
  chk,    \* [Chunks -> [wHead, size, rewriting, rewritten, wbuf]]   dataChunk
  tree,   \* [HashIds -> Slot]                            HTree leaf slots
  hm,     \* hintMgr: [splits, maxChunk, maxDumped, state]
  ctab,   \* CollisionTable.Items: key -> [c, off, ver, vh]
  bk,     \* Bucket fields: [treeID, nextgc]
  gc,     \* running GC pass (GCState + loop locals)
  lock,   \* [write, flush] -> owner or Free
  pc,     \* program counter per process
  loc,    \* locals per process
  \* ---- disk (survives) ----
  disk,   \* [data, exists, hintf, treef, ctabf, nextgcf, merged]
  \* ---- ghosts (never read by the implementation actions) ----
  recs,   \* Seq of every record ever built: [key, ver, val, flag, nblk, vh]
  ref,    \* reference map: key -> [ver, val, flag]   (C01)
  gh      \* bookkeeping for the history properties (C04/C05/C02)

vars == <<conf, up, head, chk, tree, hm, ctab, bk, gc, lock, pc, loc, disk, recs, ref, gh>>

Free   == "free"
NoSlot == [c |-> -1, off |-> 0, ver |-> 0, vh |-> 0]
NoFile == [items |-> <<>>, datasize |-> -1]
NoRef  == [ver |-> 0, val |-> 0, flag |-> 0]
NoId   == <<0, -1>>

Abs(n)      == IF n < 0 THEN -n ELSE n
Max2(a, b)  == IF a >= b THEN a ELSE b
Min2(a, b)  == IF a <= b THEN a ELSE b
MaxOf(S, d) == IF S = {} THEN d ELSE CHOOSE x \in S : \A y \in S : x >= y
MinOf(S, d) == IF S = {} THEN d ELSE CHOOSE x \in S : \A y \in S : x <= y
IdGE(a, b)  == a[1] > b[1] \/ (a[1] = b[1] /\ a[2] >= b[2])   \* HintID.isLarger: a >= b
Put(f, k, v) == (k :> v) @@ f
Has(f, k)    == k \in DOMAIN f

RotName(c) == "rotf" \o ToString(c)
RotProcs   == {RotName(c) : c \in Chunks}
Procs      == Clients \cup {"flusher", "closer", "gc"} \cup RotProcs

HashOf(k) == conf.hashOf[k]
Colliding(k) == \E k2 \in Keys : k2 # k /\ HashOf(k2) = HashOf(k)
Mut(m)    == m \in conf.mut      \* specification mutants: old behaviour of repaired defects, self-test

-----------------------------------------------------------------------------
(* Initial state: an empty home directory opened by a fresh process.       *)

FreshChunk == [wHead |-> 0, size |-> 0, rewriting |-> FALSE, rewritten |-> FALSE, wbuf |-> <<>>]
FreshSplit == [items |-> <<>>, maxoff |-> 0, isfile |-> FALSE]
FreshHm    == [splits |-> [c \in Chunks |-> <<FreshSplit>>], lastTS |-> [c \in Chunks |-> FALSE],
               maxChunk |-> 0, maxDumped |-> NoId, gcing |-> FALSE]
FreshDisk  == [data |-> [c \in Chunks |-> <<>>], exists |-> [c \in Chunks |-> FALSE],
               hintf |-> [c \in Chunks |-> <<>>], treef |-> {}, ctabf |-> <<>>, hasctab |-> FALSE,
               nextgcf |-> -1]
NoGC       == [phase |-> "idle", begin |-> 0, end |-> 0, src |-> 0, dst |-> 0, cur |-> 0,
               cancel |-> FALSE, merge |-> FALSE, reg |-> FALSE, rid |-> 0, found |-> FALSE,
               keep |-> FALSE, oldpos |-> <<0, 0>>, newoff |-> 0, meta |-> NoSlot, released |-> 0]
FreshGh    == [acked |-> [k \in Keys |-> 0],      \* greatest |version| acknowledged for k
               used  |-> [k \in Keys |-> {}],     \* |versions| handed out for k
               dup   |-> FALSE,                   \* a |version| was handed out twice     (C04_Distinct)
               stale |-> FALSE,                   \* a write got a version <= one acknowledged before it began
               lostAck |-> FALSE,
               kf |-> <<>>,                       \* key -> name of the known-finding mechanism it went through
               treeOnly |-> {},                   \* keys whose last version change wrote no record (C02)
               c18bad |-> FALSE,                  \* a pass ended with a superseded record left in its range
               c18dup |-> FALSE,                  \* ... or with a record twice
               crashed |-> FALSE,                 \* the last stop of the process was a kill
               durAt |-> [k \in Keys |-> 0],      \* newest record of k intact on disk at the kill (0 = none)
               nrecsAt |-> 0,                     \* records built before the kill
               refAt |-> [k \in Keys |-> NoRef],  \* reference map at the kill
               gcAt |-> FALSE,                    \* the kill fell inside a GC pass
               c06bad |-> FALSE, c07bad |-> FALSE,
               fatal |-> FALSE]                   \* the code would have called logger.Fatalf

InitMem(c0) ==
  /\ up = TRUE /\ head = 0
  /\ chk = [c \in Chunks |-> FreshChunk]
  /\ tree = [h \in HashIds |-> NoSlot]
  /\ hm = FreshHm
  /\ ctab = <<>>
  /\ bk = [treeID |-> NoId, nextgc |-> 0]
  /\ gc = NoGC
  /\ lock = [write |-> Free, flush |-> Free]
  /\ pc = [p \in Procs |-> "idle"]
  /\ loc = [p \in Procs |-> <<>>]
  /\ conf = c0

Init(c0) ==
  /\ InitMem(c0)
  /\ disk = FreshDisk
  /\ recs = <<>>
  /\ ref = [k \in Keys |-> NoRef]
  /\ gh = FreshGh

-----------------------------------------------------------------------------
(* Pure helpers over the data files.                                       *)

BlocksOf(rid) == [i \in 1..recs[rid].nblk |-> [rid |-> rid, i |-> i - 1]]

\* readRecordAt(file, off): the record id stored intact at block offset off, 0 = error
\* (short file, interior/garbage block where a header is expected, torn record -> CRC).
ReadAtSeq(f, off) ==
  IF off < 0 \/ off >= Len(f) THEN 0
  ELSE LET b == f[off + 1] IN
       IF b.rid = 0 \/ b.i # 0 THEN 0
       ELSE LET n == recs[b.rid].nblk IN
            IF off + n > Len(f) THEN 0
            ELSE IF \A j \in 0..(n - 1) : f[off + 1 + j] = [rid |-> b.rid, i |-> j] THEN b.rid ELSE 0

\* GetRecordByOffsetInBuffer: rid at off in the write buffer of chunk c; 0 = not there.
InWbuf(c, off) ==
  LET w == chk[c].wbuf IN
  IF Len(w) = 0 \/ off < w[1].off \/ off >= chk[c].wHead THEN 0
  ELSE LET hit == {i \in 1..Len(w) : w[i].off = off} IN
       IF hit = {} THEN -1 ELSE w[CHOOSE i \in hit : TRUE].rid     \* -1: "rec should in buffer, but not"

\* dataChunk.GetRecordByOffset: [rid, inbuf]; rid = 0 -> error
RecordAt(c, off) ==
  LET b == InWbuf(c, off) IN
  IF b > 0 THEN [rid |-> b, inbuf |-> TRUE]
  ELSE IF b < 0 THEN [rid |-> 0, inbuf |-> TRUE]
  ELSE IF ~disk.exists[c] THEN [rid |-> 0, inbuf |-> FALSE]
  ELSE [rid |-> ReadAtSeq(disk.data[c], off), inbuf |-> FALSE]

\* DataStreamReader.Next/nextValid from block offset o: <<rid, offset, nextoffset>> of the next
\* intact record at or after o (256-byte resynchronisation), <<0, len, len>> at end of file.
RECURSIVE ScanNext(_, _)
ScanNext(f, o) ==
  IF o >= Len(f) THEN <<0, Len(f), Len(f)>>
  ELSE LET r == ReadAtSeq(f, o) IN
       IF r # 0 THEN <<r, o, o + recs[r].nblk>> ELSE ScanNext(f, o + 1)

\* all intact records of a file from offset o on: Seq of [rid, off]
RECURSIVE ScanAll(_, _)
ScanAll(f, o) ==
  LET n == ScanNext(f, o) IN
  IF n[1] = 0 THEN <<>> ELSE <<[rid |-> n[1], off |-> n[2]]>> \o ScanAll(f, n[3])

TotalWbuf == \E c \in Chunks : Len(chk[c].wbuf) > 0     \* ds.wbufSize > 0

-----------------------------------------------------------------------------
\* does a read result r agree with the reference entry e of key k?
\* level 1: value, flags, liveness AND version (C01)
\* level 2: version only for live keys (C02: tombstones may vanish on rebuild)
\* level 3: value, flags, liveness only (C13: colliding keys)
Agrees(k, r, e, level) ==
  IF e.ver = 0 THEN r.res = "miss"
  ELSE IF e.ver < 0
    THEN r.res = "miss" \/ (r.res = "hit" /\ r.ver < 0 /\ recs[r.rid].key = k /\ (level > 1 \/ r.ver = e.ver))
  ELSE /\ r.res = "hit" /\ r.ver > 0
       /\ recs[r.rid].key = k /\ recs[r.rid].val = e.val /\ recs[r.rid].flag = e.flag
       /\ (level = 3 \/ r.ver = e.ver)

-----------------------------------------------------------------------------
(* Hint buffers (store/hint.go).                                           *)

\* HintBuffer.Set on the last split of chunk c; rotates when the split is full.
\* Returns [splits, rotated].   it = [off, ver, vh], n = record size in blocks.
HintSetItem(splits, k, it, n) ==
  LET l  == Len(splits)
      sp == splits[l]
      fits == Has(sp.items, k) \/ Cardinality(DOMAIN sp.items) < conf.splitCap
      put(s0) == [s0 EXCEPT !.items = Put(s0.items, k, it), !.maxoff = Max2(s0.maxoff, it.off + n)]
  IN IF fits
       THEN [splits |-> [splits EXCEPT ![l] = put(sp)], rotated |-> FALSE]
       ELSE \* full: maxoffset is bumped to the START of the new record, then rotate
            [splits |-> Append([splits EXCEPT ![l].maxoff = Max2(sp.maxoff, it.off)], put(FreshSplit)),
             rotated |-> TRUE]

NeedDump(sp) == ~sp.isfile /\ DOMAIN sp.items # {}

\* hintMgr.dump(c, j): write split j of chunk c as file CCC.JJJ.idx.s (tmp + rename)
DumpSplit(h, d, c, j) ==
  LET sp == h.splits[c][j + 1]
      f  == [items |-> sp.items, datasize |-> sp.maxoff]
      old == d.hintf[c]
      padded == IF Len(old) > j THEN old ELSE old \o [i \in 1..(j + 1 - Len(old)) |-> NoFile]
  IN [h |-> [h EXCEPT !.splits[c][j + 1] = [items |-> <<>>, maxoff |-> sp.maxoff, isfile |-> TRUE],
                      !.maxDumped = IF IdGE(<<c, j>>, h.maxDumped) THEN <<c, j>> ELSE h.maxDumped],
      d |-> [d EXCEPT !.hintf[c] = [padded EXCEPT ![j + 1] = f]]]

\* the undumped non-last splits of chunk c, lowest first
OldSplitToDump(h, c) ==
  LET S == {j \in 0..(Len(h.splits[c]) - 2) : NeedDump(h.splits[c][j + 1])} IN MinOf(S, -1)

\* hintMgr.trydump(c, dumplast) run to completion as a function of (hm, disk)
RECURSIVE TryDump(_, _, _, _)
TryDump(h, d, c, dumplast) ==
  LET j == OldSplitToDump(h, c) IN
  IF j >= 0 THEN LET r == DumpSplit(h, d, c, j) IN TryDump(r.h, r.d, c, dumplast)
  ELSE IF ~dumplast /\ c = h.maxChunk THEN [h |-> h, d |-> d]
  ELSE IF ~h.lastTS[c] THEN [h |-> h, d |-> d]
  ELSE IF dumplast \/ conf.dumpEager
    THEN LET l == Len(h.splits[c]) IN
         IF NeedDump(h.splits[c][l])
           THEN LET h1 == [h EXCEPT !.splits[c] = Append(@, FreshSplit), !.lastTS[c] = FALSE] IN
                DumpSplit(h1, d, c, l - 1)
           ELSE [h |-> h, d |-> d]
  ELSE [h |-> h, d |-> d]

\* hintMgr.getItem(hash, key, memOnly=false) restricted to what the collision path needs:
\* newest item for key k, searching chunks maxChunk..0, buffers newest first, then files.
SplitLookup(c, j, k) ==
  LET sp == hm.splits[c][j + 1] IN
  IF ~sp.isfile THEN (IF Has(sp.items, k) THEN sp.items[k] ELSE NoSlot)
  ELSE IF Len(disk.hintf[c]) > j /\ Has(disk.hintf[c][j + 1].items, k) THEN disk.hintf[c][j + 1].items[k]
  ELSE NoSlot
ChunkLookup(c, k) ==
  LET S == {j \in 0..(Len(hm.splits[c]) - 1) : SplitLookup(c, j, k) # NoSlot} IN
  IF S = {} THEN NoSlot ELSE SplitLookup(c, MaxOf(S, 0), k)
HintLookup(k) ==
  LET S == {c \in 0..hm.maxChunk : ChunkLookup(c, k) # NoSlot} IN
  IF S = {} THEN NoSlot
  ELSE LET c == MaxOf(S, 0) it == ChunkLookup(c, k) IN [c |-> c, off |-> it.off, ver |-> it.ver, vh |-> it.vh]

-----------------------------------------------------------------------------
(* Version rule (Bucket.checkAndUpdateVerison).  rev: 0 auto, <0 delete,   *)
(* >0 explicit revision.                                                   *)
NextVer(old, rev) ==
  IF rev = 0 THEN [ok |-> TRUE, ver |-> Abs(old) + 1]
  ELSE IF rev < 0 THEN [ok |-> TRUE, ver |-> -Abs(old) - 1]
  ELSE IF Abs(rev) <= Abs(old) THEN [ok |-> FALSE, ver |-> old]
  ELSE [ok |-> TRUE, ver |-> rev]

\* Bucket.get(ki, memOnly=true): collision table first, else the tree slot of the HASH
OldMeta(k) ==
  IF Has(ctab, k) THEN [found |-> TRUE, ver |-> ctab[k].ver, vh |-> ctab[k].vh,
                        c |-> ctab[k].c, off |-> ctab[k].off]
  ELSE LET s == tree[HashOf(k)] IN
       IF s = NoSlot THEN [found |-> FALSE, ver |-> 0, vh |-> 0, c |-> -1, off |-> 0]
       ELSE [found |-> TRUE, ver |-> s.ver, vh |-> s.vh, c |-> s.c, off |-> s.off]

SetPc(p, v)     == pc' = [pc EXCEPT ![p] = v]
SetLoc(p, f, v) == loc' = [loc EXCEPT ![p] = Put(loc[p], f, v)]
Idle(p)         == pc[p] = "idle"

-----------------------------------------------------------------------------
(* Client write: HStore.Set -> Bucket.checkAndSet  (store/bucket.go)       *)
(* op "set": rev = 0 (auto version) or > 0 (explicit revision)             *)
(* op "del": rev = -1.   nblk / vh / flag are inputs (value size in blocks *)
(* after optional compression, 16-bit value hash id, client flags).        *)

W_Begin(p, k, val, rev, flag, nblk, vh) ==
  /\ up /\ Idle(p) /\ p \in Clients
  /\ loc' = [loc EXCEPT ![p] = [op |-> IF rev < 0 THEN "del" ELSE "set", k |-> k, val |-> val,
                                rev |-> rev, flag |-> flag, nblk |-> nblk,
                                vh |-> IF rev < 0 THEN 0 ELSE vh,
                                ver |-> 0, c |-> -1, off |-> 0, rid |-> 0, res |-> "", wrote |-> FALSE,
                                ackAtInv |-> gh.acked[k], locked |-> TRUE]]
  /\ SetPc(p, "w_lock")
  /\ UNCHANGED <<conf, up, head, chk, tree, hm, ctab, bk, gc, lock, disk, recs, ref, gh>>

\* bkt.writeLock.Lock()
W_Lock(p) ==
  /\ pc[p] = "w_lock" /\ lock.write = Free
  /\ lock' = [lock EXCEPT !.write = p]
  /\ SetPc(p, "w_readold")
  /\ UNCHANGED <<conf, up, head, chk, tree, hm, ctab, bk, gc, loc, disk, recs, ref, gh>>

\* get(ki, memOnly=true), the CheckVHash shortcut, the version rule, NOT_FOUND
W_ReadOld(p) ==
  /\ pc[p] = "w_readold"
  /\ LET l == loc[p]
         old == OldMeta(l.k)
         oldv == IF old.found THEN old.ver ELSE 0
         same == old.found /\ oldv > 0 /\ l.vh = old.vh /\ conf.checkVHash
         nv == NextVer(oldv, l.rev)
     IN IF same
          THEN IF l.rev # 0 /\ (Abs(l.rev) > Abs(oldv) \/ Mut("F12"))   \* repaired (finding F12); mutant = old code
                 THEN \* "sync script": tree version rewritten at the OLD position, no record
                      /\ loc' = [loc EXCEPT ![p] = [l EXCEPT !.ver = l.rev, !.c = old.c, !.off = old.off, !.res = "ok"]]
                      /\ SetPc(p, "w_treeonly") /\ gh' = gh
                 ELSE /\ loc' = [loc EXCEPT ![p] = [l EXCEPT !.res = "ok"]]
                      /\ SetPc(p, "w_unlock") /\ gh' = gh
        ELSE IF ~nv.ok
          THEN /\ loc' = [loc EXCEPT ![p] = [l EXCEPT !.res = "ok"]]
               /\ SetPc(p, "w_unlock") /\ gh' = gh
        ELSE IF nv.ver < 0 /\ (~old.found \/ oldv < 0)
          THEN /\ loc' = [loc EXCEPT ![p] = [l EXCEPT !.res = "NOT_FOUND"]]
               /\ SetPc(p, "w_unlock") /\ gh' = gh
        ELSE /\ loc' = [loc EXCEPT ![p] = [l EXCEPT !.ver = nv.ver, !.res = "ok", !.wrote = TRUE]]
             /\ SetPc(p, "w_append")
             /\ gh' = [gh EXCEPT !.used[l.k] = @ \cup {Abs(nv.ver)},
                                 !.dup = @ \/ (Abs(nv.ver) \in gh.used[l.k]),
                                 !.stale = @ \/ (Abs(nv.ver) <= l.ackAtInv)]
  /\ UNCHANGED <<conf, up, head, chk, tree, hm, ctab, bk, gc, lock, disk, recs, ref>>

\* dataStore.AppendRecord (under ds.Lock): rotation, position, push to the write buffer.
\* Shared by checkAndSet (pc w_append) and incr (pc i_append).
AppendStep(p, nextpc) ==
  LET l == loc[p]
      rot == chk[head].wHead + l.nblk > conf.fileMax
      h2 == IF rot THEN head + 1 ELSE head
      off == IF rot THEN 0 ELSE chk[head].wHead
      rid == Len(recs) + 1
  IN /\ h2 \in Chunks
     /\ head' = h2
     /\ recs' = Append(recs, [key |-> l.k, ver |-> l.ver, val |-> l.val, flag |-> l.flag,
                              nblk |-> l.nblk, vh |-> l.vh])
     /\ chk' = [chk EXCEPT ![h2] = [@ EXCEPT !.wbuf = Append(@, [rid |-> rid, off |-> off]),
                                              !.wHead = off + l.nblk, !.size = off + l.nblk]]
     /\ loc' = [loc EXCEPT ![p] = [l EXCEPT !.c = h2, !.off = off, !.rid = rid]]
     /\ IF rot   \* go ds.flush(newHead-1, true)
          THEN pc' = [pc EXCEPT ![p] = nextpc, ![RotName(head)] = "spawned"]
          ELSE SetPc(p, nextpc)

W_Append(p) ==
  /\ pc[p] = "w_append"
  /\ AppendStep(p, "w_treeset")
  /\ UNCHANGED <<conf, up, tree, hm, ctab, bk, gc, lock, disk, ref, gh>>

\* The reference map follows the DOCUMENTED arithmetic (C01): auto-increment on set, negated
\* increment on delete, explicit revision only if larger in absolute value; incr's rule
\* (old+1 if live, else 1) is taken from the code because nothing documents it.
DocWrite(old, l) ==
  LET v == IF l.op = "incr" THEN l.ver ELSE NextVer(old.ver, l.rev).ver IN
  IF v < 0 THEN [ver |-> v, val |-> 0, flag |-> 0] ELSE [ver |-> v, val |-> l.val, flag |-> l.flag]

\* htree.set: the linearization point of a write
TreeSetStep(p, nextpc) ==
  LET l == loc[p] IN
  /\ tree' = [tree EXCEPT ![HashOf(l.k)] = [c |-> l.c, off |-> l.off, ver |-> l.ver, vh |-> l.vh]]
  /\ ref' = [ref EXCEPT ![l.k] = DocWrite(ref[l.k], l)]
  /\ gh' = [gh EXCEPT !.treeOnly = @ \ {l.k},
                      !.kf = [x \in DOMAIN @ \ {l.k} |-> @[x]]]      \* a fresh write ends a known-finding episode of the key
  /\ SetPc(p, nextpc)

W_TreeSet(p) ==
  /\ pc[p] = "w_treeset"
  /\ TreeSetStep(p, "w_hintset")
  /\ UNCHANGED <<conf, up, head, chk, hm, ctab, bk, gc, lock, loc, disk, recs>>

\* CheckVHash + explicit revision + unchanged value: only the tree version changes
W_TreeOnly(p) ==
  /\ pc[p] = "w_treeonly"
  /\ LET l == loc[p] IN
       /\ tree' = [tree EXCEPT ![HashOf(l.k)] = [c |-> l.c, off |-> l.off, ver |-> l.ver, vh |-> l.vh]]
       /\ ref' = [ref EXCEPT ![l.k].ver = IF Abs(l.rev) > Abs(@) THEN l.rev ELSE @]
       /\ gh' = [gh EXCEPT !.treeOnly = @ \cup {l.k},
                           !.kf = IF Abs(l.rev) <= Abs(ref[l.k].ver) THEN Put(@, l.k, "F12") ELSE @]
  /\ SetPc(p, "w_unlock")
  /\ UNCHANGED <<conf, up, head, chk, hm, ctab, bk, gc, lock, loc, disk, recs>>

\* hints.set: refresh the collision table entry, put the item into the hint buffer of its
\* chunk; a full split rotates and (no background dumper) the old splits are dumped inline.
HintSetStep(p, nextpc, reason) ==
  LET l == loc[p]
      it == [off |-> l.off, ver |-> l.ver, vh |-> l.vh]
      r == HintSetItem(hm.splits[l.c], l.k, it, l.nblk)
      h1 == [hm EXCEPT !.splits[l.c] = r.splits, !.lastTS[l.c] = TRUE]
      td == IF r.rotated THEN TryDump(h1, disk, l.c, FALSE) ELSE [h |-> h1, d |-> disk]
  IN /\ ctab' = IF Has(ctab, l.k) /\ (reason = "gc" \/ <<l.c, l.off>> = <<ctab[l.k].c, ctab[l.k].off>>
                                      \/ l.c > ctab[l.k].c \/ (l.c = ctab[l.k].c /\ l.off >= ctab[l.k].off))
                  THEN Put(ctab, l.k, [c |-> l.c, off |-> l.off, ver |-> l.ver, vh |-> l.vh])
                  ELSE ctab
     /\ hm' = [td.h EXCEPT !.maxChunk = Max2(@, l.c)]
     /\ disk' = td.d
     /\ SetPc(p, nextpc)

W_HintSet(p) ==
  /\ pc[p] = "w_hintset"
  /\ HintSetStep(p, "w_unlock", "set")
  /\ UNCHANGED <<conf, up, head, chk, tree, bk, gc, lock, loc, recs, ref, gh>>

\* deferred unlock; the reply becomes visible
W_Unlock(p) ==
  /\ pc[p] = "w_unlock"
  /\ lock' = [lock EXCEPT !.write = Free]
  /\ gh' = IF loc[p].wrote THEN [gh EXCEPT !.acked[loc[p].k] = Max2(@, Abs(loc[p].ver))] ELSE gh
  /\ SetPc(p, "idle")
  /\ UNCHANGED <<conf, up, head, chk, tree, hm, ctab, bk, gc, loc, disk, recs, ref>>

-----------------------------------------------------------------------------
(* Client read: HStore.Get -> Bucket.get(ki, memOnly=false)                *)

R_Begin(p, k) ==
  /\ up /\ Idle(p) /\ p \in Clients
  /\ loc' = [loc EXCEPT ![p] = [op |-> "get", k |-> k, c |-> -1, off |-> 0, ver |-> 0, rid |-> 0,
                                res |-> "", lb |-> gh.acked[k], delta |-> 0, vhIn |-> -1]]
  /\ SetPc(p, "r_lookup")
  /\ UNCHANGED <<conf, up, head, chk, tree, hm, ctab, bk, gc, lock, disk, recs, ref, gh>>

\* collisions.get, else htree.get (one short critical section)
R_Lookup(p) ==
  /\ pc[p] = "r_lookup"
  /\ LET l == loc[p] m == OldMeta(l.k) IN
     IF ~m.found
       THEN /\ loc' = [loc EXCEPT ![p] = [l EXCEPT !.res = "miss"]]
            /\ SetPc(p, IF l.op = "incr" THEN "i_decide" ELSE "r_done")
       ELSE /\ loc' = [loc EXCEPT ![p] = [l EXCEPT !.c = m.c, !.off = m.off, !.ver = m.ver]]
            /\ SetPc(p, "r_read")
  /\ UNCHANGED <<conf, up, head, chk, tree, hm, ctab, bk, gc, lock, disk, recs, ref, gh>>

\* GetRecordByPos (buffer under the chunk lock, else the file as it is now), the key
\* comparison, and the same-hash-different-key branch that consults the hints and fills
\* the collision table.
R_Read(p) ==
  /\ pc[p] = "r_read"
  /\ LET l == loc[p]
         ra == RecordAt(l.c, l.off)
         nxt == IF l.op = "incr" THEN "i_decide" ELSE "r_done"
         fin(res, rid, ver) == /\ loc' = [loc EXCEPT ![p] = [l EXCEPT !.res = res, !.rid = rid, !.ver = ver]]
                               /\ SetPc(p, nxt)
     IN IF ra.rid = 0 THEN fin("err", 0, 0) /\ ctab' = ctab
        ELSE IF recs[ra.rid].key = l.k THEN fin("hit", ra.rid, l.ver) /\ ctab' = ctab
        ELSE IF HashOf(recs[ra.rid].key) # HashOf(l.k)
          THEN (IF ra.inbuf /\ l.c < head - 1 THEN fin("miss", 0, 0) ELSE fin("err", 0, 0)) /\ ctab' = ctab
        ELSE LET it == HintLookup(l.k) IN
             IF it = NoSlot THEN fin("miss", 0, 0) /\ ctab' = ctab
             ELSE LET r1 == recs[ra.rid]
                      e1 == [c |-> l.c, off |-> l.off, ver |-> r1.ver, vh |-> IF r1.ver > 0 THEN r1.vh ELSE 0]
                      cas(t, k, e) == IF Has(t, k) /\ ~(e.c > t[k].c \/ (e.c = t[k].c /\ e.off >= t[k].off))
                                        THEN t ELSE Put(t, k, e)
                      t1 == cas(cas(ctab, r1.key, e1), l.k, it)
                      rb == RecordAt(it.c, it.off)
                  IN /\ ctab' = t1
                     /\ IF rb.rid = 0 THEN fin("err", 0, 0) ELSE fin("hit", rb.rid, recs[rb.rid].ver)
  /\ UNCHANGED <<conf, up, head, chk, tree, hm, bk, gc, lock, disk, recs, ref, gh>>

R_Done(p) ==
  /\ pc[p] = "r_done"
  /\ SetPc(p, "idle")
  /\ UNCHANGED <<conf, up, head, chk, tree, hm, ctab, bk, gc, lock, loc, disk, recs, ref, gh>>

-----------------------------------------------------------------------------
(* incr: get, parse, add, set -- WITHOUT the write lock (Bucket.incr).     *)
(* Numeric values are the value ids NumBase + n, stored with FLAG_INCR.    *)
NumBase  == 100000
FlagIncr == 516
NumVh(n) == 60000 + n

I_Begin(p, k, delta, vhIn) ==
  /\ up /\ Idle(p) /\ p \in Clients
  /\ loc' = [loc EXCEPT ![p] = [op |-> "incr", k |-> k, c |-> -1, off |-> 0, ver |-> 0, rid |-> 0,
                                res |-> "", lb |-> gh.acked[k], delta |-> delta, vhIn |-> vhIn]]
  /\ SetPc(p, "r_lookup")
  /\ UNCHANGED <<conf, up, head, chk, tree, hm, ctab, bk, gc, lock, disk, recs, ref, gh>>

I_Decide(p) ==
  /\ pc[p] = "i_decide"
  /\ LET l == loc[p]
         live == l.res = "hit" /\ l.ver > 0
         r == IF l.rid > 0 THEN recs[l.rid] ELSE [val |-> 0, flag |-> 0]
         bad == l.res = "err" \/ (live /\ (r.flag # FlagIncr \/ r.val < NumBase))
         n == (IF live THEN r.val - NumBase ELSE 0) + l.delta
         ver == IF live THEN 1 + l.ver ELSE 1
     IN IF bad
          THEN /\ loc' = [loc EXCEPT ![p] = [l EXCEPT !.res = "incr_fail"]] /\ SetPc(p, "idle")
          ELSE /\ loc' = [loc EXCEPT ![p] = [op |-> "incr", k |-> l.k, val |-> NumBase + n, rev |-> 0,
                                             flag |-> FlagIncr, nblk |-> 1,
                                             vh |-> IF l.vhIn >= 0 THEN l.vhIn ELSE NumVh(n),
                                             ver |-> ver, c |-> -1, off |-> 0, rid |-> 0, res |-> "incr_ok",
                                             wrote |-> TRUE, ackAtInv |-> l.lb, locked |-> FALSE]]
               /\ SetPc(p, "i_append")
  /\ UNCHANGED <<conf, up, head, chk, tree, hm, ctab, bk, gc, lock, disk, recs, ref, gh>>

I_Append(p) ==
  /\ pc[p] = "i_append"
  /\ AppendStep(p, "i_treeset")
  /\ UNCHANGED <<conf, up, tree, hm, ctab, bk, gc, lock, disk, ref, gh>>

I_TreeSet(p) ==
  /\ pc[p] = "i_treeset"
  /\ TreeSetStep(p, "i_hintset")
  /\ UNCHANGED <<conf, up, head, chk, hm, ctab, bk, gc, lock, loc, disk, recs>>

I_HintSet(p) ==
  /\ pc[p] = "i_hintset"
  /\ HintSetStep(p, "idle", "set")
  /\ UNCHANGED <<conf, up, head, chk, tree, bk, gc, lock, loc, recs, ref, gh>>

-----------------------------------------------------------------------------
(* Flush: dataStore.flush(chunk, force=true) + dataChunk.flush             *)
(* f is "flusher" (HStore.flushdatas: chunk = -1, the head), "closer"      *)
(* (Bucket.close starts with flush(-1)) or the goroutine spawned by a      *)
(* rotation (chunk = the file just left).                                  *)

FlushProcs == {"flusher", "closer", "gc"} \cup RotProcs
\* where a flusher goes when flush() returns
AfterFlush(f) == IF f = "gc" THEN "g_fpick"
                 ELSE IF f # "closer" THEN "idle" ELSE IF loc[f].last THEN "cl_ctab" ELSE "cl_pick"
RotChunk(f) == CHOOSE c \in Chunks : RotName(c) = f

F_Start(f) ==     \* the environment calls flushdatas(true)
  /\ up /\ f = "flusher" /\ Idle(f)
  /\ loc' = [loc EXCEPT ![f] = [arg |-> -1, chunk |-> -1, n |-> 0, last |-> TRUE]]
  /\ SetPc(f, "f_enter")
  /\ UNCHANGED <<conf, up, head, chk, tree, hm, ctab, bk, gc, lock, disk, recs, ref, gh>>

\* first line of flush: unlocked early-out when nothing is buffered anywhere
F_Enter(f) ==
  /\ f \in FlushProcs /\ pc[f] \in {"f_enter", "spawned"}
  /\ LET l == IF pc[f] = "spawned" THEN [arg |-> RotChunk(f), chunk |-> -1, n |-> 0, last |-> TRUE] ELSE loc[f] IN
     /\ loc' = [loc EXCEPT ![f] = l]
     /\ SetPc(f, IF TotalWbuf THEN "f_lock" ELSE IF f = "gc" THEN "g_fpick"
                  ELSE IF f = "closer" THEN (IF l.last THEN "cl_ctab" ELSE "cl_pick") ELSE "idle")
  /\ UNCHANGED <<conf, up, head, chk, tree, hm, ctab, bk, gc, lock, disk, recs, ref, gh>>

\* flushLock, re-check under ds.Lock, resolve -1 to the current head, open (create) the file
F_Lock(f) ==
  /\ pc[f] = "f_lock" /\ lock.flush = Free
  /\ IF ~TotalWbuf
       THEN /\ SetPc(f, AfterFlush(f))
            /\ UNCHANGED <<lock, loc, disk, gh>>
       ELSE LET c == IF loc[f].arg < 0 THEN head ELSE loc[f].arg
                w == chk[c].wbuf
                want == IF Len(w) > 0 THEN w[1].off ELSE chk[c].size
                have == IF disk.exists[c] THEN Len(disk.data[c]) ELSE 0
            IN /\ lock' = [lock EXCEPT !.flush = f]
               /\ loc' = [loc EXCEPT ![f] = [loc[f] EXCEPT !.chunk = c]]
               /\ disk' = [disk EXCEPT !.exists[c] = TRUE]
               /\ gh' = [gh EXCEPT !.fatal = @ \/ (want # have)]    \* "wrong data file size" Fatalf
               /\ SetPc(f, "f_snap")
  /\ UNCHANGED <<conf, up, head, chk, tree, hm, ctab, bk, gc, recs, ref>>

\* n := len(dc.wbuf) under the chunk lock
F_Snap(f) ==
  /\ pc[f] = "f_snap"
  /\ loc' = [loc EXCEPT ![f] = [loc[f] EXCEPT !.n = Len(chk[loc[f].chunk].wbuf)]]
  /\ SetPc(f, "f_write")
  /\ UNCHANGED <<conf, up, head, chk, tree, hm, ctab, bk, gc, lock, disk, recs, ref, gh>>

RECURSIVE BlocksOfSeq(_)
BlocksOfSeq(w) == IF w = <<>> THEN <<>> ELSE BlocksOf(Head(w).rid) \o BlocksOfSeq(Tail(w))

\* the n records are appended to the file and the bufio writer flushed            (FS)
F_Write(f) ==
  /\ pc[f] = "f_write"
  /\ LET c == loc[f].chunk n == loc[f].n IN
       disk' = [disk EXCEPT !.data[c] = @ \o BlocksOfSeq(SubSeq(chk[c].wbuf, 1, n))]
  /\ SetPc(f, "f_detach")
  /\ UNCHANGED <<conf, up, head, chk, tree, hm, ctab, bk, gc, lock, loc, recs, ref, gh>>

\* the flushed prefix is detached from the write buffer (under the chunk lock) and freed
F_Detach(f) ==
  /\ pc[f] = "f_detach"
  /\ LET c == loc[f].chunk n == loc[f].n IN
       chk' = [chk EXCEPT ![c].wbuf = SubSeq(@, n + 1, Len(@))]
  /\ SetPc(f, "f_end")
  /\ UNCHANGED <<conf, up, head, tree, hm, ctab, bk, gc, lock, loc, disk, recs, ref, gh>>

F_End(f) ==
  /\ pc[f] = "f_end"
  /\ lock' = [lock EXCEPT !.flush = Free]
  /\ SetPc(f, AfterFlush(f))
  /\ UNCHANGED <<conf, up, head, chk, tree, hm, ctab, bk, gc, loc, disk, recs, ref, gh>>

-----------------------------------------------------------------------------
(* Explicit hint dump: hintMgr.dumpAndMerge(false) as HintDumper calls it  *)
(* (one split per step; the background merge is never started, see         *)
(* DESIGN.md section 8).  Modelled for the "flusher" process slot.         *)
\* next split to dump in trydump(c, dumplast) order over chunks lo..hi: <<c, j, rotateFirst>> or <<-1,-1,FALSE>>
NextDump(h, lo, hi, dumplast) ==
  LET cand(c) == LET j == OldSplitToDump(h, c) l == Len(h.splits[c]) IN
                 IF j >= 0 THEN <<c, j, FALSE>>
                 ELSE IF (dumplast \/ (c # h.maxChunk /\ conf.dumpEager)) /\ h.lastTS[c] /\ NeedDump(h.splits[c][l])
                        THEN <<c, l - 1, TRUE>> ELSE <<-1, -1, FALSE>>
      S == {c \in lo..hi : cand(c)[1] >= 0}
  IN IF S = {} THEN <<-1, -1, FALSE>> ELSE cand(MinOf(S, 0))

DoDump(nd) ==    \* apply one NextDump result to (hm, disk)                        (FS)
  LET h1 == IF nd[3] THEN [hm EXCEPT !.splits[nd[1]] = Append(@, FreshSplit), !.lastTS[nd[1]] = FALSE] ELSE hm
      r == DumpSplit(h1, disk, nd[1], nd[2])
  IN hm' = r.h /\ disk' = r.d

-----------------------------------------------------------------------------
(* Clean shutdown: Bucket.close = flush(-1) ; dumpCollisions ; hints.close ; dumpHtree *)

CL_Start ==
  /\ up /\ Idle("closer")
  /\ loc' = [loc EXCEPT !["closer"] = [arg |-> -1, chunk |-> -1, n |-> 0, last |-> FALSE]]
  /\ SetPc("closer", "cl_pick")
  /\ UNCHANGED <<conf, up, head, chk, tree, hm, ctab, bk, gc, lock, disk, recs, ref, gh>>

\* dataStore.flushBuffered (the repair of finding F5): flush(i) for every chunk 0..head that still
\* has buffered records, then flush(-1).  Mutant "F5" = the old close(): flush(-1) only.
CL_Pick ==
  /\ pc["closer"] = "cl_pick"
  /\ LET S == {c \in 0..head : Len(chk[c].wbuf) > 0} IN
     IF S = {} \/ Mut("F5")
       THEN loc' = [loc EXCEPT !["closer"] = [arg |-> -1, chunk |-> -1, n |-> 0, last |-> TRUE]]
       ELSE loc' = [loc EXCEPT !["closer"] = [arg |-> MinOf(S, 0), chunk |-> -1, n |-> 0, last |-> FALSE]]
  /\ SetPc("closer", "f_enter")
  /\ UNCHANGED <<conf, up, head, chk, tree, hm, ctab, bk, gc, lock, disk, recs, ref, gh>>

\* no data file at all -> close returns at once; else collision.yaml is written     (FS)
CL_Ctab ==
  /\ pc["closer"] = "cl_ctab"
  /\ IF \A c \in Chunks : ~disk.exists[c]
       THEN SetPc("closer", "cl_exit") /\ disk' = disk
       ELSE SetPc("closer", "cl_hints") /\ disk' = [disk EXCEPT !.ctabf = ctab, !.hasctab = TRUE]
  /\ UNCHANGED <<conf, up, head, chk, tree, hm, ctab, bk, gc, lock, loc, recs, ref, gh>>

\* hints.close: trydump(i, true) for i in 0..maxChunkID, one split per step          (FS)
CL_Hints ==
  /\ pc["closer"] = "cl_hints"
  /\ LET nd == NextDump(hm, 0, hm.maxChunk, TRUE) IN
     IF nd[1] < 0 THEN SetPc("closer", "cl_rmtree") /\ UNCHANGED <<hm, disk>>
     ELSE DoDump(nd) /\ pc' = pc
  /\ UNCHANGED <<conf, up, head, chk, tree, ctab, bk, gc, lock, loc, recs, ref, gh>>

\* dumpHtree part 1: if maxDumpedHintID >= TreeID remove every tree file             (FS)
CL_RmTree ==
  /\ pc["closer"] = "cl_rmtree"
  /\ IF IdGE(hm.maxDumped, bk.treeID)
       THEN /\ disk' = [disk EXCEPT !.treef = {}]
            /\ bk' = [bk EXCEPT !.treeID = hm.maxDumped]
            /\ SetPc("closer", "cl_tree")
       ELSE SetPc("closer", "cl_exit") /\ UNCHANGED <<disk, bk>>
  /\ UNCHANGED <<conf, up, head, chk, tree, hm, ctab, gc, lock, loc, recs, ref, gh>>

\* dumpHtree part 2: tmp file + rename                                               (FS)
CL_Tree ==
  /\ pc["closer"] = "cl_tree"
  /\ disk' = [disk EXCEPT !.treef = @ \cup {[id |-> bk.treeID, slots |-> tree]}]
  /\ SetPc("closer", "cl_exit")
  /\ UNCHANGED <<conf, up, head, chk, tree, hm, ctab, bk, gc, lock, loc, recs, ref, gh>>

\* memory of a dead process: everything volatile is reset, every goroutine is gone
DeadMem ==
  /\ up' = FALSE /\ head' = 0
  /\ chk' = [c \in Chunks |-> FreshChunk]
  /\ tree' = [h \in HashIds |-> NoSlot]
  /\ hm' = FreshHm /\ ctab' = <<>> /\ bk' = [treeID |-> NoId, nextgc |-> 0] /\ gc' = NoGC
  /\ lock' = [write |-> Free, flush |-> Free]
  /\ pc' = [p \in Procs |-> "idle"] /\ loc' = [p \in Procs |-> <<>>]

\* the process exits: buffers and every still-running goroutine die with it
Exit ==
  /\ pc["closer"] = "cl_exit"
  /\ DeadMem
  /\ gh' = [gh EXCEPT !.lostAck = @ \/ (\E c \in Chunks : Len(chk[c].wbuf) > 0)]
  /\ UNCHANGED <<conf, disk, recs, ref>>

-----------------------------------------------------------------------------
(* Garbage collection: HStore.GC / GCMgr.gc (store/gc.go).  GC takes no    *)
(* write lock; every step below is one short critical section or one       *)
(* file-system mutation of the code.                                       *)

DiskSize(c) == IF Len(chk[c].wbuf) > 0 THEN chk[c].wbuf[1].off ELSE chk[c].size   \* getDiskFileSize

\* gcCheckStart / gcCheckEnd / gcCheckRange.  Old(n): the first record of file n is older than
\* the age limit (the only place where time enters the specification; an input).
\* [ok, b, e] ; ok = FALSE is one of the three refusals
RangeOf(start, end, Old(_)) ==
  LET s0 == IF start < 0 THEN bk.nextgc ELSE start IN
  IF start > head THEN [ok |-> FALSE, b |-> 0, e |-> 0, why |-> "start>head"]
  ELSE LET S == {c \in s0..(head - 1) : chk[c].size > 0}
           s == MinOf(S, head)
           e0 == IF end < 0 \/ end >= head - 1 THEN head - 1 ELSE end
           N == {n \in (s + 1)..(e0 + 1) : n \in Chunks /\ DiskSize(n) > 0 /\ Old(n)}
       IN IF N = {} THEN [ok |-> FALSE, b |-> s, e |-> e0, why |-> "no file to gc"]
          ELSE LET next == MaxOf(N, 0)
                   E == {c \in s..(next - 1) : chk[c].size > 0}
                   e == MaxOf(E, s - 1)
               IN IF e < s THEN [ok |-> FALSE, b |-> s, e |-> e, why |-> "nothing to gc"]
                  ELSE [ok |-> TRUE, b |-> s, e |-> e, why |-> ""]

\* destination chunk: nearest earlier non-empty file if it is not "full", else the slot
\* after it (if that is not the range start), else the range start itself (in place)
Dst0(begin) ==
  LET S == {i \in 0..(begin - 1) : chk[i].size > 0} IN
  IF S = {} THEN begin
  ELSE LET i == MaxOf(S, 0) IN
       IF chk[i].size < conf.fileMax - conf.bodyMaxBlk THEN i
       ELSE IF i < begin - 1 THEN i + 1 ELSE begin

\* dataChunk.beginGCWriting(src) on chunk d: returns the new chunk record
BeginGCW(d, src) == IF d = src THEN [chk[d] EXCEPT !.rewriting = TRUE, !.rewritten = FALSE, !.wHead = 0]
                    ELSE [chk[d] EXCEPT !.wHead = chk[d].size]

\* lay the blocks of rid over file f at block offset o (overwrite or extend)
Overlay(f, o, rid) ==
  LET n == recs[rid].nblk
      len == Max2(Len(f), o + n)
  IN [i \in 1..len |-> IF i > o /\ i <= o + n THEN [rid |-> rid, i |-> i - o - 1]
                       ELSE IF i <= Len(f) THEN f[i] ELSE [rid |-> 0, i |-> 0]]

\* dataChunk.endGCWriting on chunk d: truncate a rewritten file to what was written   (FS)
\* Repaired (finding F20): only once the old content has been read to its end (rewritten); a pass cancelled
\* before that used to cut off every record it had not reached yet (mutant "F20" = the old code).
EndGCW(ck, d, dd) ==
  IF ck[dd].rewriting /\ (ck[dd].rewritten \/ Mut("F20")) /\ ck[dd].wHead < ck[dd].size
    THEN [chk |-> [ck EXCEPT ![dd].size = ck[dd].wHead, ![dd].rewriting = FALSE, ![dd].rewritten = FALSE],
          disk |-> IF ck[dd].wHead = 0 THEN [d EXCEPT !.exists[dd] = FALSE, !.data[dd] = <<>>]
                   ELSE [d EXCEPT !.data[dd] = SubSeq(@, 1, ck[dd].wHead)]]
    ELSE [chk |-> [ck EXCEPT ![dd].rewriting = FALSE, ![dd].rewritten = FALSE], disk |-> d]

GCUnch == UNCHANGED <<conf, up, head, lock, recs, ref, gh>>

\* the pass starts (HStore.GC after its checks, `go gcMgr.gc`)
G_Start(b, e, merge) ==
  /\ up /\ Idle("gc")
  /\ gc' = [NoGC EXCEPT !.begin = b, !.end = e, !.merge = merge]
  /\ SetPc("gc", "g_register")
  /\ UNCHANGED <<chk, tree, hm, ctab, bk, loc, disk>> /\ GCUnch

G_Register ==
  /\ pc["gc"] = "g_register"
  /\ gc' = [gc EXCEPT !.reg = TRUE]
  /\ SetPc("gc", "g_fpick")
  /\ UNCHANGED <<chk, tree, hm, ctab, bk, loc, disk>> /\ GCUnch

\* Repaired (finding F15): dataStore.flushBuffered before the pass touches any file -- records still
\* buffered for a file of the range (a just rotated file whose flush goroutine has not run yet) are
\* written first.  Mutant "F15" = the old code, which collected such a file from its on-disk content only
\* and dropped the buffer with Clear().
G_FPick ==
  /\ pc["gc"] = "g_fpick"
  /\ LET S == {c \in 0..head : Len(chk[c].wbuf) > 0} IN
     IF S = {} \/ Mut("F15")
       THEN SetPc("gc", "g_before") /\ loc' = loc
       ELSE /\ loc' = [loc EXCEPT !["gc"] = [arg |-> MinOf(S, 0), chunk |-> -1, n |-> 0, last |-> FALSE]]
            /\ SetPc("gc", "f_enter")
  /\ UNCHANGED <<chk, tree, hm, ctab, bk, gc, disk>> /\ GCUnch

\* BeforeBucket (merge off): drop the merged hint, remove every tree dump               (FS)
G_Before ==
  /\ pc["gc"] = "g_before"
  /\ hm' = [hm EXCEPT !.gcing = TRUE]
  /\ disk' = [disk EXCEPT !.treef = {}]
  /\ bk' = [bk EXCEPT !.treeID = <<0, 0>>]
  /\ SetPc("gc", "g_dst")
  /\ UNCHANGED <<chk, tree, ctab, gc, loc>> /\ GCUnch

\* destination choice + beginGCWriting(gc.Begin); an absent destination file is created  (FS)
G_Dst ==
  /\ pc["gc"] = "g_dst"
  /\ LET d == Dst0(gc.begin) IN
     /\ gc' = [gc EXCEPT !.dst = d, !.src = gc.begin]
     /\ chk' = [chk EXCEPT ![d] = BeginGCW(d, gc.begin)]
     /\ disk' = [disk EXCEPT !.exists[d] = TRUE]
  /\ SetPc("gc", "g_src")
  /\ UNCHANGED <<tree, hm, ctab, bk, loc>> /\ GCUnch

\* top of the per-file loop: cancel flag, skip empty, ClearChunk(src) hints               (FS)
G_Src ==
  /\ pc["gc"] = "g_src"
  /\ IF gc.src > gc.end \/ gc.cancel
       THEN SetPc("gc", "g_end") /\ UNCHANGED <<gc, hm, disk>>
     ELSE IF chk[gc.src].size <= 0
       THEN gc' = [gc EXCEPT !.src = @ + 1] /\ UNCHANGED <<pc, hm, disk>>
     ELSE /\ hm' = [hm EXCEPT !.splits[gc.src] = <<FreshSplit>>, !.lastTS[gc.src] = FALSE]
          /\ disk' = [disk EXCEPT !.hintf[gc.src] = <<>>]
          /\ gc' = [gc EXCEPT !.cur = 0, !.oldpos = <<-1, -1>>, !.rid = 0]
          /\ SetPc("gc", "g_next")
  /\ UNCHANGED <<chk, tree, ctab, bk, loc>> /\ GCUnch

\* is the collision table / hint buffers covering key k?  [coll, has, c, off, vh]
CollGC(k) ==
  IF \E k2 \in DOMAIN ctab : HashOf(k2) = HashOf(k)
    THEN IF Has(ctab, k) THEN [coll |-> TRUE, has |-> TRUE, c |-> ctab[k].c, off |-> ctab[k].off, vh |-> ctab[k].vh]
         ELSE [coll |-> TRUE, has |-> FALSE, c |-> -1, off |-> 0, vh |-> 0]
  ELSE [coll |-> FALSE, has |-> FALSE, c |-> -1, off |-> 0, vh |-> 0]

\* DataStreamReader.Next on the source file + the newest-check against the tree
G_Next ==
  /\ pc["gc"] = "g_next"
  /\ LET f == IF disk.exists[gc.src] THEN disk.data[gc.src] ELSE <<>>
         n == ScanNext(f, gc.cur)
     IN IF n[1] = 0 THEN SetPc("gc", "g_srcend") /\ gc' = gc /\ gh' = gh
        ELSE LET rid == n[1] off == n[2] r == recs[rid]
                 sl == tree[HashOf(r.key)]
                 found == sl # NoSlot
                 same == found /\ sl.c = gc.src /\ sl.off = off
                 cg == CollGC(r.key)
                 keep == IF found
                           THEN same \/ (cg.coll /\ (~cg.has \/ (cg.c = gc.src /\ cg.off = off)))
                           \* repaired (finding F21): a key served from the collision table although its group has no
                           \* tree slot (F8a aftermath) keeps the record the table points at; mutant "F21" = the old code
                           ELSE (gc.begin > 0 /\ r.ver < 0) \/ (~Mut("F21") /\ cg.has /\ cg.c = gc.src /\ cg.off = off)
                 vh == IF same THEN sl.vh ELSE IF found /\ cg.coll /\ cg.has THEN cg.vh
                       ELSE IF found THEN (IF r.ver > 0 THEN r.vh ELSE 0)
                       ELSE IF ~(gc.begin > 0 /\ r.ver < 0) /\ ~Mut("F21") /\ cg.has /\ cg.c = gc.src /\ cg.off = off THEN cg.vh
                       ELSE 0
                 fits == r.nblk + chk[gc.dst].wHead <= conf.fileMax
             IN /\ gc' = [gc EXCEPT !.cur = n[3], !.rid = rid, !.oldpos = <<gc.src, off>>, !.found = found,
                                    !.keep = keep, !.meta = [c |-> -1, off |-> 0, ver |-> r.ver, vh |-> vh],
                                    !.released = IF keep THEN @ ELSE @ + 1]
                /\ SetPc("gc", IF ~keep THEN "g_next" ELSE IF fits THEN "g_copy" ELSE "g_dstswitch")
                \* known finding F18, marked where it happens: the CURRENT live record of a key is dropped because another
                \* key with the same hash owns the tree slot and the collision is not known to the table / hint buffers
                /\ gh' = IF ~keep /\ found /\ ~same /\ ~cg.coll /\ Colliding(r.key) /\ r.ver > 0
                            /\ rid = MaxOf({i \in 1..Len(recs) : recs[i].key = r.key}, 0)
                          THEN [gh EXCEPT !.kf = Put(@, r.key, "F18")] ELSE gh
  /\ UNCHANGED <<chk, tree, hm, ctab, bk, loc, disk>> /\ UNCHANGED <<conf, up, head, lock, recs, ref>>

\* the destination is full: endGCWriting, trydump(dst, true), dst++, beginGCWriting(src)     (FS)
G_DstSwitch ==
  /\ pc["gc"] = "g_dstswitch"
  /\ LET e == EndGCW(chk, disk, gc.dst)
         td == TryDump(hm, e.disk, gc.dst, TRUE)
         d2 == gc.dst + 1
         ck2 == [e.chk EXCEPT ![d2] = IF d2 = gc.src THEN [e.chk[d2] EXCEPT !.rewriting = TRUE, !.rewritten = FALSE, !.wHead = 0]
                                       ELSE [e.chk[d2] EXCEPT !.wHead = e.chk[d2].size]]
     IN /\ d2 \in Chunks
        /\ chk' = ck2 /\ hm' = td.h
        /\ disk' = [td.d EXCEPT !.exists[d2] = TRUE]
        /\ gc' = [gc EXCEPT !.dst = d2]
  /\ SetPc("gc", "g_copy")
  /\ UNCHANGED <<tree, ctab, bk, loc>> /\ GCUnch

\* AppendRecordGC: the record is written at the destination's writing head and flushed      (FS)
G_Copy ==
  /\ pc["gc"] = "g_copy"
  /\ LET d == gc.dst o == chk[d].wHead n == recs[gc.rid].nblk IN
     /\ disk' = [disk EXCEPT !.data[d] = Overlay(@, o, gc.rid)]
     /\ chk' = [chk EXCEPT ![d].wHead = o + n, ![d].size = Max2(@, o + n)]
     /\ gc' = [gc EXCEPT !.newoff = o]
  /\ SetPc("gc", IF gc.found THEN "g_repget" ELSE "g_hint")
  /\ UNCHANGED <<tree, hm, ctab, bk, loc>> /\ GCUnch

\* UpdateHtreePos.  Repaired (finding F4): HTree.updatePos moves the slot atomically and only if it
\* still points at the record just relocated.  Mutant "F4" = the old code: a get followed by a set
\* (two critical sections) that wrote the possibly stale version back unconditionally.
G_RepointGet ==
  /\ pc["gc"] = "g_repget"
  /\ LET h == HashOf(recs[gc.rid].key) sl == tree[h] IN
     IF Mut("F4")
       THEN /\ tree' = tree
            /\ IF sl = NoSlot THEN SetPc("gc", "g_hint") /\ gc' = gc
               ELSE SetPc("gc", "g_repset") /\ gc' = [gc EXCEPT !.meta = [@ EXCEPT !.c = sl.ver, !.off = sl.vh]]
       ELSE /\ tree' = IF sl # NoSlot /\ <<sl.c, sl.off>> = gc.oldpos
                         THEN [tree EXCEPT ![h] = [sl EXCEPT !.c = gc.dst, !.off = gc.newoff]] ELSE tree
            /\ SetPc("gc", "g_hint") /\ gc' = gc
  /\ UNCHANGED <<chk, hm, ctab, bk, loc, disk>> /\ GCUnch

G_RepointSet ==      \* only reachable under mutant "F4"
  /\ pc["gc"] = "g_repset"
  /\ tree' = [tree EXCEPT ![HashOf(recs[gc.rid].key)] =
                 [c |-> gc.dst, off |-> gc.newoff, ver |-> gc.meta.c, vh |-> gc.meta.off]]
  /\ SetPc("gc", "g_hint")
  /\ UNCHANGED <<chk, hm, ctab, bk, gc, loc, disk>> /\ GCUnch

\* hints.set(ki, meta, newPos, recsize, "gc") (+ trydump(dst,false) when the split rotated)   (FS)
G_HintSet ==
  /\ pc["gc"] = "g_hint"
  /\ LET r == recs[gc.rid] k == r.key d == gc.dst
         it == [off |-> gc.newoff, ver |-> gc.meta.ver, vh |-> gc.meta.vh]
         hs == HintSetItem(hm.splits[d], k, it, r.nblk)
         h1 == [hm EXCEPT !.splits[d] = hs.splits, !.lastTS[d] = TRUE]
         td == IF hs.rotated THEN TryDump(h1, disk, d, FALSE) ELSE [h |-> h1, d |-> disk]
     IN /\ ctab' = IF Has(ctab, k) THEN Put(ctab, k, [c |-> d, off |-> gc.newoff, ver |-> it.ver, vh |-> it.vh]) ELSE ctab
        /\ hm' = [td.h EXCEPT !.maxChunk = Max2(@, d)]
        /\ disk' = td.d
  /\ SetPc("gc", "g_next")
  /\ UNCHANGED <<chk, tree, bk, gc, loc>> /\ GCUnch

\* end of one source file: Clear() it unless it is the destination; remember nextgc          (FS)
G_SrcEnd ==
  /\ pc["gc"] = "g_srcend"
  /\ LET s == gc.src
         clear == s # gc.dst
         newgc == IF s + 1 >= bk.nextgc THEN s + 1 ELSE bk.nextgc
     IN /\ chk' = IF clear THEN [chk EXCEPT ![s] = FreshChunk]
                ELSE IF chk[s].rewriting THEN [chk EXCEPT ![s].rewritten = TRUE] ELSE chk
        \* repaired (finding F6): a file that has just been rewritten in place loses its stale tail NOW
        \* (truncateRewritten), not at the end of the pass; mutant "F6" = the old code
        /\ disk' = [IF clear THEN [disk EXCEPT !.exists[s] = FALSE, !.data[s] = <<>>]
                    ELSE IF chk[s].rewriting /\ chk[s].wHead < chk[s].size /\ ~Mut("F6")
                      THEN [disk EXCEPT !.data[s] = SubSeq(@, 1, Min2(chk[s].wHead, Len(@)))]
                    ELSE disk
                      EXCEPT !.nextgcf = IF s + 1 >= bk.nextgc THEN s + 1 ELSE @]
        /\ bk' = [bk EXCEPT !.nextgc = newgc]
        /\ gc' = [gc EXCEPT !.src = s + 1]
        /\ gh' = [gh EXCEPT !.lostAck = @ \/ (clear /\ Len(chk[s].wbuf) > 0)]   \* Clear() drops a write buffer
  /\ SetPc("gc", "g_src")
  /\ UNCHANGED <<conf, up, head, lock, recs, ref, tree, hm, ctab, loc>>

\* C18 over a disk image d: the records surviving in [b, e]
Survivors(d, b, e) == UNION {{[c |-> c, rid |-> x.rid, off |-> x.off] : x \in {ScanAll(d.data[c], 0)[i] : i \in 1..Len(ScanAll(d.data[c], 0))}} :
                             c \in {c \in b..e : c \in Chunks /\ d.exists[c]}}
Superseded(rid) == \E r2 \in (rid + 1)..Len(recs) : recs[r2].key = recs[rid].key
\* known finding F7: a superseded tombstone of a key absent from the (rebuilt) tree is kept when begin > 0
F7Case(rid, b) == recs[rid].ver < 0 /\ tree[HashOf(recs[rid].key)] = NoSlot /\ b > 0

\* deferred: endGCWriting (truncate the rewritten file), trydump(dst, true), unregister      (FS)
G_End ==
  /\ pc["gc"] = "g_end"
  /\ LET e == EndGCW(chk, disk, gc.dst)
         td == TryDump(hm, e.disk, gc.dst, TRUE)
         S == {x \in Survivors(td.d, gc.begin, gc.end) : ~Colliding(recs[x.rid].key)}
     IN /\ chk' = e.chk /\ disk' = td.d /\ hm' = [td.h EXCEPT !.gcing = FALSE]
        /\ gh' = IF gc.cancel THEN gh
                 ELSE [gh EXCEPT !.c18bad = @ \/ (\E x \in S : Superseded(x.rid) /\ ~(Mut("KF7") /\ F7Case(x.rid, gc.begin))),
                                 !.c18dup = @ \/ (\E x, y \in S : x # y /\ recs[x.rid].key = recs[y.rid].key /\ ~Superseded(x.rid) /\ ~Superseded(y.rid))]
  /\ gc' = [gc EXCEPT !.reg = FALSE]
  /\ SetPc("gc", "idle")
  /\ UNCHANGED <<tree, ctab, bk, loc, conf, up, head, lock, recs, ref>>

G_Cancel == /\ gc.reg /\ ~gc.cancel /\ gc' = [gc EXCEPT !.cancel = TRUE]
            /\ UNCHANGED <<chk, tree, hm, ctab, bk, loc, disk, pc>> /\ GCUnch

GCStep == G_Register \/ G_FPick \/ G_Before \/ G_Dst \/ G_Src \/ G_Next \/ G_DstSwitch \/ G_Copy
          \/ G_RepointGet \/ G_RepointSet \/ G_HintSet \/ G_SrcEnd \/ G_End

-----------------------------------------------------------------------------
(* Recovery: Bucket.open as a function of the disk group.                  *)

\* replay of one hint file into the tree (updateHtreeFromHint).  Items are visited in
\* (hash, key) order; ver > 0 sets the slot of the HASH, ver < 0 removes it -- so for a
\* group of colliding keys the key of greatest rank decides.
ApplyFile(t, c, items) ==
  [h \in HashIds |->
     LET S == {k \in DOMAIN items : HashOf(k) = h} IN
     IF S = {} THEN t[h]
     ELSE LET k == CHOOSE k \in S : \A k2 \in S : conf.rank[k] >= conf.rank[k2]
              it == items[k]
          IN IF it.ver > 0 THEN [c |-> c, off |-> it.off, ver |-> it.ver, vh |-> it.vh] ELSE NoSlot]

\* loadHintsByChunk: the consecutive, present hint files of chunk c; the rest is removed
ValidHintPrefix(fs) ==
  LET S == {n \in 0..Len(fs) : \A i \in 1..n : fs[i] # NoFile} IN SubSeq(fs, 1, MaxOf(S, 0))

\* buildHintFromData: feed scanned records into the hint buffers (setItem + inline trydump)
RECURSIVE FeedHints(_, _, _, _)
FeedHints(h, d, c, rs) ==
  IF rs = <<>> THEN [h |-> h, d |-> d]
  ELSE LET r == recs[Head(rs).rid]
           it == [off |-> Head(rs).off, ver |-> r.ver, vh |-> IF r.ver > 0 THEN r.vh ELSE 0]
           s1 == HintSetItem(h.splits[c], r.key, it, r.nblk)
           h1 == [h EXCEPT !.splits[c] = s1.splits, !.lastTS[c] = TRUE]
           td == IF s1.rotated THEN TryDump(h1, d, c, FALSE) ELSE [h |-> h1, d |-> d]
           h2 == [td.h EXCEPT !.maxChunk = Max2(@, c)]
       IN FeedHints(h2, td.d, c, Tail(rs))

\* checkHintWithData(c): returns [h, d]
CheckHintWithData(h, d, c) ==
  LET size == IF d.exists[c] THEN Len(d.data[c]) ELSE 0 IN
  IF size = 0 THEN [h |-> h, d |-> [d EXCEPT !.hintf[c] = <<>>]]
  ELSE LET fs == ValidHintPrefix(d.hintf[c])
           d1 == [d EXCEPT !.hintf[c] = fs]
           covered == MaxOf({fs[i].datasize : i \in 1..Len(fs)}, 0)
           filesp == [i \in 1..Len(fs) |-> [items |-> <<>>, maxoff |-> fs[i].datasize, isfile |-> TRUE]]
           h1 == [h EXCEPT !.splits[c] = filesp \o <<FreshSplit>>]
           \* repaired (finding F11): hints that claim more data than the file holds are dropped and
           \* rebuilt from the data file; mutant "F11" = the old code, which trusted them
           ahead == covered > size /\ ~Mut("F11")
           h0 == [h EXCEPT !.splits[c] = <<FreshSplit>>, !.lastTS[c] = FALSE]
           d0 == [d EXCEPT !.hintf[c] = <<>>]
       IN IF ahead
            THEN LET fd == FeedHints(h0, d0, c, ScanAll(d.data[c], 0)) IN TryDump(fd.h, fd.d, c, TRUE)
          ELSE IF covered < size
            THEN LET fd == FeedHints(h1, d1, c, ScanAll(d.data[c], covered)) IN
                 TryDump(fd.h, fd.d, c, TRUE)
            ELSE [h |-> h1, d |-> d1]

\* the per-chunk loop of open() for chunks i..MaxChunk; a = [h, d, t]
RECURSIVE OpenLoop(_, _, _)
OpenLoop(a, i, tid) ==
  IF i > MaxChunk THEN a
  ELSE LET r == CheckHintWithData(a.h, a.d, i)
           nfile == Len(r.h.splits[i]) - 1
           startsp == IF i = tid[1] THEN tid[2] + 1 ELSE 0
           RECURSIVE Replay(_, _)
           Replay(t, j) == IF j >= nfile THEN t ELSE Replay(ApplyFile(t, i, r.d.hintf[i][j + 1].items), j + 1)
       IN IF startsp >= nfile
            THEN OpenLoop([h |-> r.h, d |-> r.d, t |-> a.t], i + 1, tid)
            ELSE OpenLoop([h |-> [r.h EXCEPT !.maxDumped = <<i, startsp + nfile - 1>>], d |-> r.d,
                           t |-> Replay(a.t, 0)], i + 1, tid)

RECURSIVE BgLoop(_, _, _)       \* the background re-check of the chunks below the tree id
BgLoop(a, i, hi) == IF i >= hi THEN a ELSE LET r == CheckHintWithData(a.h, a.d, i) IN BgLoop([a EXCEPT !.h = r.h, !.d = r.d], i + 1, hi)

Recover(d) ==
  LET E == {c \in Chunks : d.exists[c]}
      maxdata == MaxOf(E, -1)
      valid == {t \in d.treef : t.id[1] <= maxdata}
      best == IF valid = {} THEN [id |-> NoId, slots |-> [h \in HashIds |-> NoSlot]]
              ELSE CHOOSE t \in valid : \A u \in valid : IdGE(t.id, u.id)
      d0 == [d EXCEPT !.treef = IF valid = {} THEN {} ELSE {best}]
      h0 == [FreshHm EXCEPT !.maxDumped = best.id]
      a1 == OpenLoop([h |-> h0, d |-> d0, t |-> best.slots], best.id[1], best.id)
      a2 == BgLoop(a1, 0, best.id[1])
      dumpnow == maxdata >= 0 /\ a2.d.treef = {} /\ IdGE(a2.h.maxDumped, best.id)
      tid == IF dumpnow THEN a2.h.maxDumped ELSE best.id
      d3 == IF dumpnow THEN [a2.d EXCEPT !.treef = {[id |-> tid, slots |-> a2.t]}] ELSE a2.d
  IN [head |-> maxdata + 1,
      chk |-> [c \in Chunks |-> IF d.exists[c]
                 THEN [wHead |-> Len(d.data[c]), size |-> Len(d.data[c]), rewriting |-> FALSE, rewritten |-> FALSE, wbuf |-> <<>>]
                 ELSE FreshChunk],
      tree |-> a2.t, hm |-> a2.h, disk |-> d3,
      ctab |-> IF d.hasctab THEN d.ctabf ELSE <<>>,
      bk |-> [treeID |-> tid, nextgc |-> IF d.nextgcf >= 0 THEN d.nextgcf ELSE 0]]

-----------------------------------------------------------------------------
(* Process kill (SIGKILL): completed writes survive, memory and every      *)
(* goroutine are gone.  Crash is enabled in EVERY state, i.e. between any  *)
(* two actions; a kill in the middle of a data write leaves a strict       *)
(* prefix of its blocks (CrashTornFlush / CrashTornCopy).                  *)

\* newest record of key k whose blocks are all intact somewhere on disk image d
DurableOf(d, k) ==
  MaxOf({i \in 1..Len(recs) : recs[i].key = k /\ \E c \in Chunks : d.exists[c] /\
            \E o \in 0..(Len(d.data[c]) - 1) : ReadAtSeq(d.data[c], o) = i}, 0)

CrashWith(d) ==
  /\ up /\ DeadMem
  /\ disk' = d
  /\ gh' = [gh EXCEPT !.crashed = TRUE, !.durAt = [k \in Keys |-> DurableOf(d, k)], !.nrecsAt = Len(recs),
                      !.refAt = ref, !.gcAt = pc["gc"] # "idle"]
  /\ UNCHANGED <<conf, recs, ref>>

Crash == CrashWith(disk)

\* kill inside dataChunk.flush: only the first m blocks of the batch reached the file
CrashTornFlush ==
  \E f \in FlushProcs : pc[f] = "f_write" /\
    LET c == loc[f].chunk
        blocks == BlocksOfSeq(SubSeq(chk[c].wbuf, 1, loc[f].n))
    IN \E m \in 1..(Len(blocks) - 1) : CrashWith([disk EXCEPT !.data[c] = @ \o SubSeq(blocks, 1, m)])

\* kill inside AppendRecordGC: only the first m blocks of the relocated record were written
CrashTornCopy ==
  pc["gc"] = "g_copy" /\
    LET d == gc.dst o == chk[d].wHead n == recs[gc.rid].nblk
        full == Overlay(disk.data[d], o, gc.rid)
    IN \E m \in 1..(n - 1) :
         CrashWith([disk EXCEPT !.data[d] = [i \in 1..Max2(Len(disk.data[d]), o + m) |->
                                               IF i > o /\ i <= o + m THEN full[i]
                                               ELSE IF i <= Len(disk.data[d]) THEN disk.data[d][i] ELSE [rid |-> 0, i |-> 0]]])

\* a data file ends inside a record: open() refuses to start ("fail to start for bad data")
TornTail(d) ==
  \E c \in Chunks : d.exists[c] /\ Len(d.data[c]) > 0 /\
     \E o \in 0..(Len(d.data[c]) - 1) :
        LET b == d.data[c][o + 1] IN
        b.rid # 0 /\ b.i = 0 /\ o + recs[b.rid].nblk > Len(d.data[c]) /\
        (\A j \in (o + 1)..Len(d.data[c]) : d.data[c][j] = [rid |-> b.rid, i |-> j - 1 - o])

\* what a read of k returns right after recovery r (no write buffer yet)
ReadRecovered(r, k) ==
  LET sl == IF Has(r.ctab, k) THEN r.ctab[k] ELSE r.tree[HashOf(k)] IN
  IF sl = NoSlot THEN [res |-> "miss", rid |-> 0, ver |-> 0]
  ELSE LET rid == IF r.disk.exists[sl.c] THEN ReadAtSeq(r.disk.data[sl.c], sl.off) ELSE 0 IN
       IF rid = 0 THEN [res |-> "err", rid |-> 0, ver |-> 0]
       ELSE IF recs[rid].key # k THEN [res |-> "err", rid |-> rid, ver |-> 0]
       ELSE [res |-> "hit", rid |-> rid, ver |-> sl.ver]

\* known finding F11: the index of k points into a chunk whose hint file claims more data than the file has
HintAheadErr(r, k) ==
  LET sl == IF Has(r.ctab, k) THEN r.ctab[k] ELSE r.tree[HashOf(k)] IN
  sl # NoSlot /\ ReadRecovered(r, k).res = "err" /\
  \E i \in 1..Len(r.disk.hintf[sl.c]) : r.disk.hintf[sl.c][i] # NoFile /\ r.disk.hintf[sl.c][i].datasize > Len(r.disk.data[sl.c])

\* C06: served value is a real write of k, at least as new as the durable one
AllowedAfterKill(k, g) ==
  LET W == {i \in 1..gh.nrecsAt : recs[i].key = k}
      A == {i \in W : i >= gh.durAt[k]}
  IN IF g.res = "hit" /\ g.ver > 0 THEN g.rid \in A
     ELSE IF g.res = "miss" \/ (g.res = "hit" /\ g.ver < 0) THEN gh.durAt[k] = 0 \/ \E i \in A : recs[i].ver < 0
     ELSE FALSE

Open ==
  /\ ~up /\ ~TornTail(disk)        \* a torn tail = explicit refusal to start (allowed by C06)
  /\ LET r == Recover(disk) IN
     /\ up' = TRUE /\ head' = r.head /\ chk' = r.chk /\ tree' = r.tree /\ hm' = r.hm
     /\ disk' = r.disk /\ ctab' = r.ctab /\ bk' = r.bk
     \* C02: "versions of deleted keys are not compared (tombstones are intentionally dropped
     \* when the tree is rebuilt)": for a DELETED key the reference adopts whatever version
     \* memory the recovered tree kept (the dump keeps tombstone slots, a rebuild forgets them).
     /\ ref' = [k \in Keys |->
                 IF ref[k].ver >= 0
                   THEN (IF k \in gh.treeOnly /\ r.tree[HashOf(k)].ver > 0
                           THEN [ref[k] EXCEPT !.ver = r.tree[HashOf(k)].ver] ELSE ref[k])
                 ELSE LET sl == r.tree[HashOf(k)] IN
                      IF sl = NoSlot THEN NoRef
                      ELSE IF sl.ver < 0 THEN [ref[k] EXCEPT !.ver = sl.ver] ELSE ref[k]]
     \* a tree-only version that the loaded tree dump preserved is still tree-only (a later rebuild may still lose it)
     /\ gh' = [gh EXCEPT !.treeOnly = {k \in @ : r.tree[HashOf(k)] # NoSlot /\ r.tree[HashOf(k)].ver = ref[k].ver}, !.crashed = FALSE,
                         !.c06bad = @ \/ (gh.crashed /\ ~gh.gcAt /\ \E k \in Keys : ~Colliding(k) /\ ~(Mut("KF11") /\ HintAheadErr(r, k)) /\
                                                ~AllowedAfterKill(k, ReadRecovered(r, k))),
                         !.c07bad = @ \/ (gh.crashed /\ gh.gcAt /\ \E k \in Keys : ~Colliding(k) /\
                                                ~(Mut("KF6") /\ gc.begin = 0 /\ gh.refAt[k].ver <= 0 /\ ReadRecovered(r, k).res = "hit") /\
                                                \* exact for a key whose current record was durable when the kill fell; a write still
                                                \* buffered then (the pass itself flushes it: G_FPick) is governed by C06
                                                (IF gh.durAt[k] = MaxOf({i \in 1..gh.nrecsAt : recs[i].key = k}, 0)
                                                   THEN ~Agrees(k, ReadRecovered(r, k), gh.refAt[k], 2)
                                                   ELSE ~AllowedAfterKill(k, ReadRecovered(r, k))))]
  /\ UNCHANGED <<conf, gc, lock, pc, loc, recs>>

\* between Exit and Open the environment may delete index files: they are caches (C02)
RmTreeDumps == /\ ~up /\ disk.treef # {} /\ disk' = [disk EXCEPT !.treef = {}]
               /\ UNCHANGED <<conf, up, head, chk, tree, hm, ctab, bk, gc, lock, pc, loc, recs, ref, gh>>
RmHint(c, j) == /\ ~up /\ Len(disk.hintf[c]) > j /\ disk.hintf[c][j + 1] # NoFile
                /\ disk' = [disk EXCEPT !.hintf[c][j + 1] = NoFile]
                /\ UNCHANGED <<conf, up, head, chk, tree, hm, ctab, bk, gc, lock, pc, loc, recs, ref, gh>>

-----------------------------------------------------------------------------
(* Scheduling.  A "start" step begins an operation or lets a spawned       *)
(* goroutine run; sequential configurations allow it only when nothing     *)
(* else is in progress (run to completion), free ones always.              *)

Quiet == \A p \in Procs : pc[p] \in {"idle", "spawned"}

ClientStep(p) ==
  \/ W_Lock(p) \/ W_ReadOld(p) \/ W_Append(p) \/ W_TreeSet(p) \/ W_TreeOnly(p) \/ W_HintSet(p) \/ W_Unlock(p)
  \/ R_Lookup(p) \/ R_Read(p) \/ R_Done(p)
  \/ I_Decide(p) \/ I_Append(p) \/ I_TreeSet(p) \/ I_HintSet(p)

FlushStep(f) == F_Lock(f) \/ F_Snap(f) \/ F_Write(f) \/ F_Detach(f) \/ F_End(f)
              \/ (pc[f] = "f_enter" /\ F_Enter(f))
CloseStep == CL_Pick \/ CL_Ctab \/ CL_Hints \/ CL_RmTree \/ CL_Tree \/ Exit

NonGCStep  == (\E p \in Clients : ClientStep(p)) \/ (\E f \in FlushProcs \ {"gc"} : FlushStep(f)) \/ CloseStep
GCProcStep == GCStep \/ FlushStep("gc")
OthersBusy == \E p \in Procs \ {"gc"} : pc[p] \notin {"idle", "spawned"}

\* every non-start step of every process
Continue == (\E p \in Clients : ClientStep(p)) \/ (\E f \in FlushProcs : FlushStep(f)) \/ CloseStep \/ GCStep

-----------------------------------------------------------------------------
(* Properties over the specification state.                                *)

\* the complete read path evaluated in the current state (no side effects)
SpecRead(k) ==
  LET m == OldMeta(k) IN
  IF ~m.found THEN [res |-> "miss", rid |-> 0, ver |-> 0]
  ELSE LET ra == RecordAt(m.c, m.off) IN
       IF ra.rid = 0 THEN [res |-> "err", rid |-> 0, ver |-> 0]
       ELSE IF recs[ra.rid].key = k THEN [res |-> "hit", rid |-> ra.rid, ver |-> m.ver]
       ELSE IF HashOf(recs[ra.rid].key) # HashOf(k) THEN [res |-> "err", rid |-> 0, ver |-> 0]
       ELSE LET it == HintLookup(k) IN
            IF it = NoSlot THEN [res |-> "miss", rid |-> 0, ver |-> 0]
            ELSE LET rb == RecordAt(it.c, it.off) IN
                 IF rb.rid = 0 THEN [res |-> "err", rid |-> 0, ver |-> 0]
                 ELSE [res |-> "hit", rid |-> rb.rid, ver |-> recs[rb.rid].ver]

C01_ReadMap == (up /\ Quiet) => \A k \in Keys : ~Colliding(k) => Agrees(k, SpecRead(k), ref[k], 1)
\* a read never returns another key's record
C13_NoAlias == (up /\ Quiet) => \A k \in Keys : LET r == SpecRead(k) IN r.res = "hit" => recs[r.rid].key = k
C13_ReadMap == (up /\ Quiet) => \A k \in Keys : Colliding(k) => Agrees(k, SpecRead(k), ref[k], 3)
NoFatal     == ~gh.fatal
C04_Distinct == ~gh.dup /\ ~gh.stale
C02_NoLostAck == ~gh.lostAck
C06_Recovered == ~gh.c06bad
C07_Recovered == ~gh.c07bad
C18_OnlyCurrent == ~gh.c18bad
C18_Once == ~gh.c18dup

TypeOK ==
  /\ head \in Chunks
  /\ \A c \in Chunks : chk[c].wHead >= 0 /\ chk[c].size >= 0
  /\ \A p \in Procs : pc[p] \in STRING

=============================================================================
