---------------------------- MODULE MC_HintFile ----------------------------
(***************************************************************************)
(* Exhaustive model checking of HintFile.tla over small abstract cases.    *)
(* A case is built item by item in canonical (sorted) order, so every      *)
(* distinct case is exactly one state; the properties are invariants, i.e. *)
(* they are evaluated on every case and on every prefix of it.             *)
(*                                                                         *)
(*   hashes : 1..NH   (abstract points  0 < lo < mid < hi < 2^64-1)        *)
(*   keys   : 1..NK per hash, key k is k bytes long (sizes 24, 25, 26 ...) *)
(*   a case : 1..MaxFiles files of 1..MaxItems items, interval threshold T *)
(*   file i has position rank r: chunk = r \div 2, offsets = 10*(r % 2)+.. *)
(*            so two files are in the same chunk or not, in either order   *)
(*   lookups: ALL (h,k) of the universe on every file and on the merged    *)
(*            file: present, below, between, equal-hash-other-key, above   *)
(***************************************************************************)
EXTENDS Integers, Sequences, FiniteSets, TLC, Json

CONSTANTS NH, NK, MaxItems, MaxFiles, Intervals, Mutants, GenMode
\* Intervals = values of Conf.IndexIntervalSize; 64 => every item indexed, 303/329 => about every 2nd, 1279 => none

IntLt(a, b) == a < b
KeyLen(k)   == k
PosLt(a, b) == a.c < b.c \/ (a.c = b.c /\ a.o < b.o)

INSTANCE HintFile WITH HLt <- IntLt, KLt <- IntLt, KLen <- KeyLen, PLt <- PosLt, Mut <- Mutants

VARIABLES fs,    \* sequence of files under construction: [rank, keys (sequence of <<h,k>>, ascending)]
          T      \* index threshold (Conf.IndexIntervalSize - 279)
vars == <<fs, T>>

Universe == (1..NH) \X (1..NK)
PairLt(p, q) == p[1] < q[1] \/ (p[1] = q[1] /\ p[2] < q[2])

\* materialise: item of file with rank r for pair p at ordinal i
ItemOf(r, p, i) == [h |-> p[1], k |-> p[2], c |-> 0, o |-> 10 * (r % 2) + i, v |-> r, vh |-> i]
BufOf(f)  == [items |-> {ItemOf(f.rank, f.keys[i], i) : i \in 1..Len(f.keys)},
              maxoff |-> 10 * (f.rank % 2) + Len(f.keys) + 1]
FileOf(f) == [chunk |-> f.rank \div 2, items |-> Sorted(BufOf(f).items), datasize |-> BufOf(f).maxoff]
Files     == [i \in 1..Len(fs) |-> FileOf(fs[i])]
NonEmpty  == [i \in {i \in 1..Len(fs) : Len(fs[i].keys) > 0} |-> FileOf(fs[i])]

Init == /\ T \in {Threshold(iv) : iv \in Intervals}
        /\ \E r \in (IF MaxFiles = 1 THEN {0} ELSE 0..MaxFiles) : fs = <<[rank |-> r, keys |-> <<>>]>>

AddItem == \E p \in Universe :
             LET f == fs[Len(fs)] IN
             /\ Len(f.keys) < MaxItems
             /\ (Len(f.keys) > 0 => PairLt(f.keys[Len(f.keys)], p))
             /\ fs' = [fs EXCEPT ![Len(fs)].keys = Append(@, p)]
             /\ UNCHANGED T

NewFile == /\ Len(fs) < MaxFiles
           /\ Len(fs[Len(fs)].keys) > 0
           /\ \E r \in 0..MaxFiles :
                /\ \A i \in 1..Len(fs) : fs[i].rank # r
                /\ fs' = Append(fs, [rank |-> r, keys |-> <<>>])
           /\ UNCHANGED T

Next == AddItem \/ NewFile
Spec == Init /\ [][Next]_vars

-----------------------------------------------------------------------------
Cur == fs[Len(fs)]

\* single-file properties on the file being built (earlier files were checked when they were last)
Inv_RoundTrip == C14_RoundTrip(BufOf(Cur), T)
Inv_Lookup    == C14_Lookup(BufOf(Cur).items, T, Universe)
Inv_F1Exact   == F1_Exact(BufOf(Cur).items, T, Universe)

\* merge of all (non-empty) files, and total lookup on the merged file as the writer lays it out
Inv_Merge == LET F == NonEmpty IN
             (DOMAIN F # {}) =>
                /\ C14_Merge(F)
                /\ (Len(fs) > 1 => C14_Lookup(SeqRange(MergeSpec(F)), T, Universe))

\* generation: every state is a case; print it for the orchestrator (GenMode only)
Gen == GenMode => PrintT("VERIF-CASE " \o ToJson([T |-> T, files |-> [i \in 1..Len(fs) |->
                          [rank |-> fs[i].rank, keys |-> fs[i].keys]]]))
=============================================================================
