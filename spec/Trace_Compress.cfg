SPECIFICATION TraceSpec
CONSTANTS
  Mutants = {%MUTANTS%}
CONSTRAINT HighWater
INVARIANT Report
POSTCONDITION TraceAccepted
CHECK_DEADLOCK FALSE
