\* scenario generator: prints one VERIF-CASE line per (value, path); run with -workers 1
SPECIFICATION GenSpec
CONSTANTS
  Mutants = {}
  MaxOps = 0
  MaxSets = 0
  SPFilter = {"v0", "v1", "rec255", "rec256", "rec257", "v1024", "v1025", "p10k-1", "p10k", "p10k+1", "big", "lk100", "lk215", "lk216"}
INVARIANTS GenPrint GenWellFormed GenProps
CHECK_DEADLOCK FALSE
