\* sample configuration (the quick tier of lib/fam_compress.py generates the same text)
SPECIFICATION MCSpec
CONSTANTS
  Mutants = {}
  MaxOps = 6
  MaxSets = 2
  SPFilter = {"rec256", "rec257", "p10k+1", "lk100"}
INVARIANTS C10_Transparent C10_VHash StoredFlagOK
CHECK_DEADLOCK FALSE
