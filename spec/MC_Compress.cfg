SPECIFICATION MCSpec
CONSTANTS
  Mutants = {}
  MaxOps = 7
  MaxSets = 2
  SPFilter = {"v0", "rec256", "rec257", "p10k", "p10k+1", "big", "lk100"}
INVARIANTS C10_Transparent C10_VHash StoredFlagOK
CHECK_DEADLOCK FALSE
