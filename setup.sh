#!/bin/sh
# Offline setup: verify the toolchain and warm the Go build cache from files on disk.
set -e
export GOFLAGS=-mod=mod GOPROXY=off GOSUMDB=off GOTOOLCHAIN=local
command -v go >/dev/null
command -v java >/dev/null
command -v tlc >/dev/null
cd /repo && go build ./... && go test -tags verif -vet=off -count=1 -run '^$' ./store/ ./memcache/ ./gobeansdb/ >/dev/null
echo "setup ok"
