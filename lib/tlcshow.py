#!/usr/bin/env python3
"""Compact view of a TLC counterexample printed with -difftrace.
usage: tlcshow.py tlc-output.txt [var ...]   (default vars: pc loc ref)"""
import sys,re
txt=open(sys.argv[1]).read()
want=set(sys.argv[2:] or ['pc','loc','ref'])
states=re.split(r'\nState (\d+): ', txt)
hdr=states[0]
for i in range(1,len(states),2):
    n=states[i]; body=states[i+1]
    # cut at end of trace
    body=body.split('\n\n')[0] if i+2>=len(states) else body
    first,_,rest=body.partition('\n')
    act=re.sub(r' line (\d+).*? of module (\w+)',r' @\2:\1',first).strip('<>')
    print(f'--{n}: {act}')
    # split variables: lines starting with '/\ name ='
    parts=re.split(r'\n(?=/\\ \w+ =)', '\n'+rest)
    for p in parts:
        m=re.match(r'\n?/\\ (\w+) = (.*)', p, re.S)
        if not m: continue
        if m.group(1) in want:
            v=re.sub(r'\s+',' ',m.group(2))
            print(f'     {m.group(1)} = {v[:600]}')
