"""Common machinery of the /verif orchestrator (python3, stdlib only).

build   : compile the in-package harness from /repo's CURRENT working tree (-tags verif, -overlay)
run     : execute scenarios on the real code, 16-wide, collect ndjson traces
tlc     : model-check a configuration / validate a concatenated trace
evidence: write /verif/evidence/<id>.json
"""
import json, os, re, shutil, subprocess, sys, tempfile, time, hashlib, glob

VERIF = os.path.dirname(os.path.dirname(os.path.abspath(__file__)))
REPO = os.environ.get('VERIF_REPO', '/repo')
SPEC = os.path.join(VERIF, 'spec')
NCPU = min(16, os.cpu_count() or 4)

GOENV = dict(os.environ, GOFLAGS='-mod=mod', GOPROXY='off', GOSUMDB='off', GOTOOLCHAIN='local',
             CGO_ENABLED='1')


class Inconclusive(Exception):
    pass


def mkwork():
    base = '/dev/shm' if os.path.isdir('/dev/shm') and os.access('/dev/shm', os.W_OK) else tempfile.gettempdir()
    return tempfile.mkdtemp(prefix='verif-', dir=base)


def sh(cmd, **kw):
    return subprocess.run(cmd, stdout=subprocess.PIPE, stderr=subprocess.STDOUT, text=True, **kw)


# ----------------------------------------------------------------------------- build
def build_harness(work, pkg='store'):
    """go test -c of package <pkg> of /repo with the harness files overlaid."""
    hdir = os.path.join(VERIF, 'harness', pkg)
    repl = {}
    for f in sorted(os.listdir(hdir)):
        if f.endswith('.go'):
            repl[os.path.join(REPO, pkg, f)] = os.path.join(hdir, f)
    ov = os.path.join(work, 'overlay-%s.json' % pkg)
    json.dump({'Replace': repl}, open(ov, 'w'))
    out = os.path.join(work, pkg + '.test')
    r = sh(['go', 'test', '-c', '-tags', 'verif', '-vet=off', '-overlay', ov, '-o', out, './' + pkg + '/'],
           cwd=REPO, env=GOENV, timeout=900)
    if r.returncode != 0 or not os.path.exists(out):
        raise Inconclusive('harness build failed:\n' + r.stdout[-3000:])
    return out


class Crash(tuple):
    """(shard, rc, log tail, culprit scenario id, kind); kind: 'fatal' = the store called logger.Fatalf (os.Exit(1) in
    production), 'store-panic' = a panic raised inside the store's own code, 'harness' = anything else"""
    def __new__(cls, *a):
        return super().__new__(cls, a)
    culprit = property(lambda self: self[3])
    kind = property(lambda self: self[4])


def classify_crash(log):
    i = log.find('panic:')
    if i < 0:
        return 'harness'
    blk = log[i:i + 6000]
    if 'FATAL:' in blk.split('\n', 1)[0] or 'vFatal' in blk.split('\n', 1)[0]:
        return 'fatal'
    # first frame of the panicking goroutine that belongs to the repository; the harness's own deferred closures that
    # recover and re-panic (step.func1 ...) sit ABOVE the frame that really panicked and are skipped
    lines = blk.split('\n')
    for j, line in enumerate(lines):
        m = re.match(r'\s+(/\S+\.go):\d+', line)
        if m and '/gobeansdb/' not in m.group(1) and not m.group(1).startswith(REPO):
            continue
        if m:
            fn = lines[j - 1] if j > 0 else ''
            if 'zz_verif' in m.group(1) and re.search(r'\.func\d+(\.\d+)?\(', fn):
                continue
            return 'harness' if 'zz_verif' in m.group(1) else 'store-panic'
    return 'harness'


def crash_verdicts(crashed, pid):
    """a store that kills itself (Fatalf) or panics in its own code while a scenario runs is a violation of the property
    under check; a crash of the harness itself is inconclusive"""
    out = []
    for c in crashed:
        if c.kind == 'harness' or c.culprit is None:
            raise Inconclusive('harness process died (%s): %s' % (c.kind, c[2][-1200:]))
        i = c[2].find('panic:')
        out.append({'sid': c.culprit, 'n': 0, 'check': '%s_StoreDied_%s' % (pid, c.kind.replace('-', '_')), 'kf': '',
                    'detail': (c[2][i:i + 1800] if i >= 0 else c[2][-1800:]).replace('\n', ' | ')})
    return out


def died_verdicts(traces, pid):
    """a store that called logger.Fatalf INSIDE a foreground operation of a scenario (the harness turns the exit into a
    panic, recovers it and ends the scenario) has killed itself: a violation of the property under check"""
    out = []
    for sid, evs in traces.items():
        for e in evs:
            if e.get('l') == 1 and e.get('fatal') and e.get('a') not in ('Recovered', 'RecoveredHere'):
                out.append({'sid': sid, 'n': e.get('n', 0), 'check': '%s_StoreDied_fatal' % pid, 'kf': ''})
                break
    return out


# ----------------------------------------------------------------------------- run
def run_scenarios(testbin, scenarios, work, pkg='store', shards=NCPU, timeout=900, runname='TestVerifRun'):
    """Run scenarios (list of dicts) on the real code; returns {sid: [events]} and raw stats."""
    if not scenarios:
        return {}
    shards = max(1, min(shards, len(scenarios)))
    procs = []
    for i in range(shards):
        part = scenarios[i::shards]
        inp = os.path.join(work, 'scen-%d.ndjson' % i)
        outp = os.path.join(work, 'trace-%d.ndjson' % i)
        wd = os.path.join(work, 'run-%d' % i)
        os.makedirs(wd, exist_ok=True)
        with open(inp, 'w') as f:
            for s in part:
                f.write(json.dumps(s) + '\n')
        tmo = max(timeout, 300 + 6 * len(part))      # thorough tiers run thousands of scenarios per shard
        cmd = [testbin, '-test.run', '^%s$' % runname, '-test.timeout', '%ds' % tmo,
               '-verif.in', inp, '-verif.out', outp, '-verif.work', wd]
        logf = open(os.path.join(work, 'run-%d.log' % i), 'w')
        p = subprocess.Popen(cmd, cwd=os.path.join(REPO, pkg), stdout=logf, stderr=subprocess.STDOUT, env=GOENV)
        procs.append((p, outp, logf, part, i, tmo))
    traces = {}
    crashed = []
    for p, outp, logf, part, i, tmo in procs:
        try:
            rc = p.wait(timeout=tmo + 60)
        except subprocess.TimeoutExpired:
            p.kill()
            rc = -9
        logf.close()
        cur = None
        if os.path.exists(outp):
            for line in open(outp):
                line = line.strip()
                if not line:
                    continue
                e = json.loads(line)
                if e.get('a') == 'Reset':
                    cur = e['sid']
                    traces[cur] = []
                if cur is not None:
                    traces[cur].append(e)
        if rc != 0:
            log = open(os.path.join(work, 'run-%d.log' % i), errors='replace').read()
            done = {sid for sid, evs in traces.items() if evs and evs[-1].get('a') == 'End'}
            culprit = next((sc['id'] for sc in part if sc['id'] not in done), None)
            crashed.append(Crash(i, rc, (log[log.find('panic:'):][:6000] if 'panic:' in log else log[-2500:]), culprit, classify_crash(log)))
        shutil.rmtree(os.path.join(work, 'run-%d' % i), ignore_errors=True)
    return traces, crashed


# ----------------------------------------------------------------------------- L1 normalisation
def _rm_entry(name):
    m = re.match(r'^(\d{3})\.(\d{3})\.idx\.(s|hash|m)$', name)
    if not m:
        return None
    kind = {'s': 'hint', 'hash': 'tree', 'm': 'merged'}[m.group(3)]
    return {'kind': kind, 'c': int(m.group(1)), 's': int(m.group(2))}


def _read(g):
    return {'res': g.get('res', 'miss'), 'val': int(g.get('val', 0) or 0), 'ver': int(g.get('ver', 0) or 0),
            'flag': int(g.get('flag', 0) or 0), 'c': int(g.get('c', -1) if g.get('c') is not None else -1),
            'off': int(g.get('off', 0) or 0)}


NOST = {'head': -1, 'size': [], 'nbuf': [], 'nextgc': -1}


def _st(e):
    st = e.get('st')
    if not st:
        return dict(NOST)
    return {'head': int(st['head']), 'size': [int(x) for x in st.get('size') or []], 'nbuf': [int(x) for x in st.get('nbuf') or []],
            'nextgc': int(st.get('nextgc', -1))}


def normalize_l1(events):
    """Pure reformatting of the level-1 events of one scenario into the fixed schema that
    Trace_Bucket.tla reads.  No state is guessed here."""
    out = []
    reopened = False
    gced = False
    # crash family: the Recovered observations are produced at the end of the scenario; move each to the
    # RecoveredHere marker of the operation it belongs to (pure reordering by the logged op index)
    rec_by_op = {}
    for e in events:
        if e.get('a') == 'Recovered':
            rec_by_op.setdefault(e.get('op'), []).append(e)
    if rec_by_op:
        ev2 = []
        for e in events:
            if e.get('a') == 'Recovered':
                continue
            if e.get('a') == 'RecoveredHere':
                ev2.extend(rec_by_op.get(e.get('op'), []))
                continue
            ev2.append(e)
        events = ev2
    for e in events:
        if e.get('l') != 1:
            continue
        a = e['a']
        n = e['n']
        if a == 'Reset':
            out.append({'a': 'Reset', 'n': n, 'sid': e['sid'], 'conf': e['conf']})
        elif a == 'Set':
            out.append({'a': 'Set', 'n': n, 'k': e['k'], 'val': e['val'], 'rev': e['rev'], 'flag': e['flag'],
                        'nblk': e['nblk'], 'vh': e['vh'], 'res': e['res'], 'ver': int(e.get('ver', 0) or 0),
                        'wrote': bool(e.get('wrote')), 'c': int(e.get('c', -1)), 'off': int(e.get('off', 0)), 'st': _st(e),
                        'ctab': e.get('ctab') or []})
        elif a == 'Get':
            r = _read(e)
            r.update({'a': 'Get', 'n': n, 'k': e['k'], 'c': int(e.get('c', -1)), 'off': int(e.get('off', 0)),
                      'afteropen': reopened, 'aftergc': gced, 'ctab': e.get('ctab') or []})
            out.append(r)
        elif a == 'Incr':
            out.append({'a': 'Incr', 'n': n, 'k': e['k'], 'd': e['d'], 'res': e['res'], 'vh': e['vh'], 'st': _st(e),
                        'ctab': e.get('ctab') or [], 'afteropen': reopened, 'aftergc': gced})
        elif a in ('Flush', 'Close', 'HintDump'):
            out.append({'a': a, 'n': n, 'st': _st(e)})
        elif a == 'RotFlush':
            out.append({'a': 'RotFlush', 'n': n, 'c': e['c'], 'ran': bool(e.get('ran')), 'st': _st(e)})
        elif a == 'Open':
            rm = [x for x in (_rm_entry(nm) for nm in e.get('removed', [])) if x]
            out.append({'a': 'Open', 'n': n, 'removed': rm, 'meta': e.get('meta', {}), 'head': e.get('head', -1),
                        'ok': 'err' not in e, 'ctab': e.get('ctab') or [], 'st': _st(e)})
            reopened = True
        elif a == 'GCStart':
            out.append({'a': 'GCStart', 'n': n, 'begin': e['begin'], 'end': e['end'], 'merge': bool(e.get('merge')),
                        'rb': e['rb'], 're': e['re'], 'old': e.get('old') or {'_': True}, 'agesure': bool(e.get('agesure', True)),
                        'second': False})
        elif a == 'GCAt':
            out.append({'a': 'GCAt', 'n': n, 'point': e['point'], 'k': e.get('k', ''), 'c': int(e.get('c', -1)),
                        'off': int(e.get('off', -1))})
        elif a == 'Cancel':
            out.append({'a': 'Cancel', 'n': n, 'src': int(e.get('src', -1)), 'dst': int(e.get('dst', -1))})
        elif a == 'GC':
            if e.get('res') != 'ok' and 'rb' not in e:
                out.append({'a': 'GCRefused', 'n': n, 'begin': e['begin'], 'end': e['end'], 'old': e.get('old') or {'_': True},
                            'agesure': bool(e.get('agesure', True))})
                continue
            frame = [{'c': int(c), 'before': v[0], 'after': v[1], 'same': bool(v[2])}
                     for c, v in sorted((e.get('frame') or {}).items(), key=lambda kv: int(kv[0]))]
            # client writes between GCStart and this event (C18 speaks of passes without concurrent writes)
            conc_writes = False
            cancelled = False       # C18 speaks of completed passes: a cancelled pass is not scanned for stale records
            for x in reversed(out):
                if x['a'] == 'GCStart':
                    break
                if x['a'] in ('Set', 'Incr'):
                    conc_writes = True
                if x['a'] == 'Cancel' and x['src'] >= 0:
                    cancelled = True
            g = {'a': 'GC', 'n': n, 'res': e.get('res', 'err'), 'rb': e.get('rb', -1), 're': e.get('re', -1),
                 'released': int(e.get('released', 0)), 'frame': frame, 'created': e.get('created') or [],
                 'head': e.get('head', -1), 'second': False, 'concurrent': conc_writes, 'st': _st(e)}
            out.append(g)
            gced = True

            def scan_ev(scan, second):
                files = [{'c': int(c), 'recs': [{'k': x[0], 'ver': x[1], 'val': x[2], 'off': x[3], 'nblk': x[4]} for x in l]}
                         for c, l in sorted(scan.items(), key=lambda kv: int(kv[0]))]
                return {'a': 'Scan', 'n': n, 'rb': g['rb'], 're': g['re'], 'files': files, 'second': second,
                        'concurrent': conc_writes or cancelled}
            if 'scan' in e:
                out.append(scan_ev(e['scan'], False))
            if 'reads' in e:
                out.append({'a': 'ReadAll', 'n': n, 'reads': {k: _read(x) for k, x in e['reads'].items()},
                            'afteropen': reopened, 'aftergc': True})
            if 'released2' in e:
                out.append({'a': 'GCStart', 'n': n, 'begin': g['rb'], 'end': g['re'], 'merge': False, 'rb': g['rb'], 're': g['re'],
                            'old': {'_': True}, 'agesure': True, 'second': True})
                out.append(dict(g, released=int(e['released2']), second=True, frame=[], created=[]))
                out.append(scan_ev(e['scan2'], True))
        elif a == 'ReadAll':
            out.append({'a': 'ReadAll', 'n': n, 'reads': {k: _read(g) for k, g in e['reads'].items()},
                        'afteropen': reopened, 'aftergc': gced})
        elif a == 'RecoveredHere':
            continue
        elif a == 'Recovered':
            reads = e.get('reads') or {}
            out.append({'a': 'Recovered', 'n': n, 'started': bool(e.get('started')),
                        'refusal': (e.get('fatal') or e.get('err') or ''), 'childdied': bool(e.get('childdied')),
                        'reads': {k: _read(g) for k, g in reads.items()} or {'_': _read({})},
                        'durable': [{'k': d[0], 'ver': d[1], 'val': d[2]} for d in e.get('durable', [])],
                        'nrecs': int(e.get('nrecs', 0)), 'kind': e.get('kind', ''), 'phase': e.get('phase', ''),
                        'torn': int(e.get('torn', 0)), 'inside': bool(e.get('inside')), 'unaligned': bool(e.get('unaligned')),
                        'ingc': bool(e.get('ingc')), 'hintahead': e.get('hintahead') or [], 'op': int(e.get('op', -1))})
        elif a == 'Counters':
            out.append({'a': 'Counters', 'n': n, 'd': [int(x) for x in e.get('d') or []]})
        elif a == 'End':
            out.append({'a': 'End', 'n': n})
        else:
            out.append({'a': a, 'n': n})
    # the logged scalar state of an operation executed while a GC pass is parked is compared (at the next event) with a
    # specification state in which the pass has moved on: not comparable, dropped
    ingc = False
    for x in out:
        if x['a'] == 'GCStart':
            ingc = True
        elif x['a'] == 'GC':
            ingc = False
        elif ingc and 'st' in x:
            x['st'] = dict(NOST)
    return out


def normalize_conc(events):
    """level-1 events of a free-running scenario for Trace_Conc.tla (pure reformatting)"""
    out = []
    for e in events:
        if e.get('l') != 1:
            continue
        a, n = e['a'], e['n']
        if a == 'Reset':
            out.append({'a': 'Reset', 'n': n, 'sid': e['sid'], 'keys': e['conf']['keys']})
        elif a == 'Set':
            out.append({'a': 'Set', 'n': n, 'k': e['k'], 'val': e['val'], 'rev': e['rev'], 'res': e['res'],
                        'ver': int(e.get('ver', 0) or 0)})
        elif a == 'Inv':
            out.append({'a': 'Inv', 'n': n, 'p': e['p'], 'op': e['op'], 'k': e['k'], 'val': int(e.get('val', 0))})
        elif a == 'Res':
            out.append({'a': 'Res', 'n': n, 'p': e['p'], 'op': e['op'], 'k': e['k'], 'val': int(e.get('val', 0) or 0),
                        'ver': int(e.get('ver', 0) or 0), 'ok': bool(e.get('ok')), 'res': e.get('res', '')})
        elif a == 'FreeDone':
            out.append({'a': 'FreeDone', 'n': n, 'reads': {k: _read(g) for k, g in e['reads'].items()}})
        else:
            out.append({'a': a, 'n': n})
    return out


def normalize_lock(events):
    """micro events (hook points) of the write path and the flush path for Trace_Lock.tla"""
    keep = {'w.lock', 'w.readold', 'w.append', 'tree.set', 'hint.set', 'w.unlock', 'f.lock', 'f.snap', 'f.written',
            'f.detach', 'f.unlock'}
    out = []
    for e in events:
        a = e.get('a')
        if a == 'Reset':
            out.append({'a': 'Reset', 'n': e['n'], 'sid': e['sid'], 'keys': e['conf']['keys']})
        elif a in keep and e.get('l') == 2:
            out.append({'a': a, 'n': e['n'], 'p': e.get('p') or 'main', 'gc': bool(e.get('gc'))})
    return out


def tlc_validate_conc(trace_events, rundir, timeout=1800, module='Trace_Conc'):
    os.makedirs(rundir, exist_ok=True)
    with open(os.path.join(rundir, 'trace.ndjson'), 'w') as f:
        for e in trace_events:
            f.write(json.dumps(e) + '\n')
    keys, procs = set(), set()
    for e in trace_events:
        if e['a'] == 'Reset':
            keys.update(e['keys'])
        if e.get('p'):
            procs.add(e['p'])
    q = lambda S: ', '.join('"%s"' % x for x in sorted(S))
    cfgtext = open(os.path.join(SPEC, module + '.cfg')).read().replace('%KEYS%', q(keys)).replace('%PROCS%', q(procs or {'c1'}))
    r = tlc_run(module, cfgtext, rundir, workers=1, timeout=timeout)
    out = r['out']
    res = {'bad': [], 'drift': [], 'lead': [], 'consumed': 0, 'total': len(trace_events), 'accepted': False, 'out': out,
           'wall': r['wall'], 'states': r['distinct']}
    m = re.findall(r'<<"VERIF-RESULT", "(.*)">>', out)
    if m:
        js = m[-1].encode('utf8').decode('unicode_escape') if '\\' in m[-1] else m[-1]
        try:
            d = json.loads(js)
            res['bad'] = [tuple(x) for x in d.get('bad', [])]
            res['consumed'] = d.get('consumed', 0)
        except Exception as ex:
            res['parse_error'] = str(ex)
    res['accepted'] = res['consumed'] == len(trace_events) and r['rc'] == 0 and not r['error'] and 'parse_error' not in res
    if not res['accepted']:
        res['tlc_error'] = r['error'] or ('rc=%s' % r['rc'])
    return res


# ----------------------------------------------------------------------------- TLC
TLC_JAR = '/opt/veriftools/tla/tla2tools.jar'


def _tlc_cmd(extra_java=()):
    cp = TLC_JAR
    cm = glob.glob('/opt/veriftools/tla/CommunityModules*.jar')
    if cm:
        cp += ':' + ':'.join(cm)
    return ['java', '-XX:+UseParallelGC', '-Xss512m', *extra_java, '-cp', cp, 'tlc2.TLC']


def tlc_run(module, cfg, rundir, workers=NCPU, timeout=1800, extra=(), java=()):
    """Run TLC on spec/<module>.tla with config <cfg> (a file name in spec/ or literal text) inside
    rundir (a scratch copy of spec/).  Returns dict(out, rc, states, distinct, depth, violated, wall)."""
    os.makedirs(rundir, exist_ok=True)
    for f in os.listdir(SPEC):
        if f.endswith('.tla') or f.endswith('.cfg'):
            shutil.copy(os.path.join(SPEC, f), rundir)
    cfgname = cfg
    if '\n' in cfg:
        cfgname = '_gen_%s.cfg' % hashlib.md5(cfg.encode()).hexdigest()[:8]
        open(os.path.join(rundir, cfgname), 'w').write(cfg)
    meta = os.path.join(rundir, 'meta-%d' % os.getpid())
    cmd = ['tlc', '-workers', str(workers), '-metadir', meta, '-config', cfgname, *extra, module + '.tla']
    t0 = time.time()
    # many JVMs run side by side (16 shards, several checks): keep each one's GC threads few
    jopts = ['-Djava.io.tmpdir=' + rundir, '-Xss512m', '-XX:ParallelGCThreads=%d' % (2 if workers == 1 else 4)]
    if workers == 1:
        jopts.append('-XX:TieredStopAtLevel=1')
    jopts += list(java)
    outf = os.path.join(rundir, 'tlc-%d-%d.out' % (os.getpid(), int(t0 * 1000) % 100000))
    with open(outf, 'w') as fo:
        p = subprocess.Popen(cmd, cwd=rundir, stdout=fo, stderr=subprocess.STDOUT, start_new_session=True,
                             env=dict(os.environ, JAVA_TOOL_OPTIONS=' '.join(jopts)))
        try:
            rc = p.wait(timeout=timeout)
        except subprocess.TimeoutExpired:
            rc = -9
            try:      # only THIS run's process group (other checks may be running TLC too)
                os.killpg(os.getpgid(p.pid), 9)
            except Exception:
                p.kill()
            p.wait()
    out = open(outf, errors='replace').read()
    wall = time.time() - t0
    shutil.rmtree(meta, ignore_errors=True)
    res = {'out': out, 'rc': rc, 'wall': wall, 'states': 0, 'distinct': 0, 'depth': 0, 'violated': None,
           'timeout': rc == -9, 'error': None}
    m = re.findall(r'(\d[\d,]*) states generated, (\d[\d,]*) distinct states found', out)
    if m:
        res['states'] = int(m[-1][0].replace(',', ''))
        res['distinct'] = int(m[-1][1].replace(',', ''))
    m = re.search(r'depth of the complete state graph search is (\d+)', out)
    if m:
        res['depth'] = int(m.group(1))
    m = re.search(r'Invariant (\w+) is violated', out)
    if m:
        res['violated'] = m.group(1)
    m = re.search(r'(Action property|Temporal properties?) (\w+)? ?(is|were) violated', out)
    if m and not res['violated']:
        res['violated'] = m.group(2) or 'temporal'
    if 'Error:' in out and not res['violated']:
        em = re.search(r'Error: (.*)', out)
        res['error'] = em.group(1) if em else 'error'
    return res


def tlc_validate(trace_events, rundir, module='Trace_Bucket', cfg='Trace_Bucket.cfg', timeout=1800, maxchunk=4):
    """Validate a concatenated level-1 trace. Returns dict(bad, drift, consumed, total, accepted, out)."""
    os.makedirs(rundir, exist_ok=True)
    with open(os.path.join(rundir, 'trace.ndjson'), 'w') as f:
        for e in trace_events:
            f.write(json.dumps(e) + '\n')
    keys, hids = set(), set()
    for e in trace_events:
        if e['a'] == 'Reset':
            keys.update(e['conf']['keys'])
            hids.update(e['conf']['hashOf'].values())
    hids.update('h_' + k for k in keys)
    mc = 3
    for e in trace_events:
        for f in ('c', 'head', 're'):
            v = e.get(f)
            if isinstance(v, int) and v > mc:
                mc = v
    maxchunk = max(maxchunk, mc + 3)
    q = lambda S: ', '.join('"%s"' % x for x in sorted(S))
    cfgtext = open(os.path.join(SPEC, cfg)).read().replace('%KEYS%', q(keys)).replace('%HASHIDS%', q(hids)) \
        .replace('%MAXCHUNK%', str(maxchunk))
    if '\n' not in cfgtext:
        cfgtext += '\n'
    r = tlc_run(module, cfgtext, rundir, workers=1, timeout=timeout)
    out = r['out']
    res = {'bad': [], 'drift': [], 'lead': [], 'consumed': 0, 'total': len(trace_events), 'accepted': False, 'out': out,
           'wall': r['wall'], 'states': r['distinct']}
    m = re.findall(r'<<"VERIF-RESULT", "(.*)">>', out)
    if m:
        js = m[-1].encode('utf8').decode('unicode_escape') if '\\' in m[-1] else m[-1]
        try:
            d = json.loads(js)
            res['bad'] = [tuple(x[:3]) for x in d.get('bad', [])]
            res['bad_detail'] = [tuple(x) for x in d.get('bad', [])]
            res['drift'] = [tuple(x) for x in d.get('drift', [])]
            res['lead'] = [tuple(x) for x in d.get('lead', [])]
            res['consumed'] = d.get('consumed', 0)
        except Exception as ex:
            res['parse_error'] = str(ex) + ' :: ' + js[:300]
    res['accepted'] = (res['consumed'] == len(trace_events)) and r['rc'] == 0 and not r['error'] and 'parse_error' not in res
    if not res['accepted']:
        hw = re.search(r'TLCGet\(1\)', out)
        res['tlc_error'] = r['error'] or ('rc=%s' % r['rc'])
    return res


# ----------------------------------------------------------------------------- evidence / verdict
def write_evidence(pid, tier, seed, level, coverage, wall, violations=0, assumptions=()):
    os.makedirs(os.path.join(VERIF, 'evidence'), exist_ok=True)
    ev = {'property_id': pid, 'tier': tier, 'seed': int(seed), 'level': level, 'coverage': coverage,
          'assumptions': list(assumptions), 'wall_s': round(wall, 2), 'violations': int(violations)}
    path = os.path.join(VERIF, 'evidence', pid + '.json')
    tmp = path + '.tmp'
    json.dump(ev, open(tmp, 'w'), indent=1, sort_keys=True)
    os.replace(tmp, path)
    return path


def load_known():
    p = os.path.join(VERIF, 'known_findings.json')
    if not os.path.exists(p):
        return {'known': [], 'fixed': []}
    return json.load(open(p))
