"""Seeded random generator of sequential scenarios (families seq / restart / gc / coll).
Complements the TLC-generated behaviours (Gen_Seq): long histories, real sizes."""
import random

KEYPOOL = ['a', 'b', 'c', 'd', 'e', 'f', 'g']


def gen_seq(rng, sid, focus='c01', nops=None, conf=None):
    nkeys = rng.choice([2, 3, 3, 4, 5])
    keys = KEYPOOL[:nkeys]
    c = {
        'filemax_blk': rng.choice([2, 3, 4, 6, 9]),
        'splitcap': rng.choice([1, 2, 3, 5, 100]),
        'check_vhash': rng.random() < 0.3,
        'rotflush': rng.choice(['auto', 'auto', 'manual']),
        'dump_eager': False,
        'bodymax_blk': rng.choice([1, 2]),
        'micro': False,
    }
    lay = rng.choice([(16, 15), (16, 15), (1, 0), (256, 0xab), (16, 3)])
    c['buckets'], c['bucket'] = lay
    c['height'] = rng.choice([h for h in (2, 3, 4, 5) if h + {1: 0, 16: 1, 256: 2}[lay[0]] <= 8][:3])
    if focus == 'c13':
        g = rng.choice([['b', 'c'], ['a', 'b', 'c'], ['b', 'c']])
        nkeys = max(nkeys, 3)
        keys = KEYPOOL[:nkeys]
        c['collide'] = [g]
    if conf:
        c.update(conf)
    n = nops or rng.choice([6, 10, 16, 24, 40])
    ops = []
    up = True
    pending_rot = []  # chunks whose rot-flush we may release manually (approximate; harmless if wrong)
    restarts = focus in ('c02', 'c13', 'c03', 'c18', 'c17') or rng.random() < 0.3
    gcs = focus in ('c03', 'c18', 'c17') or (focus == 'c13' and rng.random() < 0.5)
    for i in range(n):
        x = rng.random()
        k = rng.choice(keys)
        if not up:
            rm = []
            y = rng.random()
            if y < 0.3:
                rm = ['*.idx.hash']
            elif y < 0.5:
                rm = ['*.idx.hash', '*.idx.s']
            elif y < 0.7:
                rm = ['*.idx.s']
            elif y < 0.85:
                rm = ['*.idx.hash', '00%d.*.idx.s' % rng.randrange(0, 4)]
            ops.append({'op': 'open', 'rm': rm})
            up = True
            continue
        if x < 0.42:
            v = rng.randrange(1, 9)
            nblk = rng.choice([1, 1, 1, 2, 1])
            nblk = min(nblk, c['bodymax_blk'], c['filemax_blk'])
            rev = 0
            if rng.random() < 0.2:
                rev = rng.randrange(1, 12)
            op = {'op': 'set', 'k': k, 'v': v, 'nblk': nblk, 'rev': rev}
            if rng.random() < 0.15:
                op['flag'] = rng.choice([1, 2, 0x20, 0x300])
            ops.append(op)
        elif x < 0.55:
            ops.append({'op': 'del', 'k': k})
        elif x < 0.70:
            ops.append({'op': 'get', 'k': k})
        elif x < 0.78:
            if rng.random() < 0.5:
                ops.append({'op': 'set', 'k': k, 'v': 100000 + rng.randrange(0, 50), 'flag': 516})
            ops.append({'op': 'incr', 'k': k, 'd': rng.randrange(1, 5)})
        elif x < 0.86:
            ops.append({'op': 'flush'})
        elif x < 0.90 and c['rotflush'] == 'manual':
            ops.append({'op': 'rotflush', 'c': rng.randrange(0, 4)})
        elif x < 0.93:
            ops.append({'op': 'readall'})
        elif x < 0.97 and restarts:
            ops.append({'op': 'close'})
            up = False
        elif gcs:
            ops.append({'op': 'flush'})
            ops.append({'op': 'gc', 'begin': rng.choice([0, 0, 1, 2, -1]), 'end': rng.choice([-1, -1, 0, 1, 2, 3]),
                        'merge': False, 'twice': rng.random() < 0.3})
        else:
            ops.append({'op': 'get', 'k': k})
    if not up:
        ops.append({'op': 'open', 'rm': []})
    return {'id': sid, 'family': 'seq', 'conf': c, 'ops': ops}


def gen_batch(seed, count, focus, prefix):
    rng = random.Random(seed)
    return [gen_seq(rng, '%s-%d-%04d' % (prefix, seed, i), focus) for i in range(count)]
