"""Seeded random generator of sequential scenarios (families seq / restart / gc / coll).
Complements the TLC-generated behaviours (Gen_Seq): long histories, real sizes."""
import random

KEYPOOL = ['a', 'b', 'c', 'd', 'e', 'f', 'g']


def rval(rng):
    """value id; 16 gives a record whose unpadded size is an exact multiple of 256 (the harness sizes a value as
    nblk*256 - 24 - len(key) - v%16), the boundary case of every padding computation"""
    return rng.choice([1, 2, 3, 4, 5, 6, 7, 8, 16, 16, 16])


def gen_seq(rng, sid, focus='c01', nops=None, conf=None):
    nkeys = rng.choice([2, 3, 3, 4, 5])
    keys = KEYPOOL[:nkeys]
    c = {
        'filemax_blk': rng.choice([2, 3, 4, 6, 9]),
        'splitcap': rng.choice([1, 2, 3, 5, 100]),
        'check_vhash': rng.random() < 0.3,
        'rotflush': rng.choice(['auto', 'auto', 'manual']),
        'dump_eager': rng.random() < 0.2,
        'bodymax_blk': rng.choice([1, 2]),
        'micro': False,
    }
    lay = rng.choice([(16, 15), (16, 15), (1, 0), (256, 0xab), (16, 3)])
    c['buckets'], c['bucket'] = lay
    c['height'] = rng.choice([h for h in (2, 3, 4, 5) if h + {1: 0, 16: 1, 256: 2}[lay[0]] <= 8][:3])
    if focus == 'c13':
        g = rng.choice([['b', 'c'], ['a', 'b', 'c'], ['b', 'c']])
        nkeys = max(nkeys, 3)
        keys = KEYPOOL[:nkeys]
        c['collide'] = [g]
        c['hint_interval'] = rng.choice([0, 0, 300, 320])
    if conf:
        c.update(conf)
    n = nops or rng.choice([6, 10, 16, 24, 40])
    ops = []
    up = True
    pending_rot = []  # chunks whose rot-flush we may release manually (approximate; harmless if wrong)
    restarts = focus in ('c02', 'c13', 'c03', 'c18', 'c17') or rng.random() < 0.3
    gcs = focus in ('c03', 'c18', 'c17') or (focus == 'c13' and rng.random() < 0.5)
    for i in range(n):
        x = rng.random()
        k = rng.choice(keys)
        if not up:
            rm = []
            y = rng.random()
            if y < 0.15:
                rm = ['*.idx.hash']
            elif y < 0.25:
                rm = ['*.idx.hash', '*.idx.s']
            elif y < 0.32:
                rm = ['*.idx.s']
            elif y < 0.40:
                rm = ['*.idx.hash', '00%d.*.idx.s' % rng.randrange(0, 4)]
            elif y < 0.50:
                rm = ['@lastsplits']
            elif y < 0.85:
                rm = ['@subset:%d' % rng.randrange(1, 1 << 30)]
            ops.append({'op': 'open', 'rm': rm})
            up = True
            continue
        if x < 0.42:
            v = rval(rng)
            nblk = rng.choice([1, 1, 1, 2, 1])
            nblk = min(nblk, c['bodymax_blk'], c['filemax_blk'])
            rev = 0
            if rng.random() < 0.2:
                rev = rng.randrange(1, 12)
            op = {'op': 'set', 'k': k, 'v': v, 'nblk': nblk, 'rev': rev}
            if rng.random() < 0.08 and not c.get('collide'):
                # a compressible value, small (Go-allocated compression buffer) or large (C-allocated: > ~3.7 KB raw)
                op['comp'] = rng.choice([600, 1500, 4200, 9000])
            if rng.random() < 0.15:
                op['flag'] = rng.choice([1, 2, 0x20, 0x300])
            ops.append(op)
        elif x < 0.55:
            ops.append({'op': 'del', 'k': k})
        elif x < 0.70:
            ops.append({'op': 'get', 'k': k})
        elif x < 0.78:
            if rng.random() < 0.5:
                ops.append({'op': 'set', 'k': k, 'v': 100000 + rng.randrange(0, 50), 'flag': 516})
            ops.append({'op': 'incr', 'k': k, 'd': rng.randrange(1, 5)})
        elif x < 0.86:
            ops.append({'op': 'flush'})
        elif x < 0.90 and c['rotflush'] == 'manual':
            ops.append({'op': 'rotflush', 'c': rng.randrange(0, 4)})
        elif x < 0.93:
            ops.append({'op': 'readall'})
        elif x < 0.97 and restarts:
            ops.append({'op': 'close'})
            up = False
        elif gcs:
            ops.append({'op': 'flush'})
            ops.append({'op': 'gc', 'begin': rng.choice([0, 0, 1, 2, -1]), 'end': rng.choice([-1, -1, 0, 1, 2, 3]),
                        'merge': bool(c.get('dump_eager')) and rng.random() < 0.5, 'twice': rng.random() < 0.3})
        else:
            ops.append({'op': 'get', 'k': k})
    if not up:
        ops.append({'op': 'open', 'rm': []})
    return {'id': sid, 'family': 'seq', 'conf': c, 'ops': ops}


def gen_gc(rng, sid, focus='c03'):
    """GC-centric multi-phase history: writes/deletes, restarts (tree rebuilt or not) that leave partially
    filled files behind, a GC pass over a chosen range, then a restart with EVERY index file removed so that
    the data files alone decide what each key reads (resurrection / loss shows here)."""
    nkeys = rng.choice([2, 3, 3, 4])
    keys = KEYPOOL[:nkeys]
    fm = rng.choice([2, 3, 3, 4, 6])
    c = {'filemax_blk': fm, 'splitcap': rng.choice([1, 2, 3, 100]), 'check_vhash': False, 'rotflush': 'auto',
         'dump_eager': rng.random() < 0.2, 'bodymax_blk': rng.choice([1, 1, 2]) if fm > 2 else 1, 'micro': False,
         'buckets': 16, 'bucket': rng.choice([0, 7, 15]), 'height': rng.choice([2, 3])}
    ops = []

    def writes(n):
        for _ in range(n):
            k = rng.choice(keys)
            x = rng.random()
            if x < 0.55:
                ops.append({'op': 'set', 'k': k, 'v': rval(rng), 'nblk': min(rng.choice([1, 1, 2]), c['bodymax_blk'], fm)})
            elif x < 0.9:
                ops.append({'op': 'del', 'k': k})
            else:
                ops.append({'op': 'incr', 'k': k, 'd': 1})
    phases = rng.choice([2, 3, 3, 4])
    for ph in range(phases):
        writes(rng.choice([1, 2, 3, 4, 6]))
        if rng.random() < 0.7:
            ops.append({'op': 'close'})
            y = rng.random()
            rm = ['*.idx.hash'] if y < 0.5 else (['*.idx.hash', '*.idx.s'] if y < 0.7 else [])
            ops.append({'op': 'open', 'rm': rm})
    writes(rng.choice([1, 2, 3]))
    ops.append({'op': 'flush'})
    ngc = rng.choice([1, 1, 2])
    # hint merging before the pass (GC "merge on"): BeforeBucket sleeps SecsBeforeDump+1 seconds, so these scenarios run
    # with eager dumping (SecsBeforeDump = -1)
    merge = rng.random() < 0.35
    if merge:
        c['dump_eager'] = True
    for g in range(ngc):
        ops.append({'op': 'gc', 'begin': rng.choice([0, 1, 1, 2, 3, -1]), 'end': rng.choice([-1, -1, 1, 2, 3, 4]),
                    'merge': merge, 'twice': rng.random() < 0.3})
        if rng.random() < 0.4:
            writes(rng.choice([1, 2]))
            ops.append({'op': 'flush'})
    ops.append({'op': 'close'})
    ops.append({'op': 'open', 'rm': rng.choice([['*.idx.*'], ['*.idx.*'], ['*.idx.hash'], ['@subset:%d' % rng.randrange(1, 1 << 30)]])})
    ops.append({'op': 'readall'})
    return {'id': sid, 'family': 'seq', 'conf': c, 'ops': ops}


def gc_templates():
    """Exhaustive enumeration of a small GC scenario grammar (about 2600 scenarios): phase 1 / restart / phase 2 /
    restart / phase 3 / GC(range) / restart with index files removed / read everything.  Restarts leave partially
    filled files behind (destination below the range), rebuilt trees forget tombstones (reservation rule),
    the final rebuild from hints or data exposes resurrection and loss."""
    P1 = [[('set', 'k')], [('set', 'k'), ('set', 'p')], [('set', 'p'), ('set', 'k')]]
    R = [None, [], ['*.idx.hash'], ['*.idx.*']]
    P2 = [[('del', 'k')], [('set', 'k')], [('del', 'k'), ('set', 'q')], [('set', 'q'), ('del', 'k')], [('del', 'k'), ('set', 'k')]]
    P3 = [[('set', 'y')], [('set', 'y'), ('set', 'z')], [('del', 'k'), ('set', 'y')]]
    GCS = [(0, -1), (1, -1), (1, 1), (2, -1), (0, 0)]
    FIN = [['*.idx.hash'], ['*.idx.*']]
    out = []
    n = 0
    for p1 in P1:
        for r1 in R:
            for p2 in P2:
                for r2 in R[1:]:
                    for p3 in P3:
                        for g in GCS:
                            for fin in FIN:
                                for fm in (3, 4):
                                    ops = []

                                    def add(ph):
                                        for o, k in ph:
                                            ops.append({'op': 'set', 'k': k, 'v': len(ops) % 7 + 1, 'nblk': 1} if o == 'set' else {'op': 'del', 'k': k})
                                    add(p1)
                                    if r1 is not None:
                                        ops += [{'op': 'close'}, {'op': 'open', 'rm': r1}]
                                    add(p2)
                                    ops += [{'op': 'close'}, {'op': 'open', 'rm': r2}]
                                    add(p3)
                                    ops += [{'op': 'flush'}, {'op': 'gc', 'begin': g[0], 'end': g[1], 'merge': False},
                                            {'op': 'close'}, {'op': 'open', 'rm': fin}, {'op': 'readall'}]
                                    out.append({'id': 'gct-%05d' % n, 'family': 'seq',
                                                'conf': {'filemax_blk': fm, 'splitcap': 3, 'rotflush': 'auto', 'bodymax_blk': 1,
                                                         'buckets': 16, 'bucket': 15, 'height': 3, 'micro': False},
                                                'ops': ops})
                                    n += 1
    return out


def gc_twopass_templates():
    """Two passes in ONE process lifetime over the same first file: pass 1 rewrites a short first file (left short by a
    restart) in place and makes it GROW with the live records of the next file(s); then keys living in it are
    overwritten / deleted and pass 2 rewrites it in place again and must shrink it.  In-memory file bookkeeping
    (size, write head) that went stale in pass 1 shows as superseded records surviving pass 2 (C18), a wrong frame
    (C17) or wrong reads after a rebuild (C03)."""
    A = [['k'], ['k', 'p']]
    B = [['k', 'q', 'r'], ['q', 'r', 's'], ['k', 'q', 'r', 's'], ['q', 'k', 'r']]
    OVER = [[('set', 'q')], [('set', 'r')], [('set', 'q'), ('set', 'r')], [('del', 'q'), ('set', 'r')], [('set', 'k')], [('set', 'r'), ('set', 's')]]
    G1 = [(0, 1), (0, -1)]
    G2 = [(0, 0), (0, -1), (0, 1)]
    out = []
    n = 0
    for a in A:
        for b in B:
            for ov in OVER:
                for g1 in G1:
                    for g2 in G2:
                        for fm in (4, 6):
                            ops = []
                            v = [0]

                            def st(k):
                                v[0] += 1
                                return {'op': 'set', 'k': k, 'v': v[0] % 7 + 1, 'nblk': 1}
                            ops += [st(k) for k in a]
                            ops += [{'op': 'close'}, {'op': 'open', 'rm': []}]
                            ops += [st(k) for k in b]
                            ops += [{'op': 'close'}, {'op': 'open', 'rm': []}]
                            ops += [st('y'), {'op': 'flush'}, {'op': 'gc', 'begin': g1[0], 'end': g1[1], 'merge': False}]
                            ops += [st(k) if o == 'set' else {'op': 'del', 'k': k} for o, k in ov]
                            # fill the head so that it rotates and the overwritten records become collectable history
                            ops += [st('z') for _ in range(fm)]
                            ops += [{'op': 'flush'}, {'op': 'gc', 'begin': g2[0], 'end': g2[1], 'merge': False, 'twice': True},
                                    {'op': 'close'}, {'op': 'open', 'rm': ['*.idx.*']}, {'op': 'readall'}]
                            out.append({'id': 'gc2p-%04d' % n, 'family': 'seq',
                                        'conf': {'filemax_blk': fm, 'splitcap': 3, 'rotflush': 'auto', 'bodymax_blk': 1,
                                                 'buckets': 16, 'bucket': 15, 'height': 3, 'micro': False},
                                        'ops': ops})
                            n += 1
    return out


def gc_layout_templates():
    """Every layout of three files before the head - each FULL or left SHORT by a restart, with or without garbage -
    and every GC range over them: the destination choice (nearest earlier file that is not full, else the slot after
    it, else in place) meets a full and a short predecessor in both orders, and the live data of the range is larger
    than the room of any single earlier file (so a wrong choice spills into a second file outside the range)."""
    import itertools
    fm = 3
    out = []
    n = 0
    for fills in itertools.product('SF', repeat=3):
        for garbage in (False, True):
            for g in ((1, 1), (1, 2), (2, 2), (2, -1), (1, -1), (0, -1), (0, 1)):
                ops = []
                v = [0]
                fresh = [0]

                def st(k):
                    v[0] += 1
                    return {'op': 'set', 'k': k, 'v': v[0] % 7 + 1, 'nblk': 1}

                def newkey():
                    fresh[0] += 1
                    return 'k%d' % fresh[0]
                prev = []
                for fi, fill in enumerate(fills):
                    cnt = fm if fill == 'F' else 1
                    mine = []
                    for i in range(cnt):
                        if garbage and i == 0 and prev:
                            k = prev[0]              # supersedes a record of the previous file
                        else:
                            k = newkey()
                        mine.append(k)
                        ops.append(st(k))
                    prev = mine
                    if fill == 'S':
                        ops += [{'op': 'close'}, {'op': 'open', 'rm': []}]
                    # (a full file rotates by itself with the next write)
                ops += [st(newkey()), {'op': 'flush'},
                        {'op': 'gc', 'begin': g[0], 'end': g[1], 'merge': False, 'twice': True},
                        {'op': 'readall'}, {'op': 'close'}, {'op': 'open', 'rm': ['*.idx.*']}, {'op': 'readall'}]
                out.append({'id': 'gcl-%03d' % n, 'family': 'seq',
                            'conf': {'filemax_blk': fm, 'splitcap': 3, 'rotflush': 'auto', 'bodymax_blk': 1,
                                     'buckets': 16, 'bucket': 15, 'height': 3, 'micro': False},
                            'ops': ops})
                n += 1
    return out


def coll_templates():
    """Small exhaustive grammar over a group of three keys forced onto one hash: two of them written (either order), the
    collision detected by a read or not, one of them deleted or not, the third key joining the group or not, then a
    clean restart (tree dump kept / removed / every index file removed) or a GC pass followed by a restart, and all keys
    read.  Covers: a key joining a DETECTED group, a tombstone replayed after / before its siblings (hint files are
    ordered by (hash, key)), detection by read vs by hint merge."""
    import itertools
    out = []
    n = 0
    for x, y in itertools.permutations('abc', 2):
        z = [k for k in 'abc' if k not in (x, y)][0]
        for detect in (None, x, y):
            for dele in (None, x, y):
                for third in (False, True):
                    for rm in ([], ['*.idx.hash'], ['*.idx.*']):
                        for gc in (False, True):
                            ops = [{'op': 'set', 'k': x, 'v': 1, 'nblk': 1}, {'op': 'set', 'k': y, 'v': 2, 'nblk': 1}]
                            if detect:
                                ops.append({'op': 'get', 'k': detect})
                            if dele:
                                ops.append({'op': 'del', 'k': dele})
                            if third:
                                ops += [{'op': 'set', 'k': z, 'v': 3, 'nblk': 1}, {'op': 'get', 'k': z}]
                            ops.append({'op': 'set', 'k': 'p', 'v': 4, 'nblk': 1})        # an ordinary key beside the group
                            if gc:
                                ops += [{'op': 'set', 'k': 'p', 'v': 5, 'nblk': 1}, {'op': 'set', 'k': 'p', 'v': 6, 'nblk': 1},
                                        {'op': 'flush'}, {'op': 'gc', 'begin': 0, 'end': -1, 'merge': False}, {'op': 'readall'}]
                            ops += [{'op': 'close'}, {'op': 'open', 'rm': rm}, {'op': 'readall'}]
                            out.append({'id': 'colt-%04d' % n, 'family': 'seq',
                                        # (without GC everything stays in ONE data / hint file: the replay order inside a hint file
                                        #  is (hash, key), so a tombstone of a later-sorting key is replayed after its siblings)
                                        'conf': {'filemax_blk': 3 if gc else 9, 'splitcap': 9, 'rotflush': 'auto', 'bodymax_blk': 1, 'check_vhash': False,
                                                 'buckets': 16, 'bucket': 15, 'height': 3, 'micro': False, 'collide': [['a', 'b', 'c']],
                                                 # every other history with a hint-file index entry per item (the group straddles entries)
                                                 'hint_interval': 300 if (n // 2) % 2 else 0},
                                        'ops': ops})
                            n += 1
    return out


def gen_batch(seed, count, focus, prefix):
    rng = random.Random(seed)
    out = []
    for i in range(count):
        sid = '%s-%d-%04d' % (prefix, seed, i)
        if focus in ('c03', 'c18', 'c17') and i % 2 == 0:
            out.append(gen_gc(rng, sid, focus))
        else:
            out.append(gen_seq(rng, sid, focus))
    return out
