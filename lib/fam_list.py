"""Family "list": C08 (Merkle tree listing is an exact, history-independent function of content)
and C15 (keys are routed to exactly one bucket by the top hash digits).

(a) model checking: spec/HTreeList.tla (the tree as the code maintains it - incremental leaf sums, lazy
    inner nodes, dump/load, rebuild - against the pure listing function, all histories of <= N steps) and
    spec/Route.tla (every served subset, every op sequence);
(b) seeded scenario generation (histories with equal final content by construction, populations that
    straddle the 256 / 100-item thresholds, real-hash routing over served patterns);
(c) execution on the real HStore (harness/store/zz_verif_list_test.go) and TLC trace validation
    (spec/Trace_List.tla): every verdict is TLC comparing a recorded execution with the specification.
"""
import json, os, random, re, time, hashlib
import vcommon as V

READY = True
PROPS = {
 'C08': dict(level='model_checking', design='DESIGN.md 6 C08',
   text='HTreeList.tla defines the listing (16-bit leaf sums, lazy *97 fold, upper tree, item/node shape) as a pure '
        'function of the content and, separately, the tree as the code maintains it (incremental setToLeaf/remove, '
        'invalidation along the path, lazy updateNodes, dump/load, rebuild from hints); TLC checks on every history of '
        'a bounded length that what the maintained tree lists equals the function. On the real HStore, families of '
        'histories with equal final content (permutations, redundant overwrites, delete then re-set at an explicit '
        'revision, restart with tree dump vs rebuilt from hints vs rebuilt from data, before/after GC) are executed for '
        'buckets {1,16,256} x heights, thresholdListKey 4 and 256 (populations straddling 256 live keys and 100 items in '
        'one leaf); after each history every prefix 0..16 along every key plus siblings is listed through '
        'HStore.ListDir and TLC compares each listing with the function of the content it tracked from the operations.',
   note='Trusted: TLC, the harness event log, the real key/value hash functions as inputs (C16). `get @prefix` is '
        'exercised as HStore.ListDir with the KeyInfo that gobeansdb.StorageClient.listDir builds (package gobeansdb '
        'cannot be imported from package store). Colliding keys excluded (one slot per hash). Tree height 7 and 8 '
        '(hundreds of MB to GB per tree) only in the thorough tier / not at all for height 8 with restarts. Value hash '
        'and version of tombstone lines are not compared.',
   technique='TLA+ model checking (TLC) + TLC trace validation of real executions'),
 'C15': dict(level='model_checking', design='DESIGN.md 6 C15',
   text='Route.tla (bucket = value of the first depth digits; Set/Get/Incr act on that bucket iff served; upper listing '
        '= aggregate of served roots) is model-checked for depth 0/1/2 over every served subset and all op sequences of '
        'bounded length. On the real HStore with the REAL hash function, keys found by search so that every bucket of '
        'the 16-configuration and a spread of the 256-configuration receive keys are written/read/incremented under '
        'served patterns none/one/some/all; after every operation and a forced flush the sizes of all *.data files per '
        'bucket directory are logged and TLC checks that only the bucket named by the key digits grew (none if '
        'unserved), that unserved keys miss, and that listings above/at/below the bucket level match the function.',
   note='Directory -> bucket mapping is read by the harness from the path names ("", "x", "x/y"), independent of '
        'GetBucketDir. Correctness of the hash digits themselves is C16. Hot route changes (ChangeRoute) not exercised.',
   technique='TLA+ model checking (TLC) + TLC trace validation of real executions'),
}

HEX = '0123456789abcdef'


def digits(h):
    return [HEX.index(c) for c in h]


# ----------------------------------------------------------------------------- normalisation (pure reformatting)
NODE_RE = re.compile(r'^([0-9a-f])/ (\d+) (\d+)$')
ITEM_RE = re.compile(r'^([0-9a-f]{16}) (\d+) (-?\d+)$')


def parse_listing(raw):
    nodes, items, junk = [], [], 0
    for line in raw.split('\n'):
        if line == '':
            continue
        m = NODE_RE.match(line)
        if m:
            nodes.append([HEX.index(m.group(1)), int(m.group(2)), int(m.group(3))])
            continue
        m = ITEM_RE.match(line)
        if m and abs(int(m.group(3))) < 2 ** 31 and int(m.group(2)) < 2 ** 31:
            items.append([digits(m.group(1)), int(m.group(2)), int(m.group(3))])
            continue
        junk += 1
    return nodes, items, junk


def normalize(events):
    out = []
    for e in events:
        if e.get('l') != 1:
            continue
        a, n = e['a'], e['n']
        if a == 'Reset':
            c = e.get('conf') or {}
            out.append({'a': a, 'n': n, 'sid': e['sid'], 'abort': 'abort' in e,
                        'conf': {'depth': c.get('depth', 0), 'height': c.get('height', 2), 'listTh': c.get('listTh', 256),
                                 'bigTh': c.get('bigTh', 256), 'served': sorted(c.get('served') or []),
                                 'checkVH': bool(c.get('checkVH'))}})
        elif a == 'Keys':
            out.append({'a': a, 'n': n, 'keys': {k: digits(h) for k, h in e['keys'].items()}})
        elif a == 'Set':
            out.append({'a': a, 'n': n, 'k': e['k'], 'rev': e['rev'], 'vh': e['vh'], 'num': e.get('num', -1), 'res': e['res']})
        elif a == 'Incr':
            out.append({'a': a, 'n': n, 'k': e['k'], 'd': e['d'], 'res': e['res'], 'expect': e['expect'], 'vh': e['vh']})
        elif a == 'Get':
            out.append({'a': a, 'n': n, 'k': e['k'], 'res': e['res'], 'ver': e.get('ver', 0), 'vh': e.get('vh', 0)})
        elif a == 'Open':
            out.append({'a': a, 'n': n, 'ok': 'err' not in e, 'meta': e.get('meta') or {}})
        elif a == 'List':
            nodes, items, junk = parse_listing(e.get('raw', ''))
            out.append({'a': a, 'n': n, 'p': digits(e['p']), 'res': e.get('res', 'err'), 'nodes': nodes, 'items': items, 'junk': junk})
        elif a == 'Files':
            out.append({'a': a, 'n': n, 'after': e['after'], 'other': len(e.get('other') or []),
                        'sizes': [[int(b), int(s)] for b, s in sorted(e['sizes'].items(), key=lambda kv: int(kv[0]))]})
        elif a == 'Ready':
            out.append({'a': a, 'n': n, 'ready': sorted(int(b) for b in e.get('ready') or [])})
        elif a in ('Panic', 'Fatal'):
            out.append({'a': a, 'n': n, 'op': e.get('op', ''), 'k': e.get('k', '')})
        else:
            out.append({'a': a, 'n': n})
    return out


JAVA = ['-Xss512m', '-XX:ParallelGCThreads=2']


def validate(events, rundir, timeout=1700):
    """TLC over the concatenated trace; returns (bad, consumed_ok, raw result)."""
    os.makedirs(rundir, exist_ok=True)
    with open(os.path.join(rundir, 'trace.ndjson'), 'w') as f:
        for e in events:
            f.write(json.dumps(e) + '\n')
    r = V.tlc_run('Trace_List', 'Trace_List.cfg', rundir, workers=1, timeout=timeout, java=JAVA)
    out = r['out']
    bad, consumed = [], -1
    m = re.findall(r'<<"VERIF-RESULT", "(.*)">>', out)
    if m:
        js = m[-1].encode('utf8').decode('unicode_escape') if '\\' in m[-1] else m[-1]
        d = json.loads(js)
        bad = [tuple(x) for x in d.get('bad', [])]
        consumed = d.get('consumed', -1)
    ok = consumed == len(events) and r['rc'] == 0 and not r['error'] and not r['timeout']
    return bad, ok, r


# ----------------------------------------------------------------------------- scenario generation (seeded)
DEPTH = {1: 0, 16: 1, 256: 2}
RM_KINDS = [[], ['*.idx.hash'], ['*.idx.hash', '*.idx.s'], ['*.idx.s']]


def rhex(rng, n):
    return ''.join(rng.choice(HEX) for _ in range(n))


def pick_layout(rng, maxh):
    buckets = rng.choice([1, 16, 16, 256, 256])
    depth = DEPTH[buckets]
    height = rng.randrange(2, min(8 - depth, maxh) + 1)
    return buckets, depth, height


def small_keys(rng, depth, height, n):
    """n distinct 16-digit hashes sharing prefixes of every length (siblings at each tree level, inside one leaf,
    and keys that differ only in the low digits that the leaf does not store)."""
    base = rhex(rng, 16)
    out = [base]
    tries = 0
    while len(out) < n and tries < 1000:
        tries += 1
        src = rng.choice(out)
        j = rng.choice([rng.randrange(0, 16), rng.randrange(0, 16), rng.randrange(0, depth + height + 1), 15, 8, 7])
        d = rng.choice([c for c in HEX if c != src[j]])
        h = src[:j] + d + (rhex(rng, 15 - j) if rng.random() < 0.6 else src[j + 1:])
        if h not in out:
            out.append(h)
    return out


def key_plan(rng, target):
    junk = lambda: rng.randrange(100, 400)
    if target[0] == 'absent':
        return []
    if target[0] == 'dead':
        return key_plan(rng, ('live', rng.randrange(1, 4), junk())) + [('del',)]
    _, v, x = target
    s = rng.choice(['direct', 'steps', 'redundant', 'below'] + (['delreset'] if v >= 3 else []))
    if s == 'steps':
        return [('set', junk(), 0) for _ in range(v - 1)] + [('set', x, 0)]
    if s == 'redundant':
        return [('set', x, v), ('set', junk(), rng.randrange(1, v + 1))]      # second one: accepted but ignored
    if s == 'below' and v >= 2:
        return [('set', junk(), v - 1), ('set', x, 0)]
    if s == 'delreset':
        return [('set', junk(), 0), ('del',), ('set', x, v)]
    return [('set', x, v)]


def interleave(rng, lists):
    lists = [list(l) for l in lists if l]
    out = []
    while lists:
        i = rng.randrange(len(lists))
        out.append(lists[i].pop(0))
        if not lists[i]:
            lists.pop(i)
    return out


def gen_c08_group(rng, gid, nhist, maxh):
    buckets, depth, height = pick_layout(rng, maxh)
    n = rng.randrange(3, 10)
    hashes = small_keys(rng, depth, height, n)
    names = ['k%d' % i for i in range(len(hashes))]
    keyb = {nm: int(h[:depth], 16) if depth else 0 for nm, h in zip(names, hashes)}
    allb = sorted(set(keyb.values()))
    served = list(allb)
    if len(allb) > 1 and rng.random() < 0.3:     # one key's bucket is not served: its writes must change nothing
        served.remove(rng.choice(allb))
    if buckets > 1 and rng.random() < 0.3:
        x = rng.randrange(buckets)
        if x not in served and x not in allb:
            served.append(x)                     # a served bucket that stays empty
    target = {}
    for nm in names:
        r = rng.random()
        target[nm] = ('live', rng.randrange(1, 6), rng.randrange(1, 60)) if r < 0.7 else (('dead',) if r < 0.9 else ('absent',))
    conf = {'buckets': buckets, 'served': sorted(served), 'height': height, 'threshold': rng.choice([4, 4, 3, 6]),
            'check_vhash': False, 'files': False}
    keys = {nm: {'hash': h} for nm, h in zip(names, hashes)}
    scen = []
    for hi in range(nhist):
        plans = []
        for nm in names:
            plans.append([(nm,) + st for st in key_plan(rng, target[nm])])
        seq = interleave(rng, plans) if hi > 0 else [x for p in plans for x in p]
        ops = []
        for st in seq:
            if st[1] == 'del':
                ops.append({'op': 'del', 'k': st[0]})
            else:
                ops.append({'op': 'set', 'k': st[0], 'v': st[2], 'rev': st[3]})
        # listings in the middle of the history (lazy inner nodes are recomputed, then invalidated again)
        for _ in range(rng.randrange(0, 4)):
            h = rng.choice(hashes)
            ops.insert(rng.randrange(0, len(ops) + 1), {'op': 'list', 'p': h[:rng.randrange(0, min(16, depth + height + 2))]})
        kind = ['plain', 'perm', 'dump', 'rebuild', 'gc', 'rebuild2', 'kill'][hi % 7]
        if kind in ('dump', 'rebuild'):
            rm = [] if kind == 'dump' else rng.choice(RM_KINDS[1:3])
            pos = len(ops) if rng.random() < 0.5 else rng.randrange(0, len(ops) + 1)
            ops[pos:pos] = [{'op': 'close'}, {'op': 'open', 'rm': rm}]
            if rng.random() < 0.3:
                pos = rng.randrange(0, len(ops) + 1)
                if not any(o['op'] in ('close', 'open') for o in ops[max(0, pos - 1):pos + 1]):
                    ops[pos:pos] = [{'op': 'close'}, {'op': 'open', 'rm': rng.choice(RM_KINDS)}]
        elif kind == 'rebuild2':
            # a delete lands in a LATER data file than the value it deletes, then the tree is rebuilt
            dels = [i for i, o in enumerate(ops) if o['op'] == 'del']
            pos = rng.choice(dels) if dels else rng.randrange(0, len(ops) + 1)
            ops[pos:pos] = [{'op': 'close'}, {'op': 'open', 'rm': rng.choice(RM_KINDS)}]
            ops += [{'op': 'close'}, {'op': 'open', 'rm': rng.choice(RM_KINDS[1:3])}]
        elif kind == 'kill':
            # clean restart (tree dump written), more history incl. the deletes, then an UNCLEAN stop: the next open loads
            # that older dump (inner nodes cached as up to date) and replays sets and deletes over it
            dels = [i for i, o in enumerate(ops) if o['op'] == 'del']
            pos = rng.choice(dels) if dels and rng.random() < 0.8 else rng.randrange(0, len(ops) + 1)
            ops[pos:pos] = [{'op': 'close'}, {'op': 'open', 'rm': []}]
            if rng.random() < 0.5:      # a second clean restart in between moves later writes into a later data file
                p2 = rng.randrange(pos + 2, len(ops) + 1)
                ops[p2:p2] = [{'op': 'close'}, {'op': 'open', 'rm': []}]
            ops += [{'op': 'kill'}, {'op': 'open', 'rm': []}]
        elif kind == 'gc':
            pos = rng.randrange(0, len(ops) + 1)
            ops[pos:pos] = [{'op': 'close'}, {'op': 'open', 'rm': rng.choice(RM_KINDS)}]
            ops.append({'op': 'flush'})
            for b in served:
                ops.append({'op': 'gc', 'b': b, 'begin': rng.choice([0, 0, -1]), 'end': rng.choice([-1, 0])})
            if rng.random() < 0.4:
                ops += [{'op': 'listall'}, {'op': 'close'}, {'op': 'open', 'rm': rng.choice(RM_KINDS)}]
        ops.append({'op': 'listall'})
        ops += [{'op': 'get', 'k': nm} for nm in names]
        scen.append({'id': '%s-h%d' % (gid, hi), 'family': 'list', 'group': gid, 'kind': kind, 'conf': conf, 'keys': keys,
                     'target': {k: list(v) for k, v in target.items()}, 'ops': ops})
    return scen


def gen_c08_checkvh(rng, sid, maxh):
    """check_vhash on: rewriting the same value is a no-op, the listing must not move."""
    buckets, depth, height = pick_layout(rng, maxh)
    hashes = small_keys(rng, depth, height, 4)
    names = ['k%d' % i for i in range(len(hashes))]
    served = sorted(set(int(h[:depth], 16) if depth else 0 for h in hashes))
    ops = []
    for nm in names:
        v = rng.randrange(1, 50)
        ops += [{'op': 'set', 'k': nm, 'v': v, 'rev': 0}, {'op': 'set', 'k': nm, 'v': v, 'rev': 0}]
        if rng.random() < 0.5:
            ops.append({'op': 'set', 'k': nm, 'v': v + 1, 'rev': 0})
    rng.shuffle(ops)
    ops += [{'op': 'listall'}] + [{'op': 'get', 'k': nm} for nm in names]
    return {'id': sid, 'family': 'list', 'kind': 'checkvh', 'keys': {nm: {'hash': h} for nm, h in zip(names, hashes)},
            'conf': {'buckets': buckets, 'served': served, 'height': height, 'threshold': 4, 'check_vhash': True, 'files': False},
            'ops': ops}


def gen_c08_pop(rng, sid, maxh, mode=None, height=None, buckets=None):
    """a population of a few hundred keys under one prefix, default thresholds (256 list / 256 big hash / 100 C find)"""
    mode = mode or rng.choice(['inner', 'leaf', 'leaf'])
    buckets = buckets or rng.choice([1, 16, 256])
    depth = DEPTH[buckets]
    search = rng.random() < 0.5
    if height is None:
        height = rng.randrange(2, min(8 - depth, maxh) + 1)
        if search:                           # searched keys (real hash): keep the forced prefix <= 3 digits
            height = rng.randrange(2, max(2, min(8 - depth, 4 - depth + (1 if mode == 'inner' else 0))) + 1)
    leaflen = depth + height - 1
    plen = leaflen if mode == 'leaf' else leaflen - 1
    if plen > 3:
        search = False
    prefix = rhex(rng, plen)
    served = [int(prefix[:depth], 16)] if depth else [0]
    if mode == 'inner':
        n0 = rng.choice([250, 253, 255, 256])
    else:
        n0 = rng.choice([96, 99, 101, 130, 254, 256])
    extra = rng.randrange(4, 9)
    pop = {'name': 'p', 'count': n0 + extra}
    pop['prefix' if search else 'force'] = prefix
    chain = [prefix[:i] for i in range(0, plen + 1)]
    ops = [{'op': 'setpop', 'name': 'p', 'from': 0, 'to': n0, 'v': 1, 'shuffle': rng.randrange(1, 1 << 30)},
           {'op': 'lists', 'ps': chain + [prefix + c for c in HEX if plen < 16]}]
    # deletes and overwrites, including items beyond the 100th slot of a leaf
    victims = sorted(set([0, n0 - 1, min(n0 - 1, 100), min(n0 - 1, 101), rng.randrange(n0), rng.randrange(n0)]))
    for i, v in enumerate(victims):
        ops.append({'op': 'del', 'k': 'p%d' % v} if i % 2 == 0 else {'op': 'set', 'k': 'p%d' % v, 'v': 2, 'rev': 0})
    only = ['p%d' % v for v in victims[:4]] + ['p%d' % rng.randrange(n0)]
    ops.append({'op': 'listall', 'only': only})
    r = rng.random()
    if r < 0.35:
        ops += [{'op': 'close'}, {'op': 'open', 'rm': rng.choice(RM_KINDS)}, {'op': 'lists', 'ps': chain}]
    # cross the thresholds one key at a time
    for i in range(n0, n0 + extra):
        ops.append({'op': 'set', 'k': 'p%d' % i, 'v': 3, 'rev': 0})
        ops.append({'op': 'lists', 'ps': chain})
    for i, v in enumerate(victims):       # deleted ones come back, live ones go: crossing downwards / upwards again
        ops.append({'op': 'set', 'k': 'p%d' % v, 'v': 4, 'rev': 0} if i % 2 == 0 else {'op': 'del', 'k': 'p%d' % v})
        ops.append({'op': 'lists', 'ps': chain[-2:]})
    if r >= 0.35 and r < 0.6:
        ops += [{'op': 'close'}, {'op': 'open', 'rm': rng.choice(RM_KINDS)}]
    ops.append({'op': 'listall', 'only': only[:2] + ['p%d' % (n0 + extra - 1)]})
    return {'id': sid, 'family': 'list', 'kind': 'pop-' + mode, 'keys': {}, 'pops': [pop],
            'conf': {'buckets': buckets, 'served': served, 'height': height, 'threshold': 0, 'check_vhash': False, 'files': False},
            'ops': ops}


def gen_c15(rng, sid, allow_all256=False):
    buckets = rng.choice([16, 16, 256, 256, 1])
    depth = DEPTH[buckets]
    height = rng.choice([2, 3]) if buckets == 256 else rng.choice([2, 3, 4])
    keys = {}
    if buckets == 16:
        want = [c for c in HEX] + [rng.choice(HEX) for _ in range(3)]
    elif buckets == 256:
        want = ['00', 'ff', '0f', 'f0']
        for _ in range(8):
            a, b = rng.choice(HEX), rng.choice(HEX)
            want += [a + b, b + a]           # nibble-swapped pairs
        want += [rhex(rng, 2) for _ in range(6)]
    else:
        want = ['', '', '', '']
    cnt = {}
    for p in want:
        cnt[p] = cnt.get(p, 0) + 1
        keys['r%s_%d' % (p, cnt[p] - 1)] = {'prefix': p, 'idx': cnt[p] - 1}
    names = sorted(keys)
    kb = {nm: (int(keys[nm]['prefix'], 16) if depth else 0) for nm in names}
    used = sorted(set(kb.values()))
    pat = rng.choice(['none', 'one', 'some', 'some', 'all'])
    if buckets == 1:
        pat = rng.choice(['all', 'all', 'none'])
    if buckets == 256 and pat == 'all' and not allow_all256:
        pat = 'some'           # opening 256 buckets costs ~60 CPU-seconds in Bucket.open (globbing 256 chunks each)
    if pat == 'none':
        served = []
    elif pat == 'one':
        served = [rng.choice(used)]
    elif pat == 'all':
        served = list(range(buckets))
    else:
        served = sorted(set(rng.sample(used, max(2, len(used) // 2)) + [rng.randrange(buckets)]))
        if len(served) >= len(set(used) | set(served)):
            served = served[:-1]
    ops = []
    num = {}
    live = set()
    order = names[:]
    rng.shuffle(order)
    for nm in order:
        r = rng.random()
        if r < 0.6:
            ops.append({'op': 'set', 'k': nm, 'v': rng.randrange(1, 80), 'rev': 0})
            live.add(nm)
            num.pop(nm, None)
        elif r < 0.8:
            v = rng.randrange(0, 1000)
            ops.append({'op': 'setnum', 'k': nm, 'v': v, 'rev': 0})
            num[nm] = v
            live.add(nm)
        else:                                  # incr creates the key
            d = rng.randrange(1, 9)
            ops.append({'op': 'incr', 'k': nm, 'd': d, 'expect': d})
            num[nm] = d
            live.add(nm)
        if rng.random() < 0.3:
            ops.append({'op': 'get', 'k': nm})
    srv = set(served)
    for _ in range(len(names) // 2):
        nm = rng.choice(names)
        r = rng.random()
        if r < 0.3 and nm in live:
            ops.append({'op': 'del', 'k': nm})
            live.discard(nm)
            num.pop(nm, None)
            # a deleted key is never incremented afterwards (Bucket.incr restarts it at version 1: C01's business)
            names = [x for x in names if x != nm] or names
        elif r < 0.6 and nm in num and nm in live:
            d = rng.randrange(1, 9)
            # the expectation is only meaningful where the bucket is served (elsewhere nothing changes)
            ops.append({'op': 'incr', 'k': nm, 'd': d, 'expect': num[nm] + d})
            if kb[nm] in srv:
                num[nm] += d
        elif r < 0.8:
            ops.append({'op': 'get', 'k': nm})
        else:
            if nm in live:
                ops.append({'op': 'set', 'k': nm, 'v': rng.randrange(1, 80), 'rev': 0})
                num.pop(nm, None)
    if rng.random() < 0.35:
        pos = rng.randrange(len(ops) // 2, len(ops) + 1)
        ops[pos:pos] = [{'op': 'close'}, {'op': 'open', 'rm': rng.choice(RM_KINDS)}]
    # listings shorter than, equal to and longer than the bucket depth
    ps = ['']
    if depth == 2:
        ps += [c for c in HEX]
    allk = sorted(keys)
    for nm in rng.sample(allk, min(len(allk), 10)):
        p = keys[nm]['prefix']
        ps += [p, p + rng.choice(HEX)]
    ps += [rhex(rng, depth) for _ in range(3)]
    ops.append({'op': 'lists', 'ps': sorted(set(ps), key=lambda s: (len(s), s))})
    ops.append({'op': 'listall', 'maxlen': depth + 3, 'full': 6})
    ops += [{'op': 'get', 'k': nm} for nm in allk]
    recv = set(kb.values())
    return {'id': sid, 'family': 'list', 'kind': 'route-' + pat, 'keys': keys,
            'conf': {'buckets': buckets, 'served': sorted(served), 'height': height, 'threshold': rng.choice([4, 0]),
                     'check_vhash': False, 'files': True},
            'nserved_recv': len(recv & srv), 'nunserved_recv': len(recv - srv), 'ops': ops}


# ----------------------------------------------------------------------------- model checking
MC_H = '''SPECIFICATION HSpec
CONSTANTS
  MCMaxOps <- {ops}
  MCVh <- {vh}
  MCKeys <- {keys}
  MCMut <- {mut}
INVARIANTS C08_Incremental C08_Lazy C08_CacheSound C08_ListFn {extra}
CHECK_DEADLOCK FALSE
'''
MC_R = '''SPECIFICATION RSpec
CONSTANTS
  RDepth <- {depth}
  RAlpha <- {alpha}
  RMaxOps <- {ops}
  RMut <- {mut}
  RVh <- {vh}
INVARIANTS C15_Place C15_Miss C15_RefOnlyServed C15_Upper C15_TopCount
CHECK_DEADLOCK FALSE
'''
NONE_DEF = {'HTreeList': 'MutNone', 'Route': 'RMutNone'}

MC = {
    'C08': {'quick': [('HTreeList', dict(ops='Ops4', vh='Vh2', keys='MCKeysQ', extra=''))],
            'thorough': [('HTreeList', dict(ops='Ops4', vh='Vh2', keys='MCKeys8', extra='')),
                         ('HTreeList', dict(ops='Ops5', vh='MCVh3', keys='MCKeysQ', extra='')),
                         ('HTreeList', dict(ops='Ops3', vh='Vh2', keys='MCKeys8', extra='ShortcutLemma'))]},
    'C15': {'quick': [('Route', dict(depth='Depth0', alpha='Alpha3', ops='ROps3')),
                      ('Route', dict(depth='Depth1', alpha='Alpha2', ops='ROps4')),
                      ('Route', dict(depth='Depth2', alpha='Alpha2', ops='ROps3'))],
            'thorough': [('Route', dict(depth='Depth0', alpha='Alpha3', ops='ROps4')),
                         ('Route', dict(depth='Depth1', alpha='Alpha3', ops='ROps4')),
                         ('Route', dict(depth='Depth2', alpha='Alpha2', ops='ROps4')),
                         ('Route', dict(depth='Depth2', alpha='Alpha3', ops='ROps3', vh='RVh1'))]},
}
# specification mutants: each must be rejected by TLC (the invariants are not vacuous)
MC_MUT = {
    'C08': [('HTreeList', dict(ops='Ops3', vh='Vh2', keys='MCKeysQ', extra='', mut=m)) for m in ('MutNoCountDec', 'MutNoInval', 'MutFactor', 'MutLoadZero')],
    'C15': [('Route', dict(depth='Depth2', alpha='Alpha2', ops='ROps2', mut=m)) for m in ('MutShift', 'MutNoGate')],
}


def mc_cfg(module, over):
    d = dict(over)
    d.setdefault('mut', 'MutNone')
    d.setdefault('vh', 'RVh2')
    d.setdefault('keys', 'MCKeys8')
    return (MC_H if module == 'HTreeList' else MC_R).format(**d)


def run_one_mc(job):
    module, over, rundir, workers = job
    r = V.tlc_run(module, mc_cfg(module, over), rundir, workers=workers, timeout=1500, java=['-XX:ParallelGCThreads=2'])
    return {'module': module, 'constants': over, 'distinct': r['distinct'], 'generated': r['states'], 'depth': r['depth'],
            'wall_s': round(r['wall'], 1), 'violated': r['violated'], 'error': r['error'], 'timeout': r['timeout'],
            'tail': r['out'][-1200:]}


# ----------------------------------------------------------------------------- orchestration
from concurrent.futures import ThreadPoolExecutor

COUNTS = {  # (groups, histories per group, checkvh scenarios, populations) / routing scenarios
    'C08': {'quick': (16, 7, 4, 6), 'thorough': (100, 7, 20, 30)},
    'C15': {'quick': 48, 'thorough': 400},
}


SCALE = float(os.environ.get('VERIF_LIST_SCALE', '1'))      # debugging aid: shrink the scenario counts
NOMC = bool(os.environ.get('VERIF_LIST_NOMC'))              # debugging aid: skip model checking (evidence then invalid)


def gen_scenarios(pid, tier, seed):
    rng = random.Random('%s-%s-%d' % (pid, tier, seed))
    scen = []
    sc = lambda n: max(1, int(n * SCALE))
    if pid == 'C08':
        ng, nh, ncv, npop = COUNTS['C08'][tier]
        ng, ncv, npop = sc(ng), sc(ncv), sc(npop)
        maxh = 6
        for g in range(ng):
            scen += gen_c08_group(rng, 'c08-%d-g%03d' % (seed, g), nh, maxh)
        for i in range(ncv):
            scen.append(gen_c08_checkvh(rng, 'c08-%d-cv%03d' % (seed, i), maxh))
        for i in range(npop):
            scen.append(gen_c08_pop(rng, 'c08-%d-pop%03d' % (seed, i), maxh))
    else:
        for i in range(sc(COUNTS['C15'][tier])):
            scen.append(gen_c15(rng, 'c15-%d-%04d' % (seed, i), allow_all256=(tier == 'thorough' and i % 100 == 7) or (tier == 'quick' and i == 7)))
    return scen


def gen_tall(pid, seed):
    """thorough tier only: tree heights 7 and 8 (0.4 GB and 6.4 GB per tree): few scenarios, run two at a time"""
    rng = random.Random('%s-tall-%d' % (pid, seed))
    out = []
    for i, (b, h) in enumerate([(1, 7), (16, 7), (1, 7)]):
        s = gen_c08_pop(rng, 'c08-%d-tall%d' % (seed, i), 7, mode='leaf', height=h, buckets=b)
        out.append(s)
    # height 8 (one bucket): no restart (the tree dump alone would be 2.7 GB), one listing round
    rng2 = random.Random('%s-tall8-%d' % (pid, seed))
    hashes = small_keys(rng2, 0, 8, 6)
    names = ['k%d' % i for i in range(len(hashes))]
    ops = []
    for nm in names:
        ops += [{'op': 'set', 'k': nm, 'v': rng2.randrange(1, 50), 'rev': 0}]
    ops += [{'op': 'del', 'k': names[0]}, {'op': 'set', 'k': names[1], 'v': 77, 'rev': 0}, {'op': 'listall'}]
    out.append({'id': 'c08-%d-tall8' % seed, 'family': 'list', 'kind': 'tall8', 'keys': {nm: {'hash': h} for nm, h in zip(names, hashes)},
                'conf': {'buckets': 1, 'served': [0], 'height': 8, 'threshold': 4, 'check_vhash': False, 'files': False}, 'ops': ops})
    return out


def split_chunks(scen, per, k):
    """k lists of scenario ids with balanced event counts"""
    order = sorted((s['id'] for s in scen if s['id'] in per), key=lambda i: -len(per[i]))
    bins = [[0, []] for _ in range(k)]
    for sid in order:
        b = min(bins, key=lambda x: x[0])
        b[0] += len(per[sid]) + 20
        b[1].append(sid)
    return [b[1] for b in bins if b[1]]


def nontrivial(pid, sc, events):
    if pid == 'C08':
        dels = any(e['a'] == 'Set' and e['rev'] < 0 and e['res'] == 'ok' for e in events)
        cnt = {}
        for e in events:
            if e['a'] == 'Set' and e['rev'] >= 0 and e['res'] == 'ok':
                cnt[e['k']] = cnt.get(e['k'], 0) + 1
        over = any(v >= 2 for v in cnt.values())
        nodes = any(e['a'] == 'List' and e['nodes'] for e in events)
        items = any(e['a'] == 'List' and any(it[2] > 0 for it in e['items']) for e in events)
        return dels and over and nodes and items
    # C15: >= 2 served and >= 1 unserved bucket receiving keys
    conf = None
    kd = {}
    for e in events:
        if e['a'] == 'Reset':
            conf = e['conf']
        elif e['a'] == 'Keys':
            kd.update(e['keys'])
    if not conf:
        return False
    depth = conf['depth']
    wrote = set()
    for e in events:
        if e['a'] in ('Set', 'Incr') and e['k'] in kd:
            b = 0
            for x in kd[e['k']][:depth]:
                b = b * 16 + x
            wrote.add(b)
    srv = set(conf['served'])
    return len(wrote & srv) >= 2 and len(wrote - srv) >= 1 and any(e['a'] == 'Files' for e in events)


def final_signature(events):
    """content observed by the final reads of a history (live keys only)"""
    last = {}
    for e in events:
        if e['a'] == 'Get':
            last[e['k']] = (e['res'], e['ver'], e['vh']) if (e['res'] == 'hit' and e['ver'] > 0) else ('gone',)
    return json.dumps(sorted(last.items()))


def run(pid, tier, seed, work, log, replay=None):
    t0 = time.time()
    res = {'violations': [], 'known': [], 'drift': [], 'lead': [], 'coverage': {}}
    pool = ThreadPoolExecutor(max_workers=8)
    # ---- (a) model checking, in the background while the scenarios run
    mcjobs, mutjobs = [], []
    if not replay and not NOMC:
        for i, (module, over) in enumerate(MC[pid][tier]):
            mcjobs.append(pool.submit(run_one_mc, (module, over, os.path.join(work, 'mc%d' % i), 4)))
        if tier == 'thorough':
            for i, (module, over) in enumerate(MC_MUT[pid]):
                mutjobs.append(pool.submit(run_one_mc, (module, over, os.path.join(work, 'mut%d' % i), 2)))
    # ---- (b) scenarios
    if replay:
        scen = [json.load(open(replay))]
    else:
        scen = gen_scenarios(pid, tier, seed)
        fixed = os.path.join(V.VERIF, 'scenarios', 'fixed', pid)
        if os.path.isdir(fixed):
            for f in sorted(os.listdir(fixed)):
                if f.endswith('.json'):
                    scen.append(json.load(open(os.path.join(fixed, f))))
    # ---- (c) run on the real code
    tb = V.build_harness(work)
    log('harness built, %d scenarios' % len(scen))
    tall = [s for s in scen if s['conf'].get('height', 3) >= 7]
    normal = [s for s in scen if s['conf'].get('height', 3) < 7]
    if pid == 'C08' and tier == 'thorough' and not replay:
        tall += gen_tall(pid, seed)
        scen = normal + tall
    traces, crashed = {}, []
    if normal:
        traces, crashed = V.run_scenarios(tb, normal, work, runname='TestVerifList', timeout=1500)
    if tall and not crashed:
        os.makedirs(os.path.join(work, 'tall'), exist_ok=True)
        t2, crashed = V.run_scenarios(tb, tall, os.path.join(work, 'tall'), shards=2, runname='TestVerifList', timeout=1500)
        traces.update(t2)
    if crashed:
        raise V.Inconclusive('harness process died: %s' % crashed[0][2][-1500:])
    log('executed %d scenarios (%.1fs)' % (len(traces), time.time() - t0))
    per = {}
    for s in scen:
        if s['id'] in traces:
            ev = normalize(traces[s['id']])
            if not ev or ev[-1]['a'] != 'End':
                raise V.Inconclusive('incomplete trace for scenario %s' % s['id'])
            ab = [e for e in traces[s['id']] if e.get('a') == 'Abort']
            if ab:      # a scenario that could not run decides nothing: never a silent pass
                raise V.Inconclusive('scenario %s aborted: %s' % (s['id'], ab[0].get('err', '')))
            per[s['id']] = ev
    # ---- (d) TLC trace validation, several TLC processes side by side
    chunks = split_chunks(scen, per, 1 if replay else (8 if tier == 'quick' else 14))

    def val(ci):
        ev = [e for sid in chunks[ci] for e in per[sid]]
        bad, ok, r = validate(ev, os.path.join(work, 'tv%d' % ci))
        return bad, ok, r, len(ev)
    nev = 0
    tstates = 0
    aborted = 0
    for bad, ok, r, n in pool.map(val, range(len(chunks))):
        if not ok:
            raise V.Inconclusive('trace validation did not consume the whole trace: %s | %s' % (r['error'], r['out'][-1500:]))
        nev += n
        tstates += r['distinct']
        for sid, n_, chk in bad:
            if chk.startswith(pid + '_'):
                res['violations'].append({'sid': sid, 'n': n_, 'check': chk, 'kf': ''})
            elif chk.startswith('X_'):
                res['drift'].append((sid, n_, chk))
    log('validated %d events in %d TLC runs (%.1fs)' % (nev, len(chunks), time.time() - t0))
    # ---- binding self-test (thorough): a corrupted observation / input must be rejected by TLC
    binding = []
    if tier == 'thorough' and not replay:
        import copy
        for sid in [x['id'] for x in scen if x['id'] in per]:
            ev = per[sid]
            if pid == 'C08' and any(e['a'] == 'List' and e['nodes'] for e in ev) and any(e['a'] == 'List' and e['items'] for e in ev):
                break
            if pid == 'C15' and any(e['a'] == 'Files' and e['sizes'] for e in ev) and any(e['a'] == 'Get' and e['res'] == 'miss' for e in ev):
                break

        def corrupt_nodes(ev):
            for e in ev:
                if e['a'] == 'List' and e['nodes']:
                    e['nodes'][len(e['nodes']) // 2][2] += 1
                    return

        def corrupt_item(ev):
            for e in ev:
                if e['a'] == 'List' and any(it[2] > 0 for it in e['items']):
                    it = [x for x in e['items'] if x[2] > 0][0]
                    it[0][15] ^= 1
                    return

        def corrupt_vh(ev):
            for e in ev:
                if e['a'] == 'Set' and e['rev'] >= 0:
                    e['vh'] = (e['vh'] + 1) % 65536
                    return

        def corrupt_files(ev):
            for e in ev:
                if e['a'] == 'Files' and e['sizes']:
                    e['sizes'][0][0] = (e['sizes'][0][0] + 1) % 16
                    return

        def corrupt_get(ev):
            for e in ev:
                if e['a'] == 'Get' and e['res'] == 'miss':
                    e['res'], e['ver'], e['vh'] = 'hit', 1, 7
                    return
        muts = {'C08': [corrupt_nodes, corrupt_item, corrupt_vh], 'C15': [corrupt_files, corrupt_get]}[pid]
        for i, m in enumerate(muts):
            ev2 = copy.deepcopy(per[sid])
            m(ev2)
            bad, ok, r = validate(ev2, os.path.join(work, 'bind%d' % i))
            hit = sorted(set(b[2] for b in bad if b[2].startswith(pid + '_')))
            binding.append({'corruption': m.__name__, 'scenario': sid, 'rejected_by': hit})
            log('binding self-test %s: %s' % (m.__name__, hit or 'NOT rejected'))
            if not ok or not hit:
                raise V.Inconclusive('binding self-test: corrupted trace (%s) was not rejected' % m.__name__)
    # ---- collect model checking
    mcruns = [j.result() for j in mcjobs]
    states = sum(m['distinct'] for m in mcruns)
    trans = sum(m['generated'] for m in mcruns)
    for m in mcruns:
        log('MC %s %s: %d distinct / %d generated, depth %d, %.1fs%s' % (m['module'], m['constants'], m['distinct'], m['generated'],
                                                                       m['depth'], m['wall_s'], ' VIOLATED ' + str(m['violated']) if m['violated'] else ''))
        if m['error'] or m['timeout']:
            raise V.Inconclusive('TLC failed on %s: %s | %s' % (m['module'], m['error'] or 'timeout', m['tail']))
        if m['violated']:
            res['lead'].append(('MC', m['module'], m['violated']))
        m.pop('tail', None)
    selftest = []
    for j in mutjobs:
        m = j.result()
        selftest.append({'mutant': m['constants']['mut'], 'rejected_by': m['violated']})
        log('spec mutant %s: %s' % (m['constants']['mut'], 'rejected by ' + str(m['violated']) if m['violated'] else 'NOT rejected'))
        if not m['violated']:
            raise V.Inconclusive('self-test: specification mutant %s was not rejected (%s)' % (m['constants']['mut'], m['error']))
    pool.shutdown()
    # ---- evidence
    nt = set()
    for s in scen:
        if s['id'] in per and nontrivial(pid, s, per[s['id']]):
            nt.add(hashlib.md5(json.dumps([s['conf'], s.get('keys'), s.get('pops'), s['ops']], sort_keys=True).encode()).hexdigest())
    for s in scen:
        if s['id'] in per and any(e['a'] == 'Reset' and e['abort'] for e in per[s['id']]):
            aborted += 1
    groups = {}
    for s in scen:
        if s.get('group') and s['id'] in per:
            groups.setdefault(s['group'], []).append(final_signature(per[s['id']]))
    eq_groups = sum(1 for g in groups.values() if len(g) >= 2 and len(set(g)) == 1)
    nlist = sum(1 for ev in per.values() for e in ev if e['a'] == 'List')
    nfiles = sum(1 for ev in per.values() for e in ev if e['a'] == 'Files')
    confs = sorted(set((s['conf']['buckets'], s['conf']['height']) for s in scen if s['id'] in per))
    sample = next((s for s in scen if s['id'] in per and s.get('kind') not in ('pop-inner', 'pop-leaf')), scen[0])
    strace = per.get(sample['id'], [])
    shead = [e for e in strace if e['a'] != 'Keys'][:5] + [e for e in strace if e['a'] == 'List' and (e['nodes'] or e['items'])][:2]
    rule = {
        'C08': 'seeded generation: groups of histories built to reach the same final content (permutation, redundant overwrite, '
               'delete/re-set at an explicit revision, restart with dump / rebuilt from hints / from data, GC) + populations around '
               'the 256/100 thresholds; a scenario is non-trivial iff its executed trace has >=1 successful delete, >=1 key written '
               'more than once, >=1 node-level and >=1 item-level listing with live lines; distinct by hash of (conf, keys, ops)',
        'C15': 'seeded generation with the real key hash (keys found by search per bucket); non-trivial iff writes reached >=2 served '
               'and >=1 unserved bucket and file sizes were observed; distinct by hash of (conf, keys, ops)'}[pid]
    res['coverage'] = {
        'states': states, 'transitions': trans, 'traces_validated_against_impl': len(per) - aborted,
        'samples': [{'scenario': {k: sample[k] for k in ('id', 'conf', 'keys', 'ops') if k in sample}, 'trace_head': shead}],
        'evaluations': len(scen), 'distinct_nontrivial': len(nt), 'rule': rule,
        'events_validated': nev, 'listings_compared': nlist, 'file_observations': nfiles, 'trace_states': tstates,
        'history_groups': len(groups), 'history_groups_equal_final_content': eq_groups,
        'configurations_buckets_height': [list(c) for c in confs], 'scenarios_aborted_in_setup': aborted,
        'mc_runs': mcruns, 'spec_mutants_rejected': selftest, 'binding_selftest': binding,
        'exhaustive': bool(mcruns) and all(not m['timeout'] for m in mcruns),
        'drift': len(res['drift']), 'model_only_leads': len(res['lead']),
    }
    res['assumptions'] = ['key hash and value hash functions are inputs (C16)', 'HStore.ListDir with the KeyInfo built as '
                          'gobeansdb.StorageClient.listDir does stands for `get @prefix`', 'no colliding keys']
    res['scen'] = {s['id']: s for s in scen}
    res['wall'] = time.time() - t0
    return res
