"""Sequential families (C01, C02, C03, C13, C18): model checking of Bucket.tla + level-1 trace
validation of scenarios executed on the real code."""
import json, os, random, time, shutil
import vcommon as V
import gen_seq as G

# which check names (from Trace_Bucket.tla) belong to which property
CHECKS = {
    'C01': ('C01_',),
    'C02': ('C02_',),
    'C03': ('C03_',),
    'C13': ('C13_',),
    'C17': ('C17_',),
    'C18': ('C18_',),
}

# MC configurations per property and tier: (module, cfg-template-name, overrides)
MC = {
    'C01': {'quick': [('MC_Seq', dict(MaxOps=3, CheckVH='FALSE', MaxRestarts=0)),
                      ('MC_Seq', dict(MaxOps=3, CheckVH='TRUE', MaxRestarts=0))],
            'thorough': [('MC_Seq', dict(MaxOps=5, CheckVH='FALSE', MaxRestarts=0)),
                         ('MC_Seq', dict(MaxOps=5, CheckVH='TRUE', MaxRestarts=0))]},
    'C03': {'quick': [('MC_Seq', dict(MaxOps=5, WithGC='TRUE', FileMax=2, Vals='{1}', Revs='{0}', MaxChunk=3))],
            'thorough': [('MC_Seq', dict(MaxOps=6, MaxRestarts=1, WithGC='TRUE', FileMax=2, Vals='{1}', Revs='{0}', MaxChunk=4)),
                         ('MC_Seq', dict(MaxOps=5, MaxRestarts=0, WithGC='TRUE', FileMax=3, Vals='{1, 3}', Revs='{0}', MaxChunk=3, BodyMaxBlk=2))]},
    'C18': {'quick': [('MC_Seq', dict(MaxOps=5, WithGC='TRUE', FileMax=2, Vals='{1}', Revs='{0}', MaxChunk=3, Mutants='{"KF7"}',
                                      INVS='TypeOK C18_OnlyCurrent C18_Once NoFatal'))],
            'thorough': [('MC_Seq', dict(KEYS='{"a"}', HASHIDS='{"ha"}', MaxOps=9, MaxRestarts=1, WithGC='TRUE', FileMax=2,
                                         Vals='{1}', Revs='{0}', MaxChunk=4, Mutants='{"KF7"}',
                                         INVS='TypeOK C18_OnlyCurrent C18_Once NoFatal')),
                         ('MC_Seq', dict(MaxOps=6, MaxRestarts=1, WithGC='TRUE', FileMax=2, Vals='{1}', Revs='{0}', MaxChunk=4,
                                         Mutants='{"KF7"}', INVS='TypeOK C18_OnlyCurrent C18_Once NoFatal'))]},
    'C17': {'quick': [('MC_Seq', dict(MaxOps=4, WithGC='TRUE', FileMax=2, Vals='{1}', Revs='{0}', MaxChunk=3))],
            'thorough': [('MC_Seq', dict(MaxOps=6, WithGC='TRUE', FileMax=2, Vals='{1}', Revs='{0}', MaxChunk=4))]},
    'C02': {'quick': [('MC_Seq', dict(MaxOps=3, CheckVH='FALSE', MaxRestarts=1))],
            'thorough': [('MC_Seq', dict(MaxOps=4, CheckVH='FALSE', MaxRestarts=2)),
                         ('MC_Seq', dict(MaxOps=5, CheckVH='FALSE', MaxRestarts=1, Vals='{1, 3}'))]},
}

MC_TEMPLATE = '''SPECIFICATION MCSpec
CONSTANTS
  Keys = {KEYS}
  HashIds = {HASHIDS}
  Clients = {{"c1"}}
  MaxChunk = {MaxChunk}
  Vals = {Vals}
  Revs = {Revs}
  MaxOps = {MaxOps}
  CheckVH = {CheckVH}
  Collide = {Collide}
  MaxRestarts = {MaxRestarts}
  Mutants = {Mutants}
  WithGC = {WithGC}
  FileMax = {FileMax}
  BodyMaxBlk = {BodyMaxBlk}
CONSTRAINT Bound
INVARIANTS {INVS}
CHECK_DEADLOCK FALSE
'''

MC_DEFAULTS = dict(KEYS='{"a", "b"}', HASHIDS='{"ha", "hb"}', MaxChunk=3, Vals='{1, 2, 3}', Revs='{0, 5}',
                   MaxOps=3, CheckVH='FALSE', Collide='FALSE', MaxRestarts=0, Mutants='{}', WithGC='FALSE', FileMax=3, BodyMaxBlk=1,
                   INVS='TypeOK C01_ReadMap NoFatal C02_NoLostAck')


def mc_cfg(over):
    d = dict(MC_DEFAULTS)
    d.update(over)
    return MC_TEMPLATE.format(**d)


def run_mc(pid, tier, work, log):
    tot_states = tot_trans = 0
    runs = []
    for i, (module, over) in enumerate(MC.get(pid, {}).get(tier, [])):
        r = V.tlc_run(module, mc_cfg(over), os.path.join(work, 'mc%d' % i), timeout=3000,
                      extra=['-difftrace'])
        runs.append({'module': module, 'constants': over, 'distinct': r['distinct'], 'generated': r['states'],
                     'depth': r['depth'], 'wall_s': round(r['wall'], 1), 'violated': r['violated'],
                     'error': r['error'], 'timeout': r['timeout']})
        tot_states += r['distinct']
        tot_trans += r['states']
        log('MC %s %s: %d distinct / %d generated states, depth %d, %.1fs%s' % (
            module, over, r['distinct'], r['states'], r['depth'], r['wall'],
            (' VIOLATED ' + str(r['violated'])) if r['violated'] else ''))
        if r['error'] or r['timeout']:
            raise V.Inconclusive('TLC failed on %s: %s\n%s' % (module, r['error'] or 'timeout', r['out'][-1500:]))
        if r['violated']:
            open(os.path.join(work, 'mc%d.out' % i), 'w').write(r['out'])
    return tot_states, tot_trans, runs


def scenario_counts(tier):
    return {'quick': 240, 'thorough': 4000}[tier]


def nontrivial(pid, sc, events):
    """distinct-nontrivial rule per property (DESIGN.md section 6), evaluated on the executed trace."""
    acts = [e['a'] for e in events]
    if pid == 'C01':
        srcs = set()
        for e in events:
            if e['a'] == 'Get' and e.get('res') == 'hit':
                srcs.add(e.get('c'))
        has_del = any(e['a'] == 'Set' and e.get('rev', 0) < 0 and e.get('res') == 'ok' for e in events)
        has_rev = any(e['a'] == 'Set' and e.get('rev', 0) > 0 for e in events)
        return len(srcs) >= 2 and has_del and has_rev and 'Flush' in acts
    if pid == 'C02':
        removed = any(e['a'] == 'Open' and e.get('removed') for e in events)
        over = len([e for e in events if e['a'] == 'Set' and e.get('res') == 'ok']) >= 3
        return removed and over
    if pid in ('C03', 'C18'):
        return any(e['a'] == 'GC' and e.get('res') == 'ok' and e.get('released', 0) > 0 for e in events)
    if pid == 'C13':
        return any(e['a'] == 'Open' for e in events) or 'GC' in acts
    return True


def run(pid, tier, seed, work, log, replay=None):
    t0 = time.time()
    res = {'violations': [], 'known': [], 'drift': [], 'lead': [], 'coverage': {}}
    # ---- (a) model checking
    states = trans = 0
    mcruns = []
    if not replay:
        states, trans, mcruns = run_mc(pid, tier, work, log)
        for m in mcruns:
            if m['violated']:
                res['lead'].append(('MC', m['module'], m['violated']))
    # ---- (b) scenarios
    focus = pid.lower()
    if replay:
        scen = [json.load(open(replay))]
    else:
        scen = G.gen_batch(seed, scenario_counts(tier), focus, pid.lower())
        fixed = os.path.join(V.VERIF, 'scenarios', 'fixed', pid)
        if os.path.isdir(fixed):
            for f in sorted(os.listdir(fixed)):
                if f.endswith('.json'):
                    scen.append(json.load(open(os.path.join(fixed, f))))
    # ---- (c) run on the real code + validate
    tb = V.build_harness(work)
    traces, crashed = V.run_scenarios(tb, scen, work)
    if crashed:
        raise V.Inconclusive('harness process died: %s' % crashed[0][2][-800:])
    allev = []
    per = {}
    for s in scen:
        if s['id'] in traces:
            l1 = V.normalize_l1(traces[s['id']])
            per[s['id']] = l1
            allev += l1
    r = V.tlc_validate(allev, os.path.join(work, 'tv'))
    if not r['accepted']:
        raise V.Inconclusive('trace validation did not consume the whole trace: %s\n%s' % (
            r.get('tlc_error'), r['out'][-1500:]))
    mine = CHECKS[pid]
    byid = {s['id']: s for s in scen}
    for sid, n, chk in r['bad']:
        if not chk.startswith(mine):
            continue
        name, _, kf = chk.partition('!')
        res['violations' if not kf else 'known'].append({'sid': sid, 'n': n, 'check': name, 'kf': kf})
    res['drift'] = r['drift']
    res['lead'] += [x for x in r['lead']]
    nt = set()
    for s in scen:
        if s['id'] in per and nontrivial(pid, s, per[s['id']]):
            nt.add(json.dumps(s['ops'], sort_keys=True))
    sample = scen[0]
    res['coverage'] = {
        'states': states, 'transitions': trans,
        'traces_validated_against_impl': len(per),
        'samples': [{'scenario': sample, 'trace_head': per.get(sample['id'], [])[:6]}],
        'evaluations': len(scen), 'distinct_nontrivial': len(nt),
        'rule': 'seeded random op sequences + fixed regression scenarios executed on the real store; '
                'non-trivial per DESIGN.md section 6 (' + pid + ')',
        'events_validated': len(allev), 'trace_states': r['states'],
        'mc_runs': mcruns, 'exhaustive': bool(mcruns) and all(not m['timeout'] for m in mcruns),
        'drift': len(r['drift']), 'model_only_leads': len(res['lead']),
    }
    res['scen'] = byid
    res['wall'] = time.time() - t0
    return res
