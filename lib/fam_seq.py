"""Sequential families (C01, C02, C03, C13, C18): model checking of Bucket.tla + level-1 trace
validation of scenarios executed on the real code."""
import json, os, random, time, shutil
import vcommon as V
import gen_seq as G

READY = True
PROPS = {
 'C01': dict(level='model_checking', design='DESIGN.md 6 C01',
   text='Bucket.tla (write/read/incr/flush/rotation at critical-section grain, reference map by the documented version arithmetic) is model-checked exhaustively for small constants (all positions of flush and rotation, check_vhash on/off); seeded random and fixed histories are executed on the real HStore built from the working tree and every logged reply is validated by TLC against the reference map (level-1 trace validation).',
   note='Trusted: TLC, the harness value-id table (byte equality), hooks only park the post-rotation flusher. Values up to a few KB (not body_max); one served bucket per scenario; memcached text path is covered by C11.',
   technique='TLA+ model checking (TLC) + TLC trace validation of real executions'),
 'C02': dict(level='model_checking', design='DESIGN.md 6 C02',
   text='MC_Seq with clean restarts: every subset of tree dump / hint files removed before Open, the post-rotation flusher released at any point or never (shutdown race); Recover(disk) transcribes Bucket.open. Real executions: close/reopen at random positions with index files deleted, replies validated by TLC against the reference map.',
   note='Merged hint (*.idx.m) subsets only when a merge ran; versions of deleted keys and of tree-only revision changes are adopted from the implementation as the property allows.',
   technique='TLA+ model checking (TLC) + TLC trace validation of real executions'),
 'C03': dict(level='model_checking', design='DESIGN.md 6 C03',
   text='GC (range check, destination choice, in-place rewrite, copy, two-step tree repoint, hint write, source clear, truncate) is part of Bucket.tla at the grain of gc.go; MC_Seq with GC enumerates every accepted (begin,end) over small multi-file histories incl. restarts; on the real store random histories with GC passes (also repeated, followed by writes and restarts with index subsets removed) are executed and all reads validated by TLC against the reference map.',
   note='merge=off passes only so far (merge-on GC sleeps SecsBeforeDump+1 s per pass and is exercised in the thorough tier only when enabled); GC is requested only when no post-rotation flush is pending (that schedule belongs to C05).',
   technique='TLA+ model checking (TLC) + TLC trace validation of real executions'),
 'C13': dict(level='model_checking', design='DESIGN.md 6 C13',
   text='Bucket.tla keeps one tree slot per key HASH, the collision table, per-split (hash,key) hint maps and the hint lookup of the read path; MC_Seq with two/three keys forced onto one hash checks that a read never returns another key\'s record (C13_NoAlias, also through restarts and GC) and that each key keeps its own latest value (C13_ReadMap; TLC rediscovers findings F8a/F8b). On the real store the test-only hash override forces groups of 2-3 keys onto one hash; random histories with restarts (index subsets removed) and GC are executed and every read is validated by TLC against a reference map that is independent of the transcription (acceptance of explicit revisions on colliding keys is taken from the code, as the property excludes their versions).',
   note='Known findings F8a (replayed tombstone of one colliding key removes the shared slot: the other key misses after a restart) and F8b (check_vhash compares with the other key\'s value hash) are excused by their signatures. Observation F8c (delete of a live colliding key refused with NOT_FOUND when the slot holds another key\'s tombstone) is not counted: the operation is refused, not acknowledged. The documented real colliding key pair is not used (hash override instead).',
   technique='TLA+ model checking (TLC) + TLC trace validation of real executions'),
 'C17': dict(level='model_checking', design='DESIGN.md 6 C17',
   text='RangeOf (gcCheckStart/End/Range with the age predicate as input) is part of Bucket.tla; every GC request of the scenarios is compared with it (accepted range or refusal), and the before/after inventory of the data files (sizes, content hashes of the old prefix) is checked against the frame clause: files outside [begin,end] keep their bytes, at most one earlier file grows, nothing at or above the head is touched.',
   note='The "at most one pass per bucket" clause (two concurrent requests) is checked by the schedule family once built; pretend mode and days>0 arguments are exercised through gcCheckRange only.',
   technique='TLA+ model checking (TLC) + TLC trace validation of real executions'),
 'C18': dict(level='model_checking', design='DESIGN.md 6 C18',
   text='After every GC pass the data files are scanned with an independent record reader (own header parse + stdlib CRC-32); TLC checks that every record surviving in the collected range is the newest record of its key (by the specification\'s record history), exactly once, and that an identical second pass releases nothing. The same invariants are model-checked on Bucket.tla (C18_OnlyCurrent, C18_Once) where TLC rediscovers finding F7.',
   note='Known finding F7 (superseded tombstone kept when the key is absent from a rebuilt tree and begin > 0) is excused by its predicate only; colliding keys excluded as the property says.',
   technique='TLA+ model checking (TLC) + TLC trace validation of real executions'),
}

# which check names (from Trace_Bucket.tla) belong to which property
CHECKS = {
    'C01': ('C01_',),
    'C02': ('C02_',),
    'C03': ('C03_',),
    'C13': ('C13_',),
    'C17': ('C17_',),
    'C18': ('C18_',),
}

# MC configurations per property and tier: (module, cfg-template-name, overrides)
MC = {
    'C01': {'quick': [('MC_Seq', dict(MaxOps=3, CheckVH='FALSE', MaxRestarts=0)),
                      ('MC_Seq', dict(MaxOps=3, CheckVH='TRUE', MaxRestarts=0))],
            'thorough': [('MC_Seq', dict(MaxOps=5, CheckVH='FALSE', MaxRestarts=0)),
                         ('MC_Seq', dict(MaxOps=5, CheckVH='TRUE', MaxRestarts=0))]},
    'C03': {'quick': [('MC_Seq', dict(MaxOps=5, WithGC='TRUE', FileMax=2, Vals='{1}', Revs='{0}', MaxChunk=3))],
            'thorough': [('MC_Seq', dict(MaxOps=6, MaxRestarts=1, WithGC='TRUE', FileMax=2, Vals='{1}', Revs='{0}', MaxChunk=4)),
                         ('MC_Seq', dict(MaxOps=5, MaxRestarts=0, WithGC='TRUE', FileMax=3, Vals='{1, 3}', Revs='{0}', MaxChunk=3, BodyMaxBlk=2))]},
    'C18': {'quick': [('MC_Seq', dict(MaxOps=5, WithGC='TRUE', FileMax=2, Vals='{1}', Revs='{0}', MaxChunk=3, Mutants='{"KF7"}',
                                      INVS='TypeOK C18_OnlyCurrent C18_Once NoFatal'))],
            'thorough': [('MC_Seq', dict(KEYS='{"a"}', HASHIDS='{"ha"}', MaxOps=9, MaxRestarts=1, WithGC='TRUE', FileMax=2,
                                         Vals='{1}', Revs='{0}', MaxChunk=4, Mutants='{"KF7"}',
                                         INVS='TypeOK C18_OnlyCurrent C18_Once NoFatal')),
                         ('MC_Seq', dict(MaxOps=6, MaxRestarts=1, WithGC='TRUE', FileMax=2, Vals='{1}', Revs='{0}', MaxChunk=4,
                                         Mutants='{"KF7"}', INVS='TypeOK C18_OnlyCurrent C18_Once NoFatal'))]},
    'C13': {'quick': [('MC_Seq', dict(KEYS='{"b", "c"}', HASHIDS='{"hb"}', Collide='TRUE', MaxOps=3, MaxRestarts=0, Vals='{1, 2}', Revs='{0}',
                                      INVS='TypeOK C13_ReadMap C13_NoAlias NoFatal')),
                      ('MC_Seq', dict(KEYS='{"b", "c"}', HASHIDS='{"hb"}', Collide='TRUE', MaxOps=3, MaxRestarts=1, Vals='{1, 2}', Revs='{0}',
                                      INVS='TypeOK C13_NoAlias NoFatal'))],
            'thorough': [('MC_Seq', dict(KEYS='{"b", "c"}', HASHIDS='{"hb"}', Collide='TRUE', MaxOps=4, MaxRestarts=0, Vals='{1, 2}', Revs='{0}',
                                         INVS='TypeOK C13_ReadMap C13_NoAlias NoFatal')),
                         ('MC_Seq', dict(KEYS='{"a", "b", "c"}', HASHIDS='{"ha", "hb"}', Collide='TRUE', MaxOps=5, MaxRestarts=1, Vals='{1}', Revs='{0}',
                                         WithGC='TRUE', FileMax=2, INVS='TypeOK C13_NoAlias NoFatal'))]},   # (a pass needs >= 5 ops)
    'C17': {'quick': [('MC_Seq', dict(MaxOps=5, WithGC='TRUE', FileMax=2, Vals='{1}', Revs='{0}', MaxChunk=3))],   # (a pass needs >= 5 ops: 3 writes, flush, gc)
            'thorough': [('MC_Seq', dict(MaxOps=6, WithGC='TRUE', FileMax=2, Vals='{1}', Revs='{0}', MaxChunk=4))]},
    'C02': {'quick': [('MC_Seq', dict(MaxOps=3, CheckVH='FALSE', MaxRestarts=1))],
            'thorough': [('MC_Seq', dict(MaxOps=4, CheckVH='FALSE', MaxRestarts=2)),
                         ('MC_Seq', dict(MaxOps=5, CheckVH='FALSE', MaxRestarts=1, Vals='{1, 3}'))]},
}

MC_TEMPLATE = '''SPECIFICATION MCSpec
CONSTANTS
  Keys = {KEYS}
  HashIds = {HASHIDS}
  Clients = {{"c1"}}
  MaxChunk = {MaxChunk}
  Vals = {Vals}
  Revs = {Revs}
  MaxOps = {MaxOps}
  CheckVH = {CheckVH}
  Collide = {Collide}
  MaxRestarts = {MaxRestarts}
  Mutants = {Mutants}
  WithGC = {WithGC}
  FileMax = {FileMax}
  BodyMaxBlk = {BodyMaxBlk}
  WithCrash = {WithCrash}
  SplitCap = {SplitCap}
CONSTRAINT Bound
INVARIANTS {INVS}
CHECK_DEADLOCK FALSE
'''

MC_DEFAULTS = dict(KEYS='{"a", "b"}', HASHIDS='{"ha", "hb"}', MaxChunk=3, Vals='{1, 2, 3}', Revs='{0, 5}',
                   MaxOps=3, CheckVH='FALSE', Collide='FALSE', MaxRestarts=0, Mutants='{}', WithGC='FALSE', FileMax=3, BodyMaxBlk=1, WithCrash='FALSE', SplitCap=2,
                   INVS='TypeOK C01_ReadMap NoFatal C02_NoLostAck')


def mc_cfg(over):
    d = dict(MC_DEFAULTS)
    d.update(over)
    return MC_TEMPLATE.format(**d)


def run_mc(pid, tier, work, log):
    tot_states = tot_trans = 0
    runs = []
    for i, (module, over) in enumerate(MC.get(pid, {}).get(tier, [])):
        r = V.tlc_run(module, mc_cfg(over), os.path.join(work, 'mc%d' % i), timeout=3000,
                      extra=['-difftrace'])
        runs.append({'module': module, 'constants': over, 'distinct': r['distinct'], 'generated': r['states'],
                     'depth': r['depth'], 'wall_s': round(r['wall'], 1), 'violated': r['violated'],
                     'error': r['error'], 'timeout': r['timeout']})
        tot_states += r['distinct']
        tot_trans += r['states']
        log('MC %s %s: %d distinct / %d generated states, depth %d, %.1fs%s' % (
            module, over, r['distinct'], r['states'], r['depth'], r['wall'],
            (' VIOLATED ' + str(r['violated'])) if r['violated'] else ''))
        if r['error'] or r['timeout']:
            raise V.Inconclusive('TLC failed on %s: %s\n%s' % (module, r['error'] or 'timeout', r['out'][-1500:]))
        if r['violated']:
            open(os.path.join(work, 'mc%d.out' % i), 'w').write(r['out'])
    return tot_states, tot_trans, runs


CLIENT_OPS = ('set', 'del', 'get', 'incr', 'close', 'open', 'readall')


def client_scenarios(scen, n):
    """the store-level scenarios (random + TLC-generated) restricted to what the client API has"""
    out = []
    for s in scen:
        if s.get('family') not in ('seq', 'tlcgen') or s['conf'].get('collide'):
            continue
        ops = [dict(o) for o in s['ops'] if o['op'] in CLIENT_OPS]
        for o in ops:
            if o['op'] == 'open':
                o['rm'] = [p for p in o.get('rm', []) if p != '@lastsplits']
        if sum(1 for o in ops if o['op'] in ('set', 'del', 'incr')) < 2:
            continue
        out.append({'id': 'cl-' + s['id'], 'family': 'client', 'conf': dict(s['conf'], buckets=1, bucket=0), 'ops': ops})
        if len(out) >= n:
            break
    return out


def scenario_counts(tier):
    return {'quick': 240, 'thorough': 4000}[tier]


def nontrivial(pid, sc, events):
    """distinct-nontrivial rule per property (DESIGN.md section 6), evaluated on the executed trace."""
    acts = [e['a'] for e in events]
    if pid == 'C01':
        srcs = set()
        for e in events:
            if e['a'] == 'Get' and e.get('res') == 'hit':
                srcs.add(e.get('c'))
        has_del = any(e['a'] == 'Set' and e.get('rev', 0) < 0 and e.get('res') == 'ok' for e in events)
        has_rev = any(e['a'] == 'Set' and e.get('rev', 0) > 0 for e in events)
        return len(srcs) >= 2 and has_del and has_rev and 'Flush' in acts
    if pid == 'C02':
        removed = any(e['a'] == 'Open' and e.get('removed') for e in events)
        over = len([e for e in events if e['a'] == 'Set' and e.get('res') == 'ok']) >= 3
        return removed and over
    if pid in ('C03', 'C18'):
        return any(e['a'] == 'GC' and e.get('res') == 'ok' and e.get('released', 0) > 0 for e in events)
    if pid == 'C13':
        return any(e['a'] == 'Open' for e in events) or 'GC' in acts
    return True


def run(pid, tier, seed, work, log, replay=None):
    t0 = time.time()
    res = {'violations': [], 'known': [], 'drift': [], 'lead': [], 'coverage': {}}
    # ---- (a) model checking
    states = trans = 0
    mcruns = []
    if not replay:
        states, trans, mcruns = run_mc(pid, tier, work, log)
        for m in mcruns:
            if m['violated']:
                res['lead'].append(('MC', m['module'], m['violated']))
    # ---- (b) scenarios
    focus = pid.lower()
    if replay:
        scen = [json.load(open(replay))]
    else:
        scen = G.gen_batch(seed, scenario_counts(tier), focus, pid.lower())
        if pid in ('C03', 'C18', 'C17'):
            tpl = G.gc_templates()          # exhaustive small grammar; the quick tier takes a seeded sample
            if tier == 'quick':
                rng = random.Random(seed * 7919 + 1)
                tpl = rng.sample(tpl, {'C03': 320, 'C18': 200, 'C17': 160}[pid])
            scen += tpl
            tp2 = G.gc_twopass_templates()
            if tier == 'quick':
                tp2 = random.Random(seed * 7919 + 2).sample(tp2, 48)
            scen += tp2
        # behaviours of the specification itself (TLC -simulate over Gen_Seq) replayed into the real store
        import gen_tlc
        scen += gen_tlc.generate(focus, seed, {'quick': 60, 'thorough': 600}[tier], work, log)
        fixed = os.path.join(V.VERIF, 'scenarios', 'fixed', pid)
        if os.path.isdir(fixed):
            for f in sorted(os.listdir(fixed)):
                if f.endswith('.json'):
                    scen.append(json.load(open(os.path.join(fixed, f))))
    # C17, single-pass clause: two requests for one bucket while the first pass has not registered yet
    gc2 = []
    if pid == 'C17' and not replay:
        import fam_conc
        gc2 = fam_conc.gc2_scenarios()
    elif pid == 'C17' and replay and scen[0].get('family') == 'gc2':
        gc2, scen = scen, []
    # C01 / C02 are also observed where the property says clients observe them: gobeansdb.StorageClient
    # (Set / Delete / Incr / Get / GetMulti / "?key" / "??key"), same scenarios, same trace specification
    client = []
    if pid in ('C01', 'C02') and not replay:
        client = client_scenarios(scen, {'quick': 120, 'thorough': 2000}[tier])
    elif replay and scen and scen[0].get('family') == 'client':
        client, scen = scen, []
    # ---- (c) run on the real code + validate
    tb = V.build_harness(work)
    traces, crashed = V.run_scenarios(tb, scen + gc2, work) if scen + gc2 else ({}, [])
    res['violations'] += V.crash_verdicts(crashed, pid)
    if client:
        tbc = V.build_harness(work, 'gobeansdb')
        cw = os.path.join(work, 'client')
        os.makedirs(cw, exist_ok=True)
        ctr, ccr = V.run_scenarios(tbc, client, cw, pkg='gobeansdb', runname='TestVerifClient')
        res['violations'] += V.crash_verdicts(ccr, pid)
        traces.update(ctr)
        scen = scen + client
        log('client level: %d scenarios through StorageClient' % len(client))
    if gc2:
        import fam_conc
        bad2, n2 = fam_conc.check_gc2({s['id']: traces.get(s['id'], []) for s in gc2})
        for sid, n, chk in bad2:
            res['violations'].append({'sid': sid, 'n': n, 'check': chk, 'kf': ''})
        log('single-pass clause: %d double requests, %d violations' % (n2, len(bad2)))
    allev = []
    per = {}
    for s in scen:
        if s['id'] in traces:
            l1 = V.normalize_l1(traces[s['id']])
            per[s['id']] = l1
            allev += l1
    r = V.tlc_validate(allev, os.path.join(work, 'tv'))
    if not r['accepted']:
        raise V.Inconclusive('trace validation did not consume the whole trace: %s\n%s' % (
            r.get('tlc_error'), r['out'][-1500:]))
    mine = CHECKS[pid]
    byid = {s['id']: s for s in scen + gc2}
    for sid, n, chk in r['bad']:
        if not chk.startswith(mine):
            continue
        name, _, kf = chk.partition('!')
        res['violations' if not kf else 'known'].append({'sid': sid, 'n': n, 'check': name, 'kf': kf})
    res['drift'] = r['drift']
    res['lead'] += [x for x in r['lead']]
    nt = set()
    for s in scen:
        if s['id'] in per and nontrivial(pid, s, per[s['id']]):
            nt.add(json.dumps(s['ops'], sort_keys=True))
    sample = scen[0]
    res['coverage'] = {
        'states': states, 'transitions': trans,
        'traces_validated_against_impl': len(per),
        'samples': [{'scenario': sample, 'trace_head': per.get(sample['id'], [])[:6]}],
        'evaluations': len(scen), 'distinct_nontrivial': len(nt),
        'rule': 'seeded random op sequences + fixed regression scenarios executed on the real store; '
                'non-trivial per DESIGN.md section 6 (' + pid + ')',
        'events_validated': len(allev), 'trace_states': r['states'],
        'mc_runs': mcruns, 'exhaustive': bool(mcruns) and all(not m['timeout'] for m in mcruns),
        'drift': len(r['drift']), 'model_only_leads': len(res['lead']),
    }
    res['scen'] = byid
    res['wall'] = time.time() - t0
    return res
