"""Protocol family (C11, C12): Proto.tla model checking + conformance of the real memcached front end.

  MC        MC_Proto: every script of <= N abstract commands, connection stages interleaved, shared tokens,
            ownership ghosts of every value buffer; findings as-is must be REDISCOVERED by the invariants
  generate  the abstract alphabet is printed by TLC from MC_Proto.tla (the specification is the source of the
            classes); python only picks concrete bytes per class (seeded) and a delivery mode
  execute   harness/gobeansdb/zz_verif_proto_test.go: real HStore + StorageClient + ServerConn (net.Pipe / TCP)
  validate  Trace_Proto.tla: one event per script; TLC computes the expected replies / counters and accumulates
            failures; python never decides anything
"""
import json, os, random, re, time, hashlib, binascii, copy, shutil
import vcommon as V

READY = True
PROPS = {
 'C11': dict(level='model_checking', design='DESIGN.md 6 C11, A.7; notes/fam_proto.md',
   text='Proto.tla transcribes Request.Read + ServeOnce + Request.Process + StorageClient as a decision procedure over abstract '
        'commands (verb x key class x number class x size class x content x noreply x framing fault); MC_Proto checks every script '
        'of <= 2 (thorough: 3 on the core alphabet) commands with all stage interleavings (one reply per command, no wedge = no '
        'deadlock). Every abstract command, ordered pairs, seeded longer scripts, byte-at-a-time delivery and truncation at every '
        'byte are concretised (seeded bytes per class) and sent to the REAL ServerConn.Serve loop over net.Pipe and loopback TCP, '
        'backed by the real gobeansdb.StorageClient and store.HStore; the replies, parsed by an independent grammar, are validated '
        'by TLC against the specification (Trace_Proto.tla), including a probe on a second connection after each faulty script, '
        'byte equality of values, and Request/Response Write->Read round trips.',
   note='Trusted: TLC, the harness reply parser and its quiescence detection (server blocked in Read with every byte delivered: '
        'a fact, not a delay; a Hang needs the deadline and is re-run alone before it counts). Grammar classes, not all byte '
        'strings; RECV/PROCESS timeouts disabled (TimeoutMS = 1 day); noreply on verbosity/flush_all is outside the quantifier.',
   technique='TLA+ model checking (TLC) + TLC validation of recorded executions of the real server loop'),
 'C12': dict(level='model_checking', design='DESIGN.md 6 C12; notes/fam_proto.md',
   text='Proto.tla carries an ownership ghost for every value buffer (parser, client, wbuf, reader, response, freed) and the request '
        'tokens; the four published counters are derived from ownership; MC_Proto checks C12_Zero / C12_Tokens / C12_NoDoubleFree / '
        'C12_NoNegative over all scripts, stage interleavings of two connections sharing max_req = 1, client EOF inside a body. On the '
        'real code every scenario of C11 (1..8 connections, max_req 1/2/16, sizes on both sides of body_c_str and of the compression '
        'threshold, reads from write buffer and from data files, drops at every byte) ends with all connections closed and the store '
        'closed (flush forced); cmem.DBRL, len(RL.Chan) and the complete hook ledger of AddSize/SubSize/AddCount/SubCount, '
        'C alloc/free and token get/put are validated by TLC: counters zero, tokens back, no free of a dead address, no negative balance.',
   note='The store is closed at each quiescent point (HStore.flushdatas is not exported; Close flushes every chunk). Leaks of listed '
        'findings are matched EXACTLY against the as-is model before they are demoted; time-dependent paths are out of scope.',
   technique='TLA+ model checking (TLC) + TLC validation of recorded counter ledgers of the real server'),
}

ASSUMPTIONS = [
    'config.MCConf.TimeoutMS = 1 day: RECV_TIMEOUT / PROCESS_TIMEOUT paths never fire (time-dependent paths out of scope)',
    'no background Flusher / HintDumper goroutine: write buffers are flushed only by HStore.Close at the quiescent point',
    'byte streams are grammar-based classes with seeded concretisations, not all byte strings (DESIGN.md section 7)',
    'client flags avoid the server-reserved bit except in the class that targets it (F10-resvflag)',
]

KEYNAMES = ['kh', 'km', 'kt', 'kl'] + ['k%d' % i for i in range(1, 25)]
VERBS = {'get', 'gets', 'set', 'add', 'replace', 'cas', 'append', 'prepend', 'incr', 'decr', 'delete', 'stats', 'version',
         'verbosity', 'flush_all', 'quit'}
STORE = ('set', 'add', 'replace', 'cas', 'append', 'prepend')


# ----------------------------------------------------------------------------- hashing (routing of keys to buckets)
def fnv1a(data):
    h = 0x811c9dc5
    for b in data:
        sb = b - 256 if b >= 128 else b
        h ^= (sb & 0xffffffff)
        h = (h * 0x01000193) & 0xffffffff
    return h


def murmur3(data, seed=0):
    c1, c2, h, n = 0xcc9e2d51, 0x1b873593, seed, len(data)
    for i in range(0, n - n % 4, 4):
        k = int.from_bytes(data[i:i + 4], 'little')
        k = (k * c1) & 0xffffffff
        k = ((k << 15) | (k >> 17)) & 0xffffffff
        k = (k * c2) & 0xffffffff
        h ^= k
        h = ((h << 13) | (h >> 19)) & 0xffffffff
        h = (h * 5 + 0xe6546b64) & 0xffffffff
    k, t = 0, data[n - n % 4:]
    if len(t) >= 3:
        k ^= t[2] << 16
    if len(t) >= 2:
        k ^= t[1] << 8
    if len(t) >= 1:
        k ^= t[0]
        k = (k * c1) & 0xffffffff
        k = ((k << 15) | (k >> 17)) & 0xffffffff
        k = (k * c2) & 0xffffffff
        h ^= k
    h ^= n
    h ^= h >> 16
    h = (h * 0x85ebca6b) & 0xffffffff
    h ^= h >> 13
    h = (h * 0xc2b2ae35) & 0xffffffff
    h ^= h >> 16
    return h


def khash(key):
    return (fnv1a(key) << 32) | murmur3(key)


# ----------------------------------------------------------------------------- the alphabet (from the specification)
MC_TEMPLATE = '''SPECIFICATION MCSpec
CONSTANTS
  KeyNames = {{"kh", "km", "kt", "kl"}}
  Conns = {Conns}
  MaxReq = {MaxReq}
  FAsIs = {FAsIs}
  Mutants = {Mutants}
  MaxLen = {MaxLen}
  Alpha = "{Alpha}"
  OomGates = {OomGates}
  PrintAlpha = {PrintAlpha}
INVARIANTS {INVS}
CHECK_DEADLOCK TRUE
'''
MC_DEFAULTS = dict(Conns='{"c1"}', MaxReq=1, FAsIs='{}', Mutants='{}', MaxLen=1, Alpha='full', OomGates='{FALSE}', PrintAlpha='FALSE',
                   INVS='C12_Tokens C12_Zero C12_NoDoubleFree C12_NoNegative C11_OneReply')


JAVA = ['-Xss256m']


def mc_cfg(over):
    d = dict(MC_DEFAULTS)
    d.update(over)
    return MC_TEMPLATE.format(**d)


def tla_set(xs):
    return '{' + ', '.join('"%s"' % x for x in sorted(xs)) + '}'


def unescape_tla(s):
    return s.encode('utf8').decode('unicode_escape') if '\\' in s else s


def get_alphabet(work):
    r = V.tlc_run('MC_Proto', mc_cfg(dict(MaxLen=0, PrintAlpha='TRUE')), os.path.join(work, 'alpha'), workers=1, timeout=300, java=JAVA)
    m = re.search(r'<<"VERIF-ALPHABET", "(.*)">>', r['out'])
    if not m or r['error']:
        raise V.Inconclusive('cannot obtain the alphabet from MC_Proto: %s\n%s' % (r['error'], r['out'][-1500:]))
    alpha = json.loads(unescape_tla(m.group(1)))
    alpha.sort(key=lambda c: json.dumps(c, sort_keys=True))
    return alpha, r


# ----------------------------------------------------------------------------- concretisation
UP = b'ABCDEFGHIJKLMNOPQRSTUVWXYZ0123456789_-+=/.:;,!#$%&()*<>[]^{|}~'
KEYCH = b'abcdefghijklmnopqrstuvwxyzABCDEFGHIJKLMNOPQRSTUVWXYZ0123456789_-.:/#%!=+,;~^|<>()[]{}$&*"\'`\\'
HEX = b'0123456789abcdef'


class Ctx:
    """per-scenario concretisation context: one concrete byte string per (class, name)"""

    def __init__(self, rng, conf):
        self.rng = rng
        self.conf = conf
        self.keys = {}      # id -> bytes
        self.byid = {}      # hex(bytes) -> id
        self.bodies = {}    # sha1-8 hex -> vid
        self.served = conf['served'][0]
        self.unserved = [b for b in range(16) if b not in conf['served']]

    def rand_key(self, bucket, minlen=1, maxlen=40):
        rng = self.rng
        if self.conf.get('shortkeys') and minlen < 200:
            maxlen = 6
        while True:
            n = rng.choice([rng.randint(minlen, max(minlen, min(maxlen, 12))), rng.randint(minlen, maxlen), rng.randint(minlen, maxlen)])
            if rng.random() < 0.04 and minlen < 200 and not self.conf.get('shortkeys'):
                n = rng.choice([248, 232, 233])      # "??" + key must stay within max_key_len
            k = bytes(rng.choice(KEYCH) for _ in range(n))
            if k[0] in b'@?' or k[0] <= 32:
                continue
            if bucket is None or (khash(k) >> 60) == bucket:
                return k

    def key(self, kr):
        kid = kr['id']
        if kid in self.keys:
            return self.keys[kid]
        rng, cls, name = self.rng, kr['cls'], kr['name']
        if cls == 'plain' and name.startswith('kl'):
            k = self.rand_key(self.served, 233, 248)       # record of an empty value is still > 256 bytes
        elif cls == 'plain':
            k = self.rand_key(self.served)
        elif cls == 'unserved':
            k = self.rand_key(rng.choice(self.unserved))
        elif cls == 'ctrl':
            base = bytearray(self.rand_key(None, 2, 20))
            base[rng.randrange(1, len(base))] = rng.choice([1, 2, 7, 8, 9, 11, 12, 27, 31, 127])
            k = bytes(base)
        elif cls == 'long':
            k = bytes(rng.choice(KEYCH[:62]) for _ in range(rng.choice([251, 252, 300, 1000])))
        elif cls == 'dir':
            n = rng.choice([0, 1, 1, 2, 3, 8, 15, 16])
            first = bytes([HEX[rng.choice([self.served, self.served, rng.randrange(16)])]]) if n else b''
            k = b'@' + first + bytes(rng.choice(HEX) for _ in range(max(0, n - 1)))
        elif cls == 'dir17':
            k = b'@' + bytes(rng.choice(HEX) for _ in range(rng.choice([17, 17, 18, 24, 40])))
        elif cls == 'dirbad':
            n = rng.randint(1, 16)
            s = bytearray(rng.choice(HEX) for _ in range(n))
            s[rng.randrange(n)] = rng.choice(b'ghxyzGXZ_-.')
            if s.startswith(b'collision_'):
                s[0] = ord('x')
            k = b'@' + bytes(s)
        elif cls == 'hash':
            k = b'@@' + (b'%016x' % khash(self.key(dict(cls='plain', name=name, id='plain:' + name))))
        elif cls == 'hashmiss':
            k = b'@@' + bytes([HEX[rng.choice([self.served, rng.choice(self.unserved)])]]) + bytes(rng.choice(HEX) for _ in range(15))
        elif cls == 'hashbad':
            s = bytearray(rng.choice(HEX) for _ in range(16))
            s[rng.randrange(16)] = rng.choice(b'ghxyzGXZ_-.')
            k = b'@@' + bytes(s)
        elif cls == 'hashlen':
            n = rng.choice([0, 1, 8, 15, 17, 18, 32])
            k = b'@@' + bytes(rng.choice(HEX) for _ in range(n))
        elif cls in ('meta', 'meta2'):
            k = (b'?' if cls == 'meta' else b'??') + self.key(dict(cls='plain', name=name, id='plain:' + name))
        elif cls == 'metabad':
            k = rng.choice([b'?@', b'?@abc', b'??@5', b'?a\x01b', b'??\x7f'])
        elif cls == 'q':
            k = b'?'
        elif cls == 'qq':
            k = b'??'
        elif cls == 'coll':
            k = b'@collision_' + bytes(rng.choice(HEX) for _ in range(rng.randint(1, 4)))
        elif cls == 'collall':
            k = b'@collision_all_' + bytes(rng.choice(HEX) for _ in range(rng.randint(1, 2)))
        else:
            raise ValueError('key class ' + cls)
        # distinct classes must stay distinct byte strings
        if binascii.hexlify(k).decode() in self.byid:
            if cls in ('q', 'qq'):
                pass
            else:
                return self.key(kr)
        self.keys[kid] = k
        self.byid[binascii.hexlify(k).decode()] = kid
        return k

    def body(self, n, content):
        rng = self.rng
        if n == 0:
            return b''
        if content == 'cmd':
            kh = self.key(dict(cls='plain', name='kh', id='plain:kh'))
            head = b'delete ' + kh + b'\r\n'
            return (head + b'X' * n)[:n] if n > len(head) else b'X' * n
        if rng.random() < 0.5:
            pat = bytes(rng.choice(UP) for _ in range(rng.randint(1, 6)))
            b = bytearray((pat * (n // len(pat) + 1))[:n])     # compressible
        else:
            b = bytearray(rng.choice(UP) for _ in range(n))     # not compressible
        if content == 'crlf' and n >= 2:
            for _ in range(rng.randint(1, 3)):
                i = rng.randrange(0, n - 1)
                b[i:i + 2] = b'\r\n'
            if rng.random() < 0.3:
                b[n - 2:n] = b'\r\n'
        elif content == 'nul':
            for _ in range(rng.randint(1, 4)):
                b[rng.randrange(n)] = rng.choice([0, 0, 0, 1, 0x7f, 0x80, 0xff, 0x0a, 0x0d])
        b = bytes(b)
        if b[:2] == b'\r\n' and content != 'crlf':
            b = b'Z' + b[1:]
        return b

    def vid(self, body):
        h = hashlib.sha1(body).hexdigest()[:16]
        if re.fullmatch(rb'-?\d+', body):
            v = 'n' + body.decode()
        else:
            v = 'b' + h[:10]
        self.bodies[h] = v
        return v


def size_of(rng, sz, conf, content):
    bc, bb, bm = conf['body_c'], conf['body_big'], conf['body_max']
    lo = 4 if content in ('crlf',) else 1
    if sz == 'z':
        return 0
    if sz == 'small':
        return rng.choice([lo, rng.randint(lo, bc - 1), rng.randint(lo, bc - 1), bc - 1])
    if sz == 'eqc':
        return bc
    if sz == 'gtc':
        return rng.choice([bc + 1, rng.randint(bc + 1, bb), bb])
    if sz == 'big':
        return rng.choice([bb + 1, rng.randint(bb + 1, bm), bm])
    if sz == 'huge':
        return rng.choice([bm + 1, rng.randint(bm + 1, bm + 300)])
    return 0


def sp(rng):
    return b' ' * rng.choice([1, 1, 1, 1, 2, 3])


def concretise(cmd, ctx, last=False):
    """abstract command -> (bytes, completed abstract command with the concrete lengths / ids)"""
    rng, conf = ctx.rng, ctx.conf
    c = copy.deepcopy(cmd)
    verb, fault, nf, nc = c['verb'], c['fault'], c['nf'], c['nc']
    keys = [ctx.key(kr) for kr in c['keys']]
    for kr, kb in zip(c['keys'], keys):
        kr['klen'] = len(kb)
    eol = b'\n' if fault == 'lfonly' else b'\r\n'
    body = b''
    tail = b''

    def badnum(cl, neg=None):
        if cl == 'nonnum':
            return rng.choice([b'x', b'1a', b'0x10', b'--1', b'1.5', b'1e3', b'a'])
        if cl == 'over':
            return rng.choice([b'9223372036854775808', b'99999999999999999999', b'-9223372036854775809'])
        return neg

    if verb in STORE:
        n = size_of(rng, c['size'], conf, c['content'])
        if fault == 'bodyshort' and n < 2:
            n = 2
        flag = rng.choice([0, 0, 1, 3, rng.randrange(0, 65536), rng.randrange(0, 65536), (rng.randrange(1, 0x3fff) << 17) | rng.randrange(16)])
        if flag == 516 or flag & 0x10000:
            flag = 5
        flags = b'%d' % flag
        exp = b'0'
        nbytes = b'%d' % n
        if nf == 'flags':
            if nc == 'neg':
                flags = b'%d' % (flag - (1 << 32))
            elif nc == 'resv':
                flag = 0x10000 | (flag & 0xffff)
                flags = b'%d' % flag
            else:
                flags = badnum(nc)
        elif nf == 'exptime':
            if nc == 'neg':
                exp = b'%d' % -rng.choice([1, 1, 2, 7, 1000])
            elif nc == 'rev':
                exp = b'%d' % c['rev']
            else:
                exp = badnum(nc)
        elif nf == 'bytes':
            if nc == 'neg':
                nbytes = b'%d' % -rng.choice([1, 1, 5, 1000])
            elif nc == 'negwrap':
                nbytes = b'%d' % (n - (1 << 32))
            else:
                nbytes = badnum(nc)
        body = ctx.body(n, c['content'])
        c['n'], c['flag'], c['vid'], c['ccomp'] = n, flag, ctx.vid(body), bool(flag & 0x10)
        toks = [verb.encode(), keys[0], flags, exp, nbytes]
        if verb == 'cas':
            toks.append(b'xx' if nf == 'cas' else b'%d' % rng.randrange(0, 1 << 31))
        if fault == 'tokens':
            toks = toks[:4]
        if c['noreply']:
            toks.append(b'noreply')
        if fault == 'extra':
            if not c['noreply'] and rng.random() < 0.5:
                toks.append(b'foo')                      # the token after <bytes> (after <cas>) is not "noreply"
            else:
                toks += [b'x'] * max(1, 8 - len(toks))    # more than 7 tokens
        head = b''
        for i, t in enumerate(toks):
            head += (sp(rng) if i else b'') + t
        head += rng.choice([b'', b'', b' ']) + eol
        if fault == 'badterm':
            tail = rng.choice([b'XY', b'Q\r\n', b'XYZ\r\n', b'\n\r', b'\r\r\n'])
            wire = head + body + tail
        elif fault == 'bodyshort':
            wire = head + body[:n - 2] + b'\r\n'
        else:
            wire = head + body + b'\r\n'
        hl = len(head)
    else:
        toks = []
        if verb in ('get', 'gets'):
            toks = [verb.encode()] + ([] if fault == 'tokens' else keys)
        elif verb == 'delete':
            toks = [b'delete'] + ([] if fault == 'tokens' else [keys[0]])
            if fault != 'tokens' and rng.random() < 0.2:
                toks.append(b'0')
            if c['noreply']:
                toks.append(b'noreply')
            if fault == 'extra':
                toks = [b'delete', keys[0], b'0', b'noreply', b'x']
            if fault == 'tok4':
                toks = [b'delete', keys[0]] + rng.choice([[b'0', b'x'], [b'x'], [b'noreply', b'0']])
        elif verb in ('incr', 'decr'):
            d = c['delta']
            if nf == 'delta':
                ds = badnum(nc)
            else:
                ds = b'%d' % d
            toks = [verb.encode(), keys[0]] + ([] if fault == 'tokens' else [ds])
            if c['noreply']:
                toks.append(b'noreply')
            if fault == 'extra':
                toks = [verb.encode(), keys[0], ds, b'2', b'3']
            if fault == 'tok4':
                toks = [verb.encode(), keys[0], ds, rng.choice([b'x', b'0', b'NOREPLY', b'noreply1'])]
        elif verb == 'stats':
            toks = [b'stats'] + rng.choice([[], [], [b'cmd_get'], [b'curr_items', b'nosuch']])
        elif verb in ('version', 'verbosity', 'flush_all', 'quit', 'optimize_stat'):
            toks = [verb.encode()] + ([b'1'] if verb == 'verbosity' and rng.random() < 0.5 else [])
        elif verb == 'unknown':
            toks = rng.choice([[b'touch', b'k', b'0'], [b'gc', b'@5'], [b'GET', b'k'], [b'foo'], [b'get\tk'], [b'sets', b'k', b'0', b'0', b'1'],
                               [b'optimize_stats'], [b'shutdown'], [b'gat', b'0', b'k'], [b'config', b'get', b'x']])
        elif verb == 'garbage':
            n = rng.randint(1, 60)
            g = bytearray(rng.randrange(256) for _ in range(n))
            for i in range(n):
                if g[i] == 10:
                    g[i] = 11
            while g[:1] in (b'\r', b' ') or bytes(g).split(b' ')[0] in [v.encode() for v in VERBS]:
                g = bytearray(b'\x01') + g
            if g[-1:] == b'\r':
                g += b'\x02'
            if not bytes(g).strip(b' '):
                g = bytearray(b'\x03')
            g[0] = g[0] if g[0] not in b'abcdefghijklmnopqrstuvwxyz' else 0x81
            toks = [bytes(g)]
        elif verb == 'empty':
            toks = [rng.choice([b'', b'', b' ', b'   '])]
        if fault == 'extra' and verb in ('stats', 'version', 'verbosity', 'flush_all', 'quit'):
            toks += [b'x', b'y']
        line = b''
        for i, t in enumerate(toks):
            line += (sp(rng) if i else b'') + t
        if verb not in ('garbage', 'empty'):
            line = rng.choice([b'', b'', b' ']) + line + rng.choice([b'', b'', b' '])
        wire = line + eol
        hl = len(wire)
    tl = len(wire)
    got = tl
    if c['cut'] == 'line':
        got = rng.randint(1, hl - 1) if hl > 1 else 0
    elif c['cut'] == 'body':
        got = rng.randint(hl, tl - 1)
    c['hl'], c['tl'], c['got'] = hl, tl, got
    return wire, c


# ----------------------------------------------------------------------------- scenarios
CONFS = [dict(body_c=100, body_big=300, body_max=600), dict(body_c=64, body_big=512, body_max=1024),
         dict(body_c=300, body_big=400, body_max=700)]


def base_cmd(verb, **kw):
    c = dict(verb=verb, keys=[], nf='none', nc='ok', size='na', n=0, content='plain', vid='', flag=0, ccomp=False, rev=0, delta=0,
             noreply=False, fault='none', cut='none', hl=0, tl=0, got=0)
    c.update(kw)
    return c


def kr(cls, name=''):
    return dict(cls=cls, name=name, id=cls + ':' + name, klen=0)


def rename(cmd, m):
    """the same abstract command on another connection's private keys"""
    c = copy.deepcopy(cmd)
    for k in c['keys']:
        if k['name'] in m:
            k['name'] = m[k['name']]
        k['id'] = k['cls'] + ':' + k['name']
    return c


def preload_cmds(names=('kh', 'kt'), numeric=False):
    """kh becomes a live value, kt a tombstone (km stays absent)"""
    kh, kt = names
    out = [base_cmd('set', keys=[kr('plain', kh)], size='small'),
           base_cmd('set', keys=[kr('plain', kt)], size='small'),
           base_cmd('delete', keys=[kr('plain', kt)])]
    return out


def is_faulty(c):
    return (c['fault'] != 'none' or c['nc'] not in ('ok', 'rev') or c['cut'] != 'none' or c['size'] == 'huge'
            or c['verb'] in ('unknown', 'garbage', 'empty', 'append', 'prepend', 'decr')
            or any(k['cls'] not in ('plain', 'unserved', 'meta', 'meta2', 'hash', 'dir', 'coll') for k in c['keys']))


def valid_script(cmds):
    for i, c in enumerate(cmds[:-1]):
        if c['cut'] != 'none':
            return False
        if c['fault'] == 'bodyshort' and cmds[i + 1]['verb'] in ('empty', 'garbage'):
            return False
    return True


def hx(b):
    return binascii.hexlify(b).decode()


def make_scenario(sid, rng, script, mode='pipe', conf_over=None, probe=None, restart=False, others=None, stall=False,
                  preload=True, close_first=False):
    """script: list of abstract commands for connection c1.  mode: pipe | byte | trunc:<n> | tcp.
    others: {conn name: script} run concurrently with c1 (private keys).  restart: close/reopen the store after the
    preload, so that reads come from the data files."""
    conf = dict(buckets=16, served=[rng.randrange(16)], max_req=rng.choice([1, 2, 16]), flush_max=10 ** 9,
                transport='tcp' if mode == 'tcp' else 'pipe', deadline_ms=10000)
    conf.update(rng.choice(CONFS))
    if conf_over:
        conf.update(conf_over)
    ctx = Ctx(rng, conf)
    conns, steps, plan = [], [], []

    def build(name, cmds, cutok=True):
        wire, out = b'', []
        for i, c in enumerate(cmds):
            w, cc = concretise(c, ctx, last=(i == len(cmds) - 1))
            wire += w[:cc['got']]
            out.append(cc)
        conns.append(dict(name=name, cmds=out, total=len(wire)))
        plan.append(out)
        return wire

    if preload:
        pre = preload_cmds()
        if others:
            for i in range(len(others)):
                pre += preload_cmds(('k%d' % (3 * i + 1), 'k%d' % (3 * i + 3)))
        w0 = build('c0', pre)
        steps += [dict(op='send', c='c0', hex=hx(w0)), dict(op='wait', c='c0'), dict(op='close', c='c0')]
        if restart:
            steps.append(dict(op='restart'))
    w1 = build('c1', script)
    bytewise = mode == 'byte'
    if others:
        par = [dict(c='c1', hex=hx(w1), bytewise=bytewise)]
        for i, (nm, sc) in enumerate(sorted(others.items())):
            par.append(dict(c=nm, hex=hx(build(nm, sc)), bytewise=(rng.random() < 0.3)))
        steps.append(dict(op='par', par=par))
        for p in par:
            steps.append(dict(op='close', c=p['c']))
    elif stall:
        # c1 stops after the header of its first body command (token held), c2 sends a complete script, c1 resumes
        first = conns[-1]['cmds'][0]
        cutat = first['hl']
        w2 = build('c2', probe or [base_cmd('get', keys=[kr('plain', 'kh')])])
        steps += [dict(op='send', c='c1', hex=hx(w1[:cutat])), dict(op='wait', c='c1'),
                  dict(op='send', c='c2', hex=hx(w2)),
                  dict(op='send', c='c1', hex=hx(w1[cutat:])), dict(op='wait', c='c1'), dict(op='wait', c='c2'),
                  dict(op='close', c='c1'), dict(op='close', c='c2')]
        probe = None
    else:
        steps += [dict(op='send', c='c1', hex=hx(w1), bytewise=bytewise)]
        if mode != 'tcp':
            steps.append(dict(op='wait', c='c1'))
        if probe:
            # a client stalled inside a command keeps its request token (by design): with max_req = 1 the probe
            # would wait for it, so such a connection is ended first
            incomplete = script and (script[-1]['cut'] != 'none' or script[-1]['fault'] == 'bodyshort')
            if mode == 'tcp' or incomplete or close_first:
                steps.append(dict(op='close', c='c1'))
            w2 = build('c2', probe)
            conns[-1]['probe'] = True
            steps += [dict(op='send', c='c2', hex=hx(w2))] + ([] if mode == 'tcp' else [dict(op='wait', c='c2')]) + [dict(op='close', c='c2')]
        steps.append(dict(op='close', c='c1'))
    return dict(id=sid, family='proto', kind='proto', conf=conf, conns=conns, steps=steps, plan=plan,
                oomgate=conf['flush_max'] == 0, keymap=ctx.byid, bodies=ctx.bodies, mode=mode, restart=restart)


def truncations(sid, rng_seed, script, every=1, **kw):
    """one scenario per cut position of the script's byte stream (the same concretisation for all cuts)"""
    out = []
    kw = dict(kw, close_first=True)
    base = make_scenario(sid, random.Random(rng_seed), script, **kw)
    total = [c for c in base['conns'] if c['name'] == 'c1'][0]['total']
    blob = json.dumps(base)
    for cut in range(1, total, every):
        sc = json.loads(blob)
        sc['id'] = '%s-t%d' % (sid, cut)
        c1 = [c for c in sc['conns'] if c['name'] == 'c1'][0]
        # per command: how much of it is delivered
        off, cmds = 0, []
        for c in c1['cmds']:
            if off >= cut:
                break
            c['got'] = min(c['tl'], cut - off)
            if c['got'] < c['tl']:
                c['cut'] = 'line' if c['got'] < c['hl'] else 'body'
            cmds.append(c)
            off += c['tl']
        c1['cmds'] = cmds
        c1['total'] = cut
        sc['plan'] = [c['cmds'] for c in sc['conns']]
        for st in sc['steps']:
            if st.get('op') == 'send' and st.get('c') == 'c1':
                st['hex'] = st['hex'][:2 * cut]
        sc['mode'] = 'trunc'
        out.append(sc)
    return out


RT_ITEMS = None


def roundtrip_scenario(sid, rng):
    body = bytes(rng.choice(UP) for _ in range(rng.randint(1, 50))) + b'\r\n\x00' + b'Q'
    k = 'k' + ''.join(chr(rng.choice(KEYCH[:62])) for _ in range(rng.randint(1, 20)))
    items = []
    for verb in ('get', 'gets', 'delete', 'quit', 'version', 'stats', 'flush_all', 'verbosity'):
        keys = [k] if verb in ('get', 'gets', 'delete') else ([k, k + 'x'] if verb == 'gets' else [])
        if verb == 'verbosity':
            keys = ['1']
        items.append(dict(t='req', verb=verb, keys=keys, noreply=(verb == 'delete' and rng.random() < 0.5)))
    items.append(dict(t='req', verb='get', keys=[k, k + 'y', k + 'z']))
    for verb in ('set', 'add', 'replace', 'append', 'prepend', 'cas'):
        items.append(dict(t='req', verb=verb, keys=[k], flag=rng.randrange(65536), exptime=rng.randrange(100),
                          cas=rng.randrange(1, 1 << 30), body=hx(body), noreply=rng.random() < 0.5))
    for verb in ('incr', 'decr'):
        items.append(dict(t='req', verb=verb, keys=[k], body=hx(b'%d' % rng.randrange(1000)), noreply=rng.random() < 0.5))
    for status in ('STORED', 'NOT_STORED', 'DELETED', 'NOT_FOUND', 'OK', 'END'):
        items.append(dict(t='resp', status=status))
    for status in ('ERROR', 'CLIENT_ERROR', 'SERVER_ERROR'):
        items.append(dict(t='resp', status=status, msg='' if status == 'ERROR' else 'oops'))
    items.append(dict(t='resp', status='VERSION', msg='1.2.3'))
    items.append(dict(t='resp', status='INCR', msg='%d' % rng.randrange(100000)))
    items.append(dict(t='resp', status='STAT', msg='STAT cmd_get 5\r\nSTAT pid 7\r\n'))
    items.append(dict(t='resp', status='VALUE', withcas=False, items=[dict(keys=[k], flag=rng.randrange(65536), body=hx(body))]))
    items.append(dict(t='resp', status='VALUE', withcas=True,
                      items=[dict(keys=[k], flag=3, cas=77, body=hx(body)), dict(keys=[k + 'b'], flag=0, cas=1, body=hx(b''))]))
    conf = dict(buckets=16, served=[0], max_req=4, flush_max=10 ** 9, transport='pipe', deadline_ms=10000)
    conf.update(CONFS[0])
    return dict(id=sid, family='proto', kind='rt', conf=conf, conns=[], steps=[], rt=items, plan=[], oomgate=False,
                keymap={}, bodies={}, mode='rt', restart=False)


# ----------------------------------------------------------------------------- normalisation (pure reformatting)
CMD_FIELDS = ('verb', 'nf', 'nc', 'n', 'content', 'vid', 'flag', 'ccomp', 'rev', 'delta', 'noreply', 'fault', 'hl', 'tl', 'got')


def norm_cmd(c):
    d = {f: c[f] for f in CMD_FIELDS}
    d['keys'] = [dict(cls=k['cls'], name=k['name'], id=k['id'], klen=int(k.get('klen', 0))) for k in c['keys']]
    return d


def norm_reply(r, sc):
    out = dict(t=r['t'], items=[], v=0, vbig=False)
    if r['t'] == 'VALUES':
        for it in r['items']:
            kid = sc['keymap'].get(it['kx'], '?')
            cls = kid.split(':')[0]
            fl = int(it['flag']) if len(it['flag']) < 12 else -1
            x = dict(id=kid, vid='opaque', flag=fl if 0 <= fl < (1 << 31) else -1, cas=bool(it['cas']),
                     mver=0, mflag=0, mlen=0)
            if cls == 'plain':
                txt = it.get('text')
                if it['h'] in sc['bodies']:
                    x['vid'] = sc['bodies'][it['h']]
                elif txt is not None and re.fullmatch(r'-?\d+', txt):
                    x['vid'] = 'n' + txt
                else:
                    x['vid'] = 'unknown:' + it['h']
            elif cls in ('meta', 'meta2'):
                f = (it.get('text') or '').split()
                try:
                    x['vid'], x['mver'], x['mflag'], x['mlen'] = 'meta', int(f[0]), int(f[2]), int(f[3])
                    if abs(x['mflag']) >= 1 << 31:
                        x['mflag'] = -1
                except Exception:
                    x['vid'] = 'badmeta'
            out['items'].append(x)
    elif r['t'] == 'NUM':
        try:
            v = int(r['msg'])
        except Exception:
            v = None
        if v is None or abs(v) >= (1 << 31):
            out['vbig'] = True
        else:
            out['v'] = v
    return out


LED = {'rl.size': 's', 'rl.count': 'c'}
CLAMP = 10 ** 7      # TLC integers are 32-bit; garbage sizes (F10-resvflag) are clamped and the event is marked


def clamp(v, mark):
    if abs(v) > CLAMP:
        mark[0] = True
        return CLAMP if v > 0 else -CLAMP
    return v


def norm_events(sc, events):
    out = []
    rt = []
    hooks = []
    addr = {}
    clamped = [False]
    probes = {c['name'] for c in sc.get('conns', []) if c.get('probe')}
    cmds_of = {c['name']: c['cmds'] for c in sc.get('conns', [])}
    for e in events:
        a, n = e['a'], e['n']
        if a == 'Reset':
            cf = sc['conf']
            out.append(dict(a='Reset', n=n, sid=sc['id'],
                            conf=dict(oomgate=bool(sc.get('oomgate')), bodyc=cf['body_c'], bodybig=cf['body_big'],
                                      bodymax=cf['body_max'], maxreq=cf['max_req']),
                            plan=[[norm_cmd(c) for c in p] for p in sc.get('plan', [])]))
        elif a == 'Script':
            cm = cmds_of.get(e['c'], [])
            out.append(dict(a='Script', n=n, c=e['c'], probe=e['c'] in probes, cmds=[norm_cmd(c) for c in cm],
                            replies=[norm_reply(r, sc) for r in e['replies']], closed=bool(e['closed']), hang=bool(e['hang'])))
        elif a == 'Hooks':
            hooks = []
            for h in e.get('ev') or []:
                p = h['p']
                if p in LED:
                    if h['lim'] != '?':
                        hooks.append(dict(k=h['lim'] + LED[p], d=clamp(int(h['d']), clamped)))
                elif p in ('c.alloc', 'c.free'):
                    i = addr.setdefault(h['addr'], len(addr) + 1)
                    hooks.append(dict(k='ca' if p == 'c.alloc' else 'cf', d=i))
                elif p in ('p.token.get', 'p.token.put'):
                    hooks.append(dict(k='tg' if p.endswith('get') else 'tp', d=int(h['t'])))
        elif a == 'Quiesce':
            c = {k: [clamp(int(x), clamped) for x in v] for k, v in e['cnt'].items()}
            out.append(dict(a='Quiesce', n=n, final=bool(e.get('final', True)), tokens=e['tokens'], maxreq=e['max_req'],
                            cnt=dict(gc=c['get'][0], gs=c['get'][1], sc=c['set'][0], ss=c['set'][1], ac=c['alloc'][0],
                                     **{'as': c['alloc'][1]}, fc=c['flush'][0], fs=c['flush'][1]),
                            led=hooks, clamped=clamped[0]))
            hooks = []
            clamped = [False]
        elif a == 'RT':
            name = ('req:' + e.get('verb', '')) if e['t'] == 'req' else ('resp:' + e.get('status', ''))
            rt.append(dict(name=name, ok=bool(e.get('same')) and 'panic' not in e))
        elif a == 'End':
            if rt:
                out.append(dict(a='RT', n=n, items=rt))
            out.append(dict(a='End', n=n))
        else:
            out.append(dict(a=a, n=n))
    return out


def validate(events, rundir, timeout=3000):
    os.makedirs(rundir, exist_ok=True)
    with open(os.path.join(rundir, 'trace.ndjson'), 'w') as f:
        for e in events:
            f.write(json.dumps(e) + '\n')
    listed = sorted({k['signature'] for k in V.load_known().get('known', []) if k['property'] in ('C11', 'C12')})
    cfg = open(os.path.join(V.SPEC, 'Trace_Proto.cfg')).read().replace('%KEYNAMES%', ', '.join('"%s"' % k for k in KEYNAMES))
    cfg = cfg.replace('%LISTED%', ', '.join('"%s"' % k for k in listed))
    if '\n' not in cfg:
        cfg += '\n'
    r = V.tlc_run('Trace_Proto', cfg, rundir, workers=1, timeout=timeout, java=JAVA)
    res = dict(bad=[], drift=[], lead=[], consumed=0, total=len(events), accepted=False, out=r['out'], wall=r['wall'],
               states=r['distinct'])
    m = re.findall(r'<<"VERIF-RESULT", "(.*)">>', r['out'])
    if m:
        try:
            d = json.loads(unescape_tla(m[-1]))
            res['bad'] = [tuple(x) for x in d.get('bad', [])]
            res['drift'] = [tuple(x) for x in d.get('drift', [])]
            res['lead'] = [tuple(x) for x in d.get('lead', [])]
            res['consumed'] = d.get('consumed', 0)
        except Exception as ex:
            res['parse_error'] = str(ex)
    res['accepted'] = res['consumed'] == len(events) and r['rc'] == 0 and not r['error'] and 'parse_error' not in res
    if not res['accepted']:
        res['tlc_error'] = r['error'] or res.get('parse_error') or ('rc=%s' % r['rc'])
    return res


# ----------------------------------------------------------------------------- model checking
ALLF = ['F2', 'F2-incr-get', 'F2-negrev', 'F2-unserved-del', 'F2-dupget', 'F10', 'F10-negbytes', 'F10-resvflag',
        'F10-stale-recvtime', 'F10-emptylong', 'F13']
EXPECT_ASIS = {'F2': ('C12_Zero',), 'F2-incr-get': ('C12_Zero',), 'F2-negrev': ('C12_Zero',),
               'F2-unserved-del': ('C12_Zero', 'C12_NoNegative'), 'F2-dupget': ('C12_Zero',), 'F10': ('C11_OneReply',),
               'F10-negbytes': ('C11_OneReply',), 'F10-resvflag': ('C11_OneReply', 'C12_Zero'),
               'F10-stale-recvtime': ('C11_OneReply',), 'F10-emptylong': ('C11_OneReply', 'C12_Zero'), 'F13': ('C11_OneReply',)}
ANYINV = ('C11_OneReply', 'C12_Zero', 'C12_NoNegative', 'C12_Tokens', 'C12_NoDoubleFree')


def mc_plan(tier):
    """(name, constants, expected) - expected None: every invariant must hold; a tuple: one of these must be violated"""
    two = dict(Conns='{"c1", "c2"}', MaxReq=1, Alpha='tok', INVS='C12_Tokens C12_Zero C12_NoDoubleFree C12_NoNegative')
    both = '{FALSE, TRUE}'
    if tier == 'quick':
        main = [('core-2', dict(MaxLen=2, Alpha='core', OomGates=both), None),
                ('2conn-1', dict(two, MaxLen=1), None)]
        self_ = [('asis-all', dict(MaxLen=1, Alpha='full', FAsIs=tla_set(ALLF)), ANYINV)]
    else:
        main = [('full-2', dict(MaxLen=2, Alpha='full', OomGates=both), None),
                ('core-3', dict(MaxLen=3, Alpha='core'), None),
                ('2conn-2', dict(two, MaxLen=2), None),
                ('2conn-1-maxreq2', dict(two, MaxLen=1, MaxReq=2, Alpha='core'), None)]
        # every finding taken as-is must be REDISCOVERED by the invariants; every spec mutant must be caught
        self_ = [('asis-' + f, dict(MaxLen=1 if f not in ('F10-resvflag', 'F2-incr-get') else 2,
                                    Alpha='full' if f not in ('F10-resvflag', 'F2-incr-get') else 'core', FAsIs=tla_set([f])),
                  EXPECT_ASIS[f]) for f in ALLF]
        self_ += [('mut-DoubleFree', dict(MaxLen=1, Alpha='core', Mutants='{"DoubleFree"}'), ('C12_NoDoubleFree',)),
                  ('mut-LeakOnEof', dict(MaxLen=1, Alpha='core', Mutants='{"LeakOnEof"}'), ('C12_Zero',)),
                  ('mut-NoTokenPutOnPanic', dict(MaxLen=2, Alpha='core', FAsIs='{"F10"}', Mutants='{"NoTokenPutOnPanic"}',
                                                 INVS='C12_Tokens C12_Zero'), ('C12_Tokens', 'C12_Zero', 'Deadlock'))]
    return main, self_


def mc_one(work, name, over, workers, timeout):
    r = V.tlc_run('MC_Proto', mc_cfg(over), os.path.join(work, 'mc-' + name), workers=workers, timeout=timeout, java=JAVA)
    if 'Deadlock reached' in r['out'] and not r['violated']:
        r['violated'] = 'Deadlock'
    return name, over, r


def mc_first(work, tier, log):
    """the first configuration also prints the alphabet"""
    over = dict(MaxLen=1, Alpha='full', OomGates='{FALSE, TRUE}', PrintAlpha='TRUE')
    name, over, r = mc_one(work, 'full-1', over, 8, 600)
    m = re.search(r'<<"VERIF-ALPHABET", "(.*)">>', r['out'])
    if not m or (r['error'] and not r['violated']) or r['timeout']:
        raise V.Inconclusive('MC_Proto full-1 failed / no alphabet: %s\n%s' % (r['error'], r['out'][-1500:]))
    alpha = json.loads(unescape_tla(m.group(1)))
    alpha.sort(key=lambda c: json.dumps(c, sort_keys=True))
    return alpha, (name, over, r)


def mc_rest(work, tier, log, first):
    import concurrent.futures as cf
    main, self_ = mc_plan(tier)
    out = [first]
    budget = 1500 if tier == 'thorough' else 300
    if tier == 'quick':
        with cf.ThreadPoolExecutor(max_workers=3) as ex:
            out += list(ex.map(lambda x: mc_one(work, x[0], x[1], 4, budget), main + self_))
    else:
        for name, over, _ in main:
            out.append(mc_one(work, name, over, V.NCPU, budget))
        with cf.ThreadPoolExecutor(max_workers=4) as ex:
            out += list(ex.map(lambda x: mc_one(work, x[0], x[1], 2, 900), self_))
    want = {name: exp for name, _, exp in main + self_}
    want['full-1'] = None
    return out, want


def mc_report(results, want, tier, log):
    res, selft, leads = [], [], []
    states = trans = 0
    for name, over, r in results:
        exp = want.get(name)
        line = 'MC %s: %d distinct / %d generated states, depth %d, %.1fs' % (name, r['distinct'], r['states'], r['depth'], r['wall'])
        if exp is None:
            if r['timeout'] and tier == 'thorough':
                log(line + ' DID NOT FINISH in its budget: counted as not exhaustive')
            elif (r['error'] and not r['violated']) or r['timeout']:
                raise V.Inconclusive('TLC failed on MC_Proto %s: %s\n%s' % (name, r['error'] or 'timeout', r['out'][-1500:]))
            else:
                log(line + ((' VIOLATED ' + str(r['violated'])) if r['violated'] else ''))
            if r['violated']:
                leads.append(('MC', name, r['violated']))
            states += r['distinct']
            trans += r['states']
            res.append(dict(name=name, constants=over, distinct=r['distinct'], generated=r['states'], depth=r['depth'],
                            wall_s=round(r['wall'], 1), violated=r['violated'], timeout=r['timeout']))
        else:
            if r['error'] and not r['violated']:
                raise V.Inconclusive('TLC failed on MC_Proto %s: %s\n%s' % (name, r['error'], r['out'][-1500:]))
            ok = r['violated'] in exp
            selft.append(dict(name=name, expected=list(exp), violated=r['violated'], ok=ok))
            if not ok:
                leads.append(('MC-selftest', name, 'expected one of %s, got %s' % (exp, r['violated'])))
    log('MC self-test (findings as-is rediscovered / spec mutants caught): %d/%d' % (sum(1 for x in selft if x['ok']), len(selft)))
    return states, trans, res, selft, leads


# ----------------------------------------------------------------------------- generation per tier
def sample_script(rng, alpha, n):
    while True:
        sc = [copy.deepcopy(rng.choice(alpha)) for _ in range(n)]
        if valid_script(sc):
            return sc


PROBE = [base_cmd('get', keys=[kr('plain', 'kh')])]
MAPS = [{'kh': 'k%d' % (3 * i + 1), 'km': 'k%d' % (3 * i + 2), 'kt': 'k%d' % (3 * i + 3)} for i in range(8)]


def conc_ok(c):
    """commands usable on concurrent connections: nothing that depends on global state"""
    return (c['size'] not in ('big',) and c['fault'] != 'bodyshort' and not any(k['name'] == 'kl' for k in c['keys'])
            and all(k['cls'] in ('plain', 'meta', 'meta2', 'hash', 'unserved', 'ctrl', 'long') for k in c['keys']))


def gen_scenarios(tier, seed, alpha, log):
    rng = random.Random(seed * 7919 + 17)
    scen = []
    n = [0]

    def add(script, **kw):
        n[0] += 1
        sid = 'p%05d' % n[0]
        pr = kw.pop('probe', None)
        if pr is None and any(is_faulty(c) for c in script) and not kw.get('others') and not kw.get('stall'):
            pr = copy.deepcopy(PROBE)
        scen.append(make_scenario(sid, random.Random(seed * 1000003 + n[0]), script, probe=pr, **kw))

    # every single abstract command
    for c in alpha:
        add([copy.deepcopy(c)])
    pairs = [(a, b) for a in alpha for b in alpha if valid_script([a, b])]
    if tier == 'quick':
        for a, b in rng.sample(pairs, 150):
            add([copy.deepcopy(a), copy.deepcopy(b)])
        nlong, nbyte, ntcp, noom, ndisk, nconc, nstall, ntrunc = 60, 30, 16, 24, 30, 12, 6, 1
    else:
        for a, b in pairs:
            add([copy.deepcopy(a), copy.deepcopy(b)])
        nlong, nbyte, ntcp, noom, ndisk, nconc, nstall, ntrunc = 2000, 300, 150, 300, 500, 150, 60, 14
    for _ in range(nlong):
        add(sample_script(rng, alpha, rng.randint(3, 7)))
    for _ in range(nbyte):
        add(sample_script(rng, alpha, rng.randint(1, 4)), mode='byte')
    for _ in range(ntcp):
        add(sample_script(rng, alpha, rng.randint(1, 4)), mode='tcp')
    # memory-shortage gate: flush_max = 0, so a big value is refused while a write buffer is non-empty
    bigs = [c for c in alpha if c['size'] in ('big', 'gtc', 'z') or c['verb'] in ('incr', 'delete', 'get')]
    for i in range(noom):
        add(sample_script(rng, bigs if i % 2 else alpha, rng.randint(1, 4)), conf_over=dict(flush_max=0), preload=(i % 3 != 0))
    # reads from the data files: the store is closed and reopened after the preload
    readers = [c for c in alpha if c['verb'] in ('get', 'gets', 'incr', 'delete', 'set', 'append')]
    for i in range(ndisk):
        add(sample_script(rng, readers if i % 2 else alpha, rng.randint(1, 4)), restart=True)
    # concurrent connections on private keys, shared tokens
    cpool = [c for c in alpha if conc_ok(c) and c['cut'] == 'none']
    for i in range(nconc):
        k = rng.choice([1, 2, 3, 7])
        others = {'c%d' % (j + 2): [rename(c, MAPS[j]) for c in sample_script(rng, cpool, rng.randint(1, 5))] for j in range(k)}
        add(sample_script(rng, cpool, rng.randint(1, 5)), others=others, conf_over=dict(max_req=rng.choice([1, 1, 2, 16])))
    # a connection stalled after the header of a body command holds the only token; another one must get it afterwards
    holders = [c for c in alpha if c['verb'] in STORE and c['fault'] in ('none', 'badterm') and c['nc'] in ('ok', 'rev')
               and c['size'] in ('small', 'eqc', 'gtc') and c['cut'] == 'none']
    for i in range(nstall):
        first = copy.deepcopy(rng.choice(holders))
        add([first] + sample_script(rng, cpool, rng.randint(0, 2)), stall=True, conf_over=dict(max_req=1),
            probe=[rename(c, MAPS[0]) for c in sample_script(rng, cpool, rng.randint(1, 3))])
    # truncation at every byte
    tpool = [c for c in alpha if c['cut'] == 'none' and c['size'] not in ('big', 'huge')]
    for i in range(ntrunc):
        n[0] += 1
        for attempt in range(50):
            script = sample_script(rng, tpool, rng.randint(2, 3))
            tr = truncations('p%05d' % n[0], seed * 1000003 + n[0], script, every=1, probe=copy.deepcopy(PROBE),
                             conf_over=dict(body_c=16, body_big=40, body_max=80, shortkeys=True))
            if 30 <= len(tr) <= (140 if tier == 'quick' else 400) and any(c['verb'] in STORE for c in script):
                break
        scen += tr
    # command lines longer than any reader buffer (4 KB and more): multi-gets of many maximal-length keys, a live key among
    # them and a command pipelined behind them (a complete, well-formed command, however long, gets its one reply)
    for i in range(4 if tier == 'quick' else 40):
        many = [kr('plain', 'kl%d' % j) for j in range(rng.randint(18, 40))]
        many.insert(rng.randrange(len(many) + 1), kr('plain', 'kh'))
        add([base_cmd('set', keys=[kr('plain', 'kh')], size='small'),
             base_cmd(rng.choice(['get', 'gets']), keys=many),
             base_cmd('get', keys=[kr('plain', 'kh')])], mode=rng.choice(['pipe', 'pipe', 'tcp', 'byte']))
    n[0] += 1
    scen.append(roundtrip_scenario('p%05d' % n[0], random.Random(seed + 99)))
    n[0] += 1
    scen.append(roundtrip_scenario('p%05d' % n[0], random.Random(seed + 100)))
    return scen


def nontrivial(pid, sc, events):
    """DESIGN.md section 6: C11: >= 1 storage command with a body and >= 1 fault or special key, and it was executed;
    C12: >= 1 buffer crossed parser -> client -> wbuf -> freed (FlushData add and sub in the ledger) and >= 1 error path
    released a buffer early (a SetData decrement that is not the hand-over to the write buffer)."""
    cmds = [c for cn in sc.get('conns', []) if cn['name'] != 'c0' for c in cn['cmds']]
    if pid == 'C11':
        body = any(c['verb'] in STORE and c['got'] > c['hl'] for c in cmds)
        odd = any(is_faulty(c) or any(k['cls'] != 'plain' for k in c['keys']) for c in cmds)
        ran = any(e['a'] == 'Script' and e['c'] != 'c0' and (e['replies'] or e['closed']) for e in events)
        return body and odd and ran
    fadd = fsub = early = 0
    for e in events:
        if e['a'] != 'Hooks':
            continue
        prev = None
        for h in e.get('ev') or []:
            if h['p'] == 'rl.count' and h.get('lim') == 'F':
                if h['d'] > 0:
                    fadd += 1
                else:
                    fsub += 1
            if h['p'] == 'rl.count' and h.get('lim') == 'S' and h['d'] < 0 and not (prev and prev.get('lim') == 'F'):
                early += 1
            if h['p'] in ('rl.count', 'rl.size'):
                prev = h if h['p'] == 'rl.count' else prev
    return fadd >= 1 and fsub >= 1 and early > 0


# ----------------------------------------------------------------------------- run
def execute(tb, scen, work, log, tag='run'):
    wd = os.path.join(work, tag)
    os.makedirs(wd, exist_ok=True)
    traces, crashed = V.run_scenarios(tb, scen, wd, pkg='gobeansdb', runname='TestVerifProto',
                                      timeout=1500 if len(scen) < 5000 else 3600)
    if crashed:
        raise V.Inconclusive('harness process died: %s' % crashed[0][2][-1200:])
    return traces


def has_hang(events):
    return any(e['a'] == 'Script' and e.get('hang') for e in events)


def store_level_counters(pid, tier, seed, work, log, only=None):
    """C12 seen from the store: sequential scenarios of the core family (incl. check_vhash, restarts, GC) on the real
    HStore; the harness accounts SetData before every set as Request.Read does and logs the change of the four counters
    over the whole scenario after its final close; Trace_Bucket.tla flags a non-zero change (C12_Zero)."""
    import gen_seq as G
    if only is not None:
        sc = [only]
    else:
        n = {'quick': 160, 'thorough': 2000}[tier]
        sc = G.gen_batch(seed, n, 'c02', 'c12s')[:n // 2] + G.gen_batch(seed + 1, n, 'c03', 'c12g')[:n // 2]
    sw = os.path.join(work, 'storelevel')
    os.makedirs(sw, exist_ok=True)
    tb = V.build_harness(sw)
    traces, crashed = V.run_scenarios(tb, sc, sw)
    viol = V.crash_verdicts(crashed, pid)
    allev = []
    for s in sc:
        if s['id'] in traces:
            allev += V.normalize_l1(traces[s['id']])
    r = V.tlc_validate(allev, os.path.join(sw, 'tv'))
    if not r['accepted']:
        raise V.Inconclusive('store-level trace validation did not consume the whole trace: %s' % r.get('tlc_error'))
    for sid, n, chk in r['bad']:
        if chk.startswith('C12_'):
            viol.append({'sid': sid, 'n': n, 'check': chk, 'kf': ''})
    log('store level: %d sequential scenarios, %d with a counter that did not return to its start value' % (len(sc), len(viol)))
    return viol, {s['id']: s for s in sc}, sum(1 for e in allev if e['a'] == 'Counters')


def run(pid, tier, seed, work, log, replay=None):
    t0 = time.time()
    res = {'violations': [], 'known': [], 'drift': [], 'lead': [], 'coverage': {}, 'assumptions': ASSUMPTIONS}
    if replay and json.load(open(replay)).get('family') in ('seq', 'tlcgen'):
        viol, byid, nc = store_level_counters(pid, tier, seed, work, log, only=json.load(open(replay)))
        res['violations'] = viol
        res['scen'] = byid
        res['coverage'] = {'states': 1, 'transitions': 1, 'traces_validated_against_impl': 1, 'samples': [{'scenario': list(byid.values())[0]}],
                           'evaluations': 1, 'distinct_nontrivial': 2, 'rule': 'replay'}
        return res
    states = trans = 0
    mcruns, selft = [], []
    mcfut = None
    if replay:
        scen = [json.load(open(replay))]
    else:
        alpha, first = mc_first(work, tier, log)
        log('alphabet from MC_Proto.tla: %d abstract commands' % len(alpha))
        import concurrent.futures as cf
        mcpool = cf.ThreadPoolExecutor(max_workers=1)
        mcfut = mcpool.submit(mc_rest, work, tier, log, first)     # model checking goes on beside the executions
        scen = gen_scenarios(tier, seed, alpha, log)
        for p in ('C11', 'C12'):
            fixed = os.path.join(V.VERIF, 'scenarios', 'fixed', p)
            if os.path.isdir(fixed):
                for f in sorted(os.listdir(fixed)):
                    if f.endswith('.json'):
                        scen.append(json.load(open(os.path.join(fixed, f))))
    log('%d scenarios' % len(scen))
    # the Hang deadline (the only place where time enters) is stretched when the machine is overloaded
    try:
        factor = min(6.0, max(1.0, os.getloadavg()[0] / V.NCPU))
    except OSError:
        factor = 1.0
    if factor > 1.0 and not replay:
        for s in scen:
            s['conf']['deadline_ms'] = int(s['conf'].get('deadline_ms', 10000) * factor)
        log('load factor %.1f: Hang deadline %.0f s' % (factor, 10 * factor))
    tb = V.build_harness(work, 'gobeansdb')
    traces = execute(tb, scen, work, log)
    missing = [s['id'] for s in scen if s['id'] not in traces]
    if missing:
        raise V.Inconclusive('no trace for %d scenarios, e.g. %s' % (len(missing), missing[:3]))
    # a Hang observation rests on a deadline: it counts only if it shows again when the scenario runs alone, 3x the time
    hung = [s for s in scen if has_hang(traces[s['id']])]
    if hung:
        log('%d scenarios with a Hang observation: re-running them alone with 3x the deadline' % len(hung))
        again = []
        for s in hung[:12]:
            s2 = copy.deepcopy(s)
            s2['conf']['deadline_ms'] = 3 * s['conf'].get('deadline_ms', 10000)
            again.append(s2)
        t2 = V.run_scenarios(tb, again, os.path.join(work, 'rerun'), pkg='gobeansdb', runname='TestVerifProto', shards=4, timeout=1500)[0]
        for s in again:
            if s['id'] in t2:
                traces[s['id']] = t2[s['id']]
    per = {}
    chunks = [[] for _ in range(1 if len(scen) < 200 else (8 if len(scen) < 5000 else 12))]
    for i, s in enumerate(scen):
        ev = norm_events(s, traces[s['id']])
        per[s['id']] = ev
        chunks[i % len(chunks)] += ev
    import concurrent.futures as cf
    with cf.ThreadPoolExecutor(max_workers=len(chunks)) as ex:
        vr = list(ex.map(lambda a: validate(a[1], os.path.join(work, 'tv%d' % a[0])), enumerate(chunks)))
    bad, nev, tstates = [], 0, 0
    for r in vr:
        if not r['accepted']:
            raise V.Inconclusive('trace validation did not consume the whole trace: %s\n%s' % (r.get('tlc_error'), r['out'][-2000:]))
        bad += r['bad']
        res['drift'] += r['drift']
        res['lead'] += r['lead']
        nev += r['total']
        tstates += r['states']
    log('TLC validated %d events of %d scenarios in %d runs (%.1fs)' % (nev, len(scen), len(vr), max(r['wall'] for r in vr)))
    if not replay:
        results, want = mcfut.result()
        states, trans, mcruns, selft, leads = mc_report(results, want, tier, log)
        res['lead'] += leads
    byid = {s['id']: s for s in scen}
    store_counters = 0
    if pid == 'C12' and not replay:
        sv, sby, store_counters = store_level_counters(pid, tier, seed, work, log)
        res['violations'] += sv
        byid.update(sby)
    for sid, n, chk in sorted(set(bad)):
        if not chk.startswith(pid + '_'):
            continue
        name, _, kf = chk.partition('!')
        res['violations' if not kf else 'known'].append({'sid': sid, 'n': n, 'check': name, 'kf': kf})
    nt = set()
    for s in scen:
        if s.get('kind') == 'proto' and nontrivial(pid, s, traces[s['id']]):
            nt.add(hashlib.sha1(json.dumps([c['cmds'] for c in s['conns']], sort_keys=True).encode()).hexdigest())
    sample = scen[min(len(scen) - 1, 160)]
    small = dict(id=sample['id'], conf=sample['conf'], mode=sample.get('mode'),
                 conns=[dict(name=c['name'], cmds=[{k: v for k, v in x.items() if k in ('verb', 'keys', 'nf', 'nc', 'size', 'n', 'content', 'noreply', 'fault', 'cut')}
                                                   for x in c['cmds']]) for c in sample.get('conns', [])])
    head = [e for e in per[sample['id']] if e['a'] in ('Script', 'Quiesce')][:4]
    for e in head:
        e.pop('led', None)
        e.pop('cmds', None)
    modes = {}
    for s in scen:
        modes[s.get('mode', '?')] = modes.get(s.get('mode', '?'), 0) + 1
    res['coverage'] = {
        'states': states if not replay else 1, 'transitions': trans if not replay else 1,
        'traces_validated_against_impl': len(per),
        'samples': [{'scenario': small, 'trace_head': head}],
        'evaluations': len(scen), 'distinct_nontrivial': len(nt),
        'rule': ('C11: script holds >= 1 storage command whose body was delivered and >= 1 faulty command or special key, and the '
                 'server answered or closed' if pid == 'C11' else
                 'C12: the hook ledger shows >= 1 buffer handed to the write buffer and freed by the flush, and >= 1 SetData '
                 'entry released on another path (error / refusal / invalid key)'),
        'events_validated': nev, 'trace_states': tstates, 'mc_runs': mcruns, 'mc_selftest': selft,
        'store_level_counter_observations': store_counters,
        'delivery_modes': modes,
        'exhaustive': bool(mcruns) and all(not m['timeout'] for m in mcruns),
        'drift': len(res['drift']), 'model_only_leads': len(res['lead']),
    }
    res['scen'] = byid
    res['wall'] = time.time() - t0
    return res
