"""Codec family (C16: key hash / value hash / CRC definitions; C09: record layout, scanner, corruption detection).

TLC is the judge in both directions:
  * Gen_Codec.tla   TLC GENERATES reference vectors (inputs + the values of Codec.tla) and layout cases
  * MC_Scan.tla     TLC model-checks the scanner transcription (Scan.tla) over every small abstract file and prints each
                    file as a scenario
  * the Go harness (harness/store/zz_verif_codec_test.go) runs every case through the REAL functions and logs what they
    returned - no verdicts in Go
  * Trace_Codec.tla TLC validates every logged observation against Codec.tla / Scan.tla; failures are accumulated in `bad`
"""
import hashlib, json, math, os, random, re, time
from concurrent.futures import ThreadPoolExecutor
import vcommon as V

READY = True
PROPS = {
 'C16': dict(level='exploration', design='DESIGN.md 6 C16',
   text='Codec.tla is an independently written TLA+ reference (32-bit words as 16-bit limb pairs): signed-byte FNV-1a, '
        'MurmurHash3_x86_32 seed 0 from the published algorithm, key hash = fnv<<32|murmur, 16-bit value hash with the 1024-byte '
        'switch, CRC-32 IEEE with the table derived from the polynomial. TLC generates the vectors (ALL 2801 strings of length 0..4 '
        'over {00,01,61,7f,80,fe,ff}; seeded strings of every length 0..300 and around 512/1024/1536/4096; long CRC inputs), the '
        'harness feeds them to getKeyHashDefalut, fnv1a, murmur, utils.Fnv1a, Getvhash, Payload.Getvhash, crc32 (one and two writes) '
        'and to the CRC field of records written through DataStreamWriter; TLC compares every logged result with Codec.tla again. '
        'Reference vectors, not a proof: exhaustive only over the short-string alphabet, hence level exploration.',
   note='Trusted: TLC and the CommunityModules Bitwise/SequencesExt/Json overrides. The reference was cross-checked once against '
        'published check values (murmur3("hello")=0x248bfa47, crc32("123456789")=0xcbf43926, fnv1a("test")=0xafd071e5). CRC inputs up '
        'to 64 KB (quick) / 1 MB (thorough); the key/value hashes stored in hint and tree files are checked by their own properties.',
   technique='TLC-generated reference vectors replayed into the real functions + TLC validation of the logged results'),
 'C09': dict(level='model_checking', design='DESIGN.md 6 C09',
   text='Scan clause (model checking): Scan.tla transcribes readRecordAt / DataStreamReader.Next / nextValid as a function over typed '
        '256-byte blocks; TLC checks C09_ReadAt and C09_Scan (yields = every intact record in order) on EVERY abstract file of up to '
        '5 (quick) / 7 (thorough) blocks built from records of 1..3 blocks with up to two damages (block classes garbage, zero, ksz0, '
        'vsz_huge, header with valid lengths ending inside the file / past its end, truncation at any block); each file is '
        'materialised with the real DataStreamWriter + byte-level damage, the real DataStreamReader is run to the end and readRecordAt '
        'is called at every block offset; TLC validates every observation against Scan.tla. Layout and detection clauses '
        '(exploration): TLC-enumerated records (corner flags/versions/timestamps, sizes on both sides of every block boundary up to '
        '3 blocks, seeded random records) are compared byte by byte with Codec!RecordImage and read back by position and by scan; '
        'single-bit flips and single-byte substitutions of one- and two-block records (seeded sample in quick, every byte x every '
        'mask of one record in thorough) must never be returned as a valid record, alterations of padding must change nothing.',
   note='An error return of the scanner with all intact records already yielded (torn tail) satisfies the statement and is not '
        'flagged. Finding F9: a header with valid lengths reaching past EOF aborts the sequential scan. CRC-32 collisions (2^-32) '
        'are ignored. Values up to a few KB; body_max 1 MB or 50 MB; multi-byte damage is class-level (seeded), not exhaustive.',
   technique='TLA+ model checking (TLC) of the scanner + TLC validation of real reader/scanner executions on TLC-enumerated files'),
}

BIG = 100000           # Scan!BigClaim
JAVA = ['-Xss256m', '-XX:ParallelGCThreads=4']     # recursive operators of Scan.tla; many small JVMs side by side
SPECIAL = [511, 512, 513, 1023, 1024, 1025, 1535, 1536, 4095, 4096]
DMG_CHOICES = [('garbage', 0), ('zero', 0), ('ksz0', 0), ('vszhuge', 0), ('hdr', 1), ('hdr', 2), ('hdr', 3), ('hdr', BIG)]


def f9_fixed():
    """once a `fix:` for F9 is recorded in known_findings.json the transcription switches to the repaired behaviour"""
    return any(k.get('finding') == 'F9' for k in V.load_known().get('fixed', []))


def scan_mut():
    return '{"f9_fixed"}' if f9_fixed() else '{}'


# ----------------------------------------------------------------------------- inputs (seeded)
def rand_bytes(r, n, style):
    if style == 0:
        return [r.randrange(256) for _ in range(n)]
    if style == 1:
        return [0x80 | r.randrange(128) for _ in range(n)]
    if style == 2:
        return [r.choice((0x61, 0x20, 0x7f, 0x80, 0xff, 0x00, r.randrange(256))) for _ in range(n)]
    b = r.choice((0x00, 0x7f, 0x80, 0xff))
    return [b] * n


def hash_inputs(tier, seed):
    r = random.Random(seed * 1000003 + 16)
    per, sp = (1, 2) if tier == 'quick' else (5, 8)
    out = []
    for n in range(0, 301):
        for j in range(per):
            out.append({'k': 'hash', 'id': 'r%d_%d' % (n, j), 'what': 'all', 'bytes': rand_bytes(r, n, r.randrange(4) if j else 0)})
    for n in SPECIAL:
        for j in range(sp):
            out.append({'k': 'hash', 'id': 'r%d_%d' % (n, j), 'what': 'all', 'bytes': rand_bytes(r, n, 0 if j < 2 else r.randrange(3))})
    out.append({'k': 'hash', 'id': 'idx0', 'what': 'idx', 'bytes': rand_bytes(r, 4096, 0)})
    for i, n in enumerate([16384, 65536, 262145, 300000] if tier == 'quick' else [65536, 65537, 100000, 262144, 262145, 300000, 1048576]):   # (> 256 KiB: a CRC computed in pieces)
        out.append({'k': 'hash', 'id': 'crc%d' % i, 'what': 'crc', 'bytes': rand_bytes(r, n, 0)})
    return out


def limbs(x):
    return [(x >> 16) & 0xffff, x & 0xffff]


def layout_inputs(tier, seed):
    r = random.Random(seed * 1000003 + 9)
    nfiles = 12 if tier == 'quick' else 120
    out = []
    for i in range(nfiles):
        recs = []
        for j in range(r.randrange(1, 7)):
            ksz = r.choice((1, 2, 231, 232, 233, 249, 250, r.randrange(1, 251), r.randrange(1, 40)))
            vsz = r.choice((0, 1, max(0, 232 - ksz), max(0, 233 - ksz), max(0, 488 - ksz), r.randrange(0, 700), r.randrange(0, 60),
                            1000, 1024 + r.randrange(3)))
            recs.append({'key': [r.randrange(0x21, 0x7f) for _ in range(ksz)], 'val': rand_bytes(r, vsz, r.randrange(3)),
                         'flag': limbs(r.choice((0, 0x10, 0x10000, r.getrandbits(32)))),
                         'ver': limbs(r.choice((1, 2, 0xffffffff, 0x80000000, 0x7fffffff, r.getrandbits(32)))),
                         'ts': limbs(r.choice((0, 1500000000, 0x80000000, 0xffffffff, r.getrandbits(32))))})
        out.append({'k': 'layout', 'id': 'lr%d' % i, 'recs': recs})
    if tier != 'quick':
        out.append({'k': 'layout', 'id': 'lbig', 'recs': [
            {'key': [0x6b] * 250, 'val': rand_bytes(r, 70000, 0), 'flag': [0, 0], 'ver': [0, 7], 'ts': [1, 1]},
            {'key': [0x6c], 'val': rand_bytes(r, 4096 - 25, 0), 'flag': [0, 16], 'ver': [65535, 65535], 'ts': [2, 2]}]})
    return out


# ----------------------------------------------------------------------------- TLC runs
def _par(jobs, width):
    with ThreadPoolExecutor(max_workers=max(1, width)) as ex:
        return list(ex.map(lambda f: f(), jobs))


def run_gen(work, inputs, do_short, do_layout, seed, nshards, log, tag='gen'):
    """Gen_Codec.tla, sharded over JVMs; returns the list of vectors (input + reference values)."""
    t0 = time.time()

    def job(s):
        def go():
            rd = os.path.join(work, '%s%d' % (tag, s))
            os.makedirs(rd, exist_ok=True)
            with open(os.path.join(rd, 'inputs.ndjson'), 'w') as f:
                for x in inputs:
                    f.write(json.dumps(x) + '\n')
                if not inputs:     # ndJsonDeserialize of an empty file: give it one inert line
                    f.write(json.dumps({'k': 'none', 'id': 'none'}) + '\n')
            cfg = 'CONSTANTS\n  Shard = %d\n  NShards = %d\n  DoShort = %s\n  DoLayout = %d\n  PatSeed = %d\n' % (
                s, nshards, 'TRUE' if do_short else 'FALSE', int(do_layout), seed % 251)
            r = V.tlc_run('Gen_Codec', cfg, rd, workers=1, timeout=1500, java=JAVA)
            vf = os.path.join(rd, 'vectors.ndjson')
            if r['error'] or r['timeout'] or r['rc'] != 0 or not os.path.exists(vf):
                raise V.Inconclusive('vector generation failed: %s\n%s' % (r['error'] or r['rc'], r['out'][-1500:]))
            return [json.loads(l) for l in open(vf) if l.strip()]
        return go
    vec = [v for part in _par([job(s) for s in range(nshards)], nshards) for v in part]
    log('TLC generated %d vectors (%d shards, %.1fs)' % (len(vec), nshards, time.time() - t0))
    return vec


MC_CFG = '''SPECIFICATION Spec
CONSTANTS
  MaxBlocks = %(mb)d
  MaxRec = 3
  MaxDmg = 2
  Emit = %(emit)s
  Excuse = %(excuse)s
  ScanMut = %(mut)s
INVARIANTS InvAll
CHECK_DEADLOCK FALSE
'''


def run_mc(work, name, mb, emit, excuse, mut, log, workers=8, timeout=1500):
    r = V.tlc_run('MC_Scan', MC_CFG % dict(mb=mb, emit='TRUE' if emit else 'FALSE', excuse='TRUE' if excuse else 'FALSE', mut=mut),
                  os.path.join(work, name), workers=workers, timeout=timeout, java=JAVA)
    if r['timeout'] or (r['error'] and not r['violated']):
        raise V.Inconclusive('TLC failed on MC_Scan (%s): %s\n%s' % (name, r['error'] or 'timeout', r['out'][-1500:]))
    files = []
    if emit:
        for m in re.finditer(r'<<"VERIF-FILE", "(.*)">>', r['out']):
            files.append(json.loads(m.group(1).replace('\\"', '"')))
    info = {'module': 'MC_Scan', 'run': name, 'constants': {'MaxBlocks': mb, 'MaxRec': 3, 'MaxDmg': 2, 'Excuse': excuse, 'ScanMut': mut},
            'distinct': r['distinct'], 'generated': r['states'], 'depth': r['depth'], 'wall_s': round(r['wall'], 1),
            'violated': r['violated']}
    log('MC_Scan %s MaxBlocks=%d excuse=%s mut=%s: %d distinct / %d generated states, %.1fs%s' % (
        name, mb, excuse, mut, r['distinct'], r['states'], r['wall'], (' VIOLATED ' + r['violated']) if r['violated'] else ''))
    return r, files, info


TRACE_CFG = '''SPECIFICATION TraceSpec
CONSTANTS
  ScanMut = %s
CONSTRAINT HighWater
INVARIANT Report
POSTCONDITION TraceAccepted
CHECK_DEADLOCK FALSE
'''


def validate(events, work, log, tag='tv', maxshards=3):
    """Trace_Codec.tla over the observations, sharded; returns (bad, drift, stat)."""
    if not events:
        return [], [], {'f9': 0, 'abort': 0}
    t0 = time.time()
    weight = sum(1 + len(e.get('bytes', ())) // 400 for e in events)
    k = max(1, min(maxshards, math.ceil(weight / 1500.0)))
    parts = [events[i::k] for i in range(k)]
    mut = scan_mut()

    def job(i, part):
        def go():
            rd = os.path.join(work, '%s%d' % (tag, i))
            os.makedirs(rd, exist_ok=True)
            with open(os.path.join(rd, 'trace.ndjson'), 'w') as f:
                for e in part:
                    f.write(json.dumps(e) + '\n')
            r = V.tlc_run('Trace_Codec', TRACE_CFG % mut, rd, workers=1, timeout=3000, java=JAVA)
            m = re.findall(r'<<"VERIF-RESULT", "(.*)">>', r['out'])
            if r['rc'] != 0 or r['error'] or r['timeout'] or not m:
                raise V.Inconclusive('trace validation failed: %s\n%s' % (r['error'] or ('rc=%s' % r['rc']), r['out'][-2000:]))
            js = m[-1].encode('utf8').decode('unicode_escape') if '\\' in m[-1] else m[-1]
            d = json.loads(js)
            if d.get('consumed') != len(part):
                raise V.Inconclusive('trace validation consumed %s of %d events' % (d.get('consumed'), len(part)))
            return d, r['distinct']
        return go
    res = _par([job(i, p) for i, p in enumerate(parts)], k)
    bad, drift, stat, states = [], [], {'f9': 0, 'abort': 0}, 0
    for d, st in res:
        bad += [tuple(x) for x in d.get('bad', [])]
        drift += [tuple(x) for x in d.get('drift', [])]
        for key in stat:
            stat[key] += d.get('stat', {}).get(key, 0)
        states += st
    stat['trace_states'] = states
    log('TLC validated %d observations in %d shard(s), %.1fs: %d failures, %d drift' % (len(events), k, time.time() - t0, len(bad), len(drift)))
    return bad, drift, stat


def selftest_binding(pid, events, bad, work, log):
    """DESIGN.md 4.7: the binding is real - observations with one corrupted logged field must be rejected by TLC."""
    import copy
    failed = {sid for sid, n, chk in bad}
    want = {}
    out = []

    def take(kind, pred, mutate, check):
        for e in events:
            if e['a'] == kind and e['sid'] not in failed and pred(e):
                c = copy.deepcopy(e)
                mutate(c)
                c['sid'] = 'selftest-%s-%s' % (check, e['sid'])
                out.append(c)
                want[c['sid']] = check
                return
    if pid == 'C16':
        ok = lambda e: e['what'] != 'crc' and len(e['bytes']) > 2
        take('Hash', ok, lambda c: c['fnv'].__setitem__(1, c['fnv'][1] ^ 1), 'C16_Fnv')
        take('Hash', ok, lambda c: c['mur'].__setitem__(0, c['mur'][0] ^ 0x8000), 'C16_Murmur')
        take('Hash', ok, lambda c: c.__setitem__('vh', c['vh'] ^ 1), 'C16_VHash')
        take('Hash', ok, lambda c: c['crc'].__setitem__(1, (c['crc'][1] + 1) % 65536), 'C16_CRC')
        take('Hash', ok, lambda c: c['bytes'].__setitem__(0, c['bytes'][0] ^ 0x80), 'C16_KeyHash')     # another input, same results
        take('Layout', lambda e: len(e['file']) >= 256, lambda c: c['file'].__setitem__(0, c['file'][0] ^ 1), 'C16_RecordCRC')
    else:
        take('Layout', lambda e: len(e['file']) >= 256, lambda c: c['file'].__setitem__(30, c['file'][30] ^ 1), 'C09_Layout')
        take('Layout', lambda e: e['at'] and e['at'][0]['ok'], lambda c: c['at'][0]['ts'].__setitem__(1, c['at'][0]['ts'][1] ^ 1), 'C09_RoundTripAt')
        take('ScanFile', lambda e: len(e['yields']) >= 1, lambda c: c['yields'][-1].__setitem__(0, c['yields'][-1][0] + 1), 'C09_Scan')
        take('ScanFile', lambda e: 0 in e['readat'][:-1], lambda c: c['readat'].__setitem__(c['readat'].index(0), -1), 'C09_ReadAt')
        take('Detect', lambda e: e['pos'] < 24 and 0 in e['readat'][:-1], lambda c: c['readat'].__setitem__(c['readat'].index(0), -1), 'C09_Detect')
    if not out:
        return 0
    b2, _, _ = validate(out, work, lambda m: None, tag='st')
    got = {}
    for sid, n, chk in b2:
        got.setdefault(sid, set()).add(chk)
    miss = [sid for sid, chk in want.items() if chk not in got.get(sid, ())]
    if miss:
        raise V.Inconclusive('self-test: corrupted observations were accepted by the validator: %s' % miss)
    log('self-test: %d corrupted observations rejected by TLC (%s)' % (len(out), ', '.join(sorted(set(want.values())))))
    return len(out)


# ----------------------------------------------------------------------------- scenarios for the real code
def scen_of_vector(v):
    if v['k'] == 'hash':
        return {'id': 'h-' + v['id'], 'kind': 'hash', 'bytes': v['bytes'], 'what': v['what']}
    return {'id': 'l-' + v['id'], 'kind': 'layout', 'recs': v['recs'], 'bufsz': 4096}


def scen_of_file(r, sid, f, bodymax=0):
    return {'id': sid, 'kind': 'scan', 'base': list(f['base']),
            'dmg': [{'i': d[0], 'c': d[1], 'm': d[2], 'how': r.randrange(12)} for d in (f['dmg'] or [])],
            'trunc': f['trunc'], 'bodymax': bodymax or r.choice((1 << 16,) * 40 + (1 << 20, 1 << 20, 50 << 20)),
            'bufsz': r.choice((256, 4096, 4096, 1 << 16)), 'vseed': r.getrandbits(40)}


def random_files(tier, seed):
    r = random.Random(seed * 1000003 + 99)
    out = []
    for i in range(60 if tier == 'quick' else 1500):
        nrec = r.randrange(1, 51)
        base = [r.choice((1, 1, 1, 1, 2, 2, 3, 3, r.randrange(4, 9))) for _ in range(nrec)]
        total = sum(base)
        idx = sorted(r.sample(range(1, total + 1), min(total, r.randrange(0, 7))))
        dmg = []
        for i_ in idx:
            c, m = r.choice(DMG_CHOICES)
            if c == 'hdr' and m != BIG:
                m = r.randrange(1, 6)
            dmg.append([i_, c, m])
        trunc = total
        if r.randrange(10) < 3 and total > 1:
            trunc = r.randrange(idx[-1] if idx else 1, total + 1)
        out.append(scen_of_file(r, 'rf%d' % i, {'base': base, 'dmg': dmg, 'trunc': trunc}, bodymax=1 << 20))
    return out


def detect_scenarios(tier, seed):
    r = random.Random(seed * 1000003 + 7)
    out = []

    def emit(name, pre, post, ksz, vsz, alts, bodymax=1 << 16):
        for c in range(0, len(alts), 120):
            out.append({'id': '%s_%d' % (name, c // 120), 'kind': 'detect', 'pre': pre, 'post': post, 'ksz': ksz, 'vsz': vsz,
                        'alts': alts[c:c + 120], 'bodymax': bodymax, 'bufsz': r.choice((256, 4096, 1 << 16)), 'vseed': r.getrandbits(40)})
    bits = [1 << b for b in range(8)]
    if tier == 'quick':
        k1, v1 = r.randrange(1, 12), r.randrange(0, 30)
        real = 24 + k1 + v1
        a = [[p, m] for p in range(real) for m in bits]
        a += [[p, m] for p in r.sample(range(real, 256), 24) for m in (1, 0x80, 0xff)]
        a += [[r.randrange(256), r.randrange(1, 256)] for _ in range(400)]
        emit('d1', [1], [1], k1, v1, a)
        k2, v2 = r.randrange(20, 120), r.randrange(150, 330)
        real = 24 + k2 + v2
        a = [[p, m] for p in range(24) for m in bits]
        a += [[r.randrange(512), r.randrange(1, 256)] for _ in range(500)]
        a += [[r.randrange(24, real), 1 << r.randrange(8)] for _ in range(200)]
        emit('d2', [2], [1, 1], k2, v2, a, bodymax=1 << 20)
    else:
        k1, v1 = r.randrange(1, 8), r.randrange(0, 16)
        emit('d1', [1], [1], k1, v1, [[p, m] for p in range(256) for m in range(1, 256)])     # every byte x every mask
        k2, v2 = r.randrange(20, 120), r.randrange(150, 330)
        a = [[p, m] for p in range(512) for m in bits]
        a += [[r.randrange(512), r.randrange(1, 256)] for _ in range(20000)]
        emit('d2', [2], [1, 1], k2, v2, a)
        k3, v3 = 232, r.randrange(0, 3)                                                       # exactly one block, no padding
        v3 = 0
        emit('d3', [1, 1], [3], k3, v3, [[p, m] for p in range(256) for m in bits], bodymax=1 << 20)
    return out


# ----------------------------------------------------------------------------- normalisation (pure reformatting)
FIELDS = {
    'Hash': ('what', 'bytes', 'fnv', 'ufnv', 'mur', 'kh', 'kh2', 'vh', 'pvh', 'crc', 'crcs'),
    'Layout': ('recs', 'file', 'size', 'woff', 'at', 'scan', 'scanerr'),
    'ScanFile': ('base', 'dmg', 'trunc', 'yields', 'err', 'readat'),
    'Detect': ('pre', 'post', 'ksz', 'vsz', 'pos', 'mask', 'bodymax', 'yields', 'err', 'readat'),
}


def normalize(traces, scen):
    out, per = [], {}
    for s in scen:
        evs = traces.get(s['id'])
        if evs is None:
            continue
        mine = []
        for e in evs:
            if e.get('a') not in FIELDS:
                continue
            ne = {'a': e['a'], 'sid': s['id'], 'n': e['n']}
            for f in FIELDS[e['a']]:
                if f not in e:
                    raise V.Inconclusive('event %s of %s lacks field %s' % (e['a'], s['id'], f))
                ne[f] = e[f]
            mine.append(ne)
        per[s['id']] = mine
        out += mine
    return out, per


def short(e, lim=48):
    """an event / vector with long arrays cut for the evidence file"""
    o = {}
    for k, v in e.items():
        if isinstance(v, list) and len(v) > lim:
            o[k] = v[:lim] + ['... %d more' % (len(v) - lim)]
        elif isinstance(v, list) and v and isinstance(v[0], dict):
            o[k] = [short(x, lim) for x in v[:4]]
        else:
            o[k] = v
    return o


# ----------------------------------------------------------------------------- the family entry point
def run(pid, tier, seed, work, log, replay=None):
    t0 = time.time()
    res = {'violations': [], 'known': [], 'drift': [], 'lead': [], 'coverage': {}, 'assumptions': []}
    cov = {}
    scen, vectors, mcruns = [], [], []
    states = trans = 0
    fixed_dir = os.path.join(V.VERIF, 'scenarios', 'fixed', pid)
    if replay:
        scen = [json.load(open(replay))]
    elif pid == 'C16':
        vectors = run_gen(work, hash_inputs(tier, seed), True, 1, seed, 2 if tier == 'quick' else 8, log)
        scen = [scen_of_vector(v) for v in vectors]
    else:
        # ---- (a) model checking of the scanner; every state is an abstract file
        mb = 5 if tier == 'quick' else 7
        r, files, info = run_mc(work, 'mc', mb, True, True, scan_mut(), log, workers=8 if tier == 'quick' else 12)
        mcruns.append(info)
        states, trans = r['distinct'], r['states']
        if r['violated']:
            res['lead'].append(('MC_Scan', 'InvAll violated (model-only)', r['out'][-600:].replace('\n', ' | ')))
        # the model rediscovers F9 when it is not excused (a lead by itself; the real-code traces decide)
        if tier == 'thorough' and not f9_fixed():
            r2, _, info2 = run_mc(work, 'mc_f9', 3, False, False, '{}', log, workers=2)
            mcruns.append(info2)
            cov['f9_rediscovered_by_model'] = bool(r2['violated'])
        if tier == 'thorough':
            # non-vacuity: specification mutants of the scanner must violate the invariant
            for mut in ('{"resync_after_claim"}', '{"no_crc_stream"}'):
                r3, _, info3 = run_mc(work, 'mc_mut_' + re.sub(r'\W', '', mut), 4, False, True, mut, log, workers=4)
                mcruns.append(info3)
                if not r3['violated']:
                    raise V.Inconclusive('self-test: specification mutant %s is not rejected by MC_Scan' % mut)
            cov['spec_mutants_rejected'] = 2
        # ---- (b) scenarios: the files TLC printed (all small ones + a seeded sample in quick), seeded large files,
        #          layout cases generated by TLC, single-byte alterations
        rr = random.Random(seed * 1000003 + 5)
        files.sort(key=lambda f: json.dumps(f, sort_keys=True))
        if tier == 'quick':
            small = [f for f in files if sum(f['base']) <= 3]
            rest = [f for f in files if sum(f['base']) > 3]
            pick = small + rr.sample(rest, min(len(rest), max(0, 1500 - len(small))))
        else:
            full = [f for f in files if sum(f['base']) <= 6]
            rest = [f for f in files if sum(f['base']) > 6]
            pick = full + rr.sample(rest, min(len(rest), 30000))
        cov['files_enumerated_by_tlc'] = len(files)
        cov['files_executed'] = len(pick)
        scen = [scen_of_file(rr, 'f%d' % i, f) for i, f in enumerate(pick)]
        scen += random_files(tier, seed)
        scen += detect_scenarios(tier, seed)
        vectors = run_gen(work, layout_inputs(tier, seed), False, 2, seed, 1 if tier == 'quick' else 6, log)
        scen += [scen_of_vector(v) for v in vectors]
    if not replay and os.path.isdir(fixed_dir):
        for f in sorted(os.listdir(fixed_dir)):
            if f.endswith('.json'):
                scen.append(json.load(open(os.path.join(fixed_dir, f))))
    # ---- (c) the real code
    tb = V.build_harness(work)
    t1 = time.time()
    traces, crashed = V.run_scenarios(tb, scen, work, runname='TestVerifCodec', timeout=1500)
    if crashed:
        raise V.Inconclusive('harness process died: %s' % crashed[0][2][-1200:])
    events, per = normalize(traces, scen)
    missing = [s['id'] for s in scen if not per.get(s['id'])]
    if missing:
        raise V.Inconclusive('no observation for scenarios %s' % missing[:5])
    log('%d scenarios executed on the real code (%d observations, %.1fs)' % (len(scen), len(events), time.time() - t1))
    # ---- (d) TLC judges
    bad, drift, stat = validate(events, work, log, maxshards=2 if tier == 'quick' else 8)
    byid = {s['id']: s for s in scen}
    if not replay and tier == 'thorough':
        cov['selftest_corrupted_observations_rejected'] = selftest_binding(pid, events, bad, work, log)
    f9, viol = [], {}
    for sid, n, chk in sorted(set(bad)):
        if not chk.startswith(pid + '_'):
            continue
        if chk.endswith('_F9'):
            f9.append((sid, n, chk))
        else:
            viol.setdefault(chk, []).append((sid, n))
    # a broken function fails thousands of vectors: report the smallest scenarios of every failing check (at most 6 each,
    # distinct scenarios across checks); the totals go to the log and the evidence
    size = lambda sid: len(json.dumps(byid[sid]))
    used = set()
    for chk in sorted(viol):
        hits = sorted(viol[chk], key=lambda x: (size(x[0]), x[0], x[1]))
        log('%d observation(s) fail %s' % (len(hits), chk))
        fresh = [h for h in hits if h[0] not in used][:6] or hits[:1]
        for sid, n in fresh:
            used.add(sid)
            res['violations'].append({'sid': sid, 'n': n, 'check': chk, 'kf': ''})
    cov['failures_by_check'] = {chk: len(v) for chk, v in viol.items()}
    nf9 = len(f9)
    # every hit is counted in the evidence; a few reproducers (smallest scenarios, distinct kinds) are enough for the report
    seen = set()
    for sid, n, chk in sorted(f9, key=lambda x: (len(json.dumps(byid[x[0]])), x[0], x[1])):
        if sid not in seen and len([k for k in seen if k[0] == sid[0]]) < 2 and len(seen) < 4:
            seen.add(sid)
            res['known'].append({'sid': sid, 'n': n, 'check': chk, 'kf': 'F9'})
    res['drift'] = sorted(set(drift))[:50]
    # the generator's values and the validator's verdicts must tell the same story (both are TLC evaluating Codec.tla)
    if pid == 'C16' and not replay:
        exp = {'h-' + v['id']: v for v in vectors if v['k'] == 'hash'}
        differ = set()
        for e in events:
            v = exp.get(e['sid'])
            if e['a'] != 'Hash' or v is None:
                continue
            ok = e['crc'] == v['crc'] and e['crcs'] == v['crc']
            if v['what'] != 'crc':
                ok = ok and e['fnv'] == v['fnv'] and e['ufnv'] == v['fnv'] and e['mur'] == v['mur'] and e['vh'] == v['vh'] \
                    and e['pvh'] == v['vh'] and e['kh'] == v['fnv'] + v['mur'] and e['kh2'] == e['kh']
            if not ok:
                differ.add(e['sid'])
        judged = {sid for sid, n, chk in bad if chk.startswith('C16_') and sid in exp}
        if differ != judged:
            raise V.Inconclusive('generated vectors and validation disagree on %s' % sorted(differ ^ judged)[:5])
    # ---- evidence
    if pid == 'C16':
        seen, nt, idx = set(), set(), set()
        for v in vectors:
            if v['k'] != 'hash':
                continue
            h = hashlib.sha1(bytes(v['bytes'])).hexdigest()
            seen.add(h)
            if any(b >= 0x80 for b in v['bytes']) or len(v['bytes']) > 1024:
                nt.add(h)
            idx.update(v.get('idx') or [])
        hv = [v for v in vectors if v['k'] == 'hash']
        samples = []
        for want in ('s52', 'r5_0', 'r1025_0'):
            for v in hv:
                if v['id'] == want:
                    ob = [e for e in events if e['sid'] == 'h-' + want]
                    samples.append({'vector_from_tlc': short(v, 24), 'observed': short(ob[0], 24) if ob else None})
        cov.update({
            'evaluations': len([e for e in events if e['a'] == 'Hash']), 'distinct_nontrivial': len(nt),
            'rule': 'inputs: all 2801 strings of length 0..4 over {00,01,61,7f,80,fe,ff} enumerated by TLC + seeded strings of every '
                    'length 0..300 and %s + long CRC inputs; distinct by SHA-1 of the bytes; non-trivial = contains a byte >= 0x80 '
                    '(signed-byte quirk changes the FNV) or is longer than 1024 bytes (two-segment value hash)' % SPECIAL,
            'samples': samples or [short(hv[0])] if hv else [short(events[0])],
            'distinct_inputs': len(seen), 'max_input_len': max([len(v['bytes']) for v in hv] or [0]),
            'crc_table_indices_hit': len(idx), 'exhaustive': False,
            'exhaustive_part': 'the 2801 short strings (complete enumeration); everything else is sampled',
            'layout_records_crc_checked': sum(len(e['recs']) for e in events if e['a'] == 'Layout'),
        })
    else:
        nt = set()
        for e in events:
            if e['a'] == 'ScanFile' and any(y[2] > 0 for y in e['yields']):
                nt.add(json.dumps([e['base'], e['dmg'], e['trunc']]))
            if e['a'] == 'Detect' and e['pos'] < 24 + e['ksz'] + e['vsz']:
                nt.add(json.dumps([e['ksz'], e['vsz'], e['pos'], e['mask'], e['pre'], e['post']]))
        samples = []
        for kind in ('ScanFile', 'Detect', 'Layout'):
            for e in events:
                if e['a'] == kind and (kind != 'ScanFile' or any(y[2] > 0 for y in e['yields'])):
                    samples.append({'scenario': short(byid[e['sid']], 12), 'observation': short(e, 24)})
                    break
        cov.update({
            'states': states, 'transitions': trans,
            'traces_validated_against_impl': len(per),
            'samples': samples or [short(events[0])],
            'evaluations': len(events), 'distinct_nontrivial': len(nt),
            'rule': 'scan files: every abstract file enumerated by TLC (MC_Scan) or a seeded sample of them + seeded files of 1..50 '
                    'records, executed on the real writer/reader; detection: single-byte XOR alterations; non-trivial = a distinct file '
                    'in which the real scanner yielded a record after skipping a broken region, or a distinct alteration of a header/'
                    'key/value byte',
            'scan_files': len([e for e in events if e['a'] == 'ScanFile']),
            'alterations': len([e for e in events if e['a'] == 'Detect']),
            'layout_files': len([e for e in events if e['a'] == 'Layout']),
            'layout_records': sum(len(e['recs']) for e in events if e['a'] == 'Layout'),
            'f9_hits_on_real_code': nf9, 'scans_ended_with_error': stat.get('abort', 0), 'files_where_model_predicts_F9': stat.get('f9', 0),
            'mc_runs': mcruns, 'exhaustive': bool(mcruns) and tier == 'thorough' and cov.get('files_executed') == cov.get('files_enumerated_by_tlc'),
            'exhaustive_part': 'MC_Scan is exhaustive in its bounds; executed files: see files_executed / files_enumerated_by_tlc',
        })
    cov['events_validated'] = len(events)
    cov['trace_states'] = stat.get('trace_states', 0)
    cov['drift'] = len(drift)
    cov['model_only_leads'] = len(res['lead'])
    if replay:
        cov.setdefault('evaluations', len(events))
    res['coverage'] = cov
    res['scen'] = byid
    res['assumptions'] = [PROPS[pid]['note']]
    res['wall'] = time.time() - t0
    return res
