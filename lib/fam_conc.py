"""Schedule family: C04 (concurrent clients), C05 (GC beside live traffic); helper for the single-pass clause of C17.

(a) MC_Conc.tla: free interleaving of writers, a reader, flusher, rotation flusher and one GC pass over Bucket.tla
(b) gated schedules on the real code: client operations executed at exact GC hook points (every placement of a client
    write/read relative to newest-check, copy, repoint, hint write, source clear), validated by Trace_Bucket.tla which
    advances the specification's pass to the same point
(c) free-running client goroutines (+ flusher / hint dumper / GC) whose invoke/response history is validated by
    Trace_Conc.tla (per-key register with versions)."""
import json, os, random, time
import vcommon as V

READY = True
PROPS = {
 'C04': dict(level='model_checking', design='DESIGN.md 6 C04',
   text='MC_Conc.tla explores every interleaving of the critical sections of 2 writers, a reader, the flusher and the post-rotation flusher of Bucket.tla (append, tree update, flush write, buffer detach, read by position) and checks distinct/ordered versions, read freshness and the final state. On the real code 2-8 client goroutines (with flusher, hint dumper, rotation) hammer shared keys; the recorded invoke/response history is validated by TLC against the per-key versioned register (Trace_Conc.tla).',
   note='Free-running histories are samples of the schedule space (Gosched injection, no deterministic scheduler); read ERRORS are counted, not violations; concurrent incr and explicit revisions excluded as the property says.',
   technique='TLA+ model checking (TLC, all interleavings of the modelled steps) + TLC validation of recorded concurrent histories'),
 'C05': dict(level='model_checking', design='DESIGN.md 6 C05',
   text="MC_Conc.tla with a GC pass: every placement of a client write/read relative to GC newest-check, copy, repoint, hint write and source clear (TLC found the lost-write window of the unrepaired two-step repoint, finding F4, and the unflushed-rotated-file window, F15). On the real code client operations are executed AT the GC hook points (the pass is parked there), for every hook point x operation x store shape of a small grammar; TLC advances the specification\\'s pass to the same point and checks every reply and the final/restarted state against the reference map; plus free-running clients beside GC validated by Trace_Conc.tla.",
   note='GC holds no lock at its hook points, so running the client operation from inside the hook is equivalent to another goroutine running it while the pass is parked. merge=off passes.',
   technique='TLA+ model checking (TLC) + gated schedules on the real code validated by TLC trace validation'),
}

MC_TEMPLATE = '''SPECIFICATION MCSpec
CONSTANTS
  Keys = %(Keys)s
  HashIds = %(HashIds)s
  Clients = %(Clients)s
  Writers = %(Writers)s
  Readers = %(Readers)s
  MaxChunk = %(MaxChunk)s
  OpsPerWriter = %(OpsPerWriter)s
  OpsPerReader = %(OpsPerReader)s
  WithGC = %(WithGC)s
  WithFlush = %(WithFlush)s
  Prefix <- %(Prefix)s
  FileMax = %(FileMax)s
  SplitCap = %(SplitCap)s
  Mutants = %(Mutants)s
CONSTRAINT Bound
INVARIANTS %(INVS)s
CHECK_DEADLOCK FALSE
'''
MC_DEF = dict(Keys='{"a"}', HashIds='{"ha"}', Clients='{"c1", "c2", "r1"}', Writers='{"c1", "c2"}', Readers='{"r1"}', MaxChunk=3,
              OpsPerWriter=1, OpsPerReader=1, WithGC='FALSE', WithFlush='TRUE', Prefix='PrefixNone', FileMax=2, SplitCap=2,
              Mutants='{}', INVS='TypeOK C04_Distinct C04_Read C04_Final NoFatal C02_NoLostAck')


def mc_cfg(**o):
    d = dict(MC_DEF)
    d.update(o)
    return MC_TEMPLATE % d


GC1 = dict(WithGC='TRUE', Keys='{"a", "b"}', HashIds='{"ha", "hb"}', Clients='{"c1", "r1"}', Writers='{"c1"}')
MC = {
    'C04': {'quick': [dict()],
            'thorough': [dict(OpsPerWriter=2), dict(Keys='{"a", "b"}', HashIds='{"ha", "hb"}', OpsPerReader=2)]},
    'C05': {'quick': [dict(GC1, Prefix='PrefixAB')],
            'thorough': [dict(GC1, Prefix='PrefixAB', OpsPerWriter=2), dict(GC1, Prefix='PrefixAdel'),
                         dict(WithGC='TRUE', Prefix='PrefixA2', Clients='{"c1", "r1"}', Writers='{"c1"}', OpsPerWriter=2)]},
}

POINTS = ['g.before', 'g.newest', 'g.copy', 'g.repoint.mid', 'g.repoint', 'g.hint', 'g.srcend']


def conc_templates():
    """every GC hook point x client operation x store shape (small grammar, ~300 scenarios)"""
    shapes = {
        # name: (conf, prefix ops, gc range)
        'inplace': (dict(filemax_blk=2, splitcap=3, bodymax_blk=1),
                    [('set', 'a'), ('set', 'b'), ('set', 'b')], (0, 0)),
        'two': (dict(filemax_blk=2, splitcap=3, bodymax_blk=1),
                [('set', 'a'), ('set', 'b'), ('set', 'b'), ('set', 'c'), ('set', 'c')], (0, 1)),
        'super': (dict(filemax_blk=2, splitcap=3, bodymax_blk=1),
                  [('set', 'a'), ('set', 'a'), ('set', 'a'), ('set', 'b'), ('set', 'b')], (0, 1)),
        'dstbelow': (dict(filemax_blk=4, splitcap=3, bodymax_blk=1),
                     [('set', 'b'), 'restart', ('set', 'a'), ('set', 'b'), 'restart', ('set', 'c')], (1, 1)),
        'tomb': (dict(filemax_blk=2, splitcap=3, bodymax_blk=1),
                 [('set', 'a'), ('del', 'a'), ('set', 'b'), ('set', 'b')], (0, 0)),
    }
    dos = {
        'set': lambda k: [{'op': 'set', 'k': k, 'v': 7}],
        'del': lambda k: [{'op': 'del', 'k': k}],
        'get': lambda k: [{'op': 'get', 'k': k}],
        'setget': lambda k: [{'op': 'set', 'k': k, 'v': 8}, {'op': 'get', 'k': k}],
        'delset': lambda k: [{'op': 'del', 'k': k}, {'op': 'set', 'k': k, 'v': 6}],
    }
    out = []
    n = 0
    for sname, (conf, prefix, rng_) in shapes.items():
        for point in POINTS:
            for dname, do in dos.items():
                for hk in (['a', 'b'] if point not in ('g.before', 'g.srcend') else ['']):
                    for ck in ['a', 'b']:
                        ops = []
                        v = 1
                        for p in prefix:
                            if p == 'restart':
                                ops += [{'op': 'close'}, {'op': 'open', 'rm': []}]
                            elif p[0] == 'set':
                                ops.append({'op': 'set', 'k': p[1], 'v': v, 'nblk': 1})
                                v += 1
                            else:
                                ops.append({'op': 'del', 'k': p[1]})
                        ops.append({'op': 'flush'})
                        ops.append({'op': 'gc', 'begin': rng_[0], 'end': rng_[1], 'merge': False,
                                    'at': [{'point': point, 'k': hk, 'nth': 1, 'do': do(ck)}]})
                        ops += [{'op': 'readall'}, {'op': 'close'}, {'op': 'open', 'rm': ['*.idx.hash']}, {'op': 'readall'}]
                        c = dict(conf, rotflush='auto', buckets=16, bucket=15, height=3, micro=False)
                        out.append({'id': 'ct-%s-%04d' % (sname, n), 'family': 'conc', 'conf': c, 'ops': ops,
                                    'keys': {'a': 'a', 'b': 'b', 'c': 'c'}})
                        n += 1
    # CancelGC at every file boundary (before the first file = g.before, after each file = g.srcend), alone or together
    # with a client write at the same moment; multi-file ranges so that boundaries 2 and 3 exist (finding F20)
    cshapes = dict(shapes)
    cshapes['three'] = (dict(filemax_blk=2, splitcap=3, bodymax_blk=1),
                        [('set', 'a'), ('set', 'b'), ('set', 'b'), ('set', 'c'), ('set', 'c'), ('del', 'a'), ('set', 'c')], (0, 2))
    cshapes['from1'] = (dict(filemax_blk=2, splitcap=3, bodymax_blk=1),
                        [('set', 'a'), ('set', 'b'), ('set', 'b'), ('set', 'c'), ('set', 'c'), ('set', 'a'), ('set', 'c')], (1, 2))
    for sname, (conf, prefix, rng_) in cshapes.items():
        # (the flag may also be raised in the middle of a file - g.newest / g.hint of a record - and must then take
        #  effect at the next boundary only)
        for point, nth, hk in (('g.before', 1, ''), ('g.srcend', 1, ''), ('g.srcend', 2, ''), ('g.srcend', 3, ''),
                               ('g.newest', 1, 'a'), ('g.newest', 1, 'b'), ('g.newest', 2, 'b'), ('g.hint', 1, 'b'), ('g.hint', 1, 'c')):
            for extra in (None, 'set', 'del', 'get'):
                for ck in (['a'] if extra is None else ['a', 'b']):
                    ops = []
                    v = 1
                    for p in prefix:
                        if p == 'restart':
                            ops += [{'op': 'close'}, {'op': 'open', 'rm': []}]
                        elif p[0] == 'set':
                            ops.append({'op': 'set', 'k': p[1], 'v': v, 'nblk': 1})
                            v += 1
                        else:
                            ops.append({'op': 'del', 'k': p[1]})
                    ops.append({'op': 'flush'})
                    do = [{'op': 'cancel'}] + (dos[extra](ck) if extra else [])
                    ops.append({'op': 'gc', 'begin': rng_[0], 'end': rng_[1], 'merge': False,
                                'at': [{'point': point, 'k': hk, 'nth': nth, 'do': do}]})
                    ops += [{'op': 'readall'}, {'op': 'close'}, {'op': 'open', 'rm': ['*.idx.hash']}, {'op': 'readall'}]
                    c = dict(conf, rotflush='auto', buckets=16, bucket=15, height=3, micro=False)
                    out.append({'id': 'cc-%s-%04d' % (sname, n), 'family': 'conc', 'conf': c, 'ops': ops,
                                'keys': {'a': 'a', 'b': 'b', 'c': 'c'}})
                    n += 1
    # a pass over a JUST ROTATED file whose post-rotation flusher has not run yet: the tail of that file is still in the
    # write buffer when the pass starts (finding F15; merge off = the admin default)
    for fm in (2, 3):
        for nover in (0, 1, 2):
            for headflush in (True, False):
                for rng_ in ((0, 0), (0, -1)):
                    ops = []
                    v = 1
                    names = ['a', 'b', 'c'][:fm]
                    for k in names:                       # fills file 0 (nothing flushed yet)
                        ops.append({'op': 'set', 'k': k, 'v': v, 'nblk': 1})
                        v += 1
                    for k in names[:nover]:               # supersedes some of them: rotates, file 0 keeps its buffered tail
                        ops.append({'op': 'set', 'k': k, 'v': v, 'nblk': 1})
                        v += 1
                    if nover == 0:
                        ops.append({'op': 'set', 'k': 'd', 'v': v, 'nblk': 1})
                    if headflush:
                        ops.append({'op': 'flush'})       # the head only; file 0's flusher stays parked
                    ops.append({'op': 'gc', 'begin': rng_[0], 'end': rng_[1], 'merge': False, 'keeprot': True})
                    ops += [{'op': 'rotflush', 'c': 0}, {'op': 'readall'}, {'op': 'close'}, {'op': 'open', 'rm': ['*.idx.hash']}, {'op': 'readall'}]
                    out.append({'id': 'cr-%04d' % n, 'family': 'conc',
                                'conf': dict(filemax_blk=fm, splitcap=3, bodymax_blk=1, rotflush='manual', buckets=16, bucket=15, height=3, micro=False),
                                'ops': ops, 'keys': {'a': 'a', 'b': 'b', 'c': 'c', 'd': 'd'}})
                    n += 1
    return out


def free_scenarios(rng, count, pid, prefix):
    out = []
    for i in range(count):
        nk = rng.choice([2, 3, 4])
        keys = ['a', 'b', 'c', 'd'][:nk]
        ops = [{'op': 'set', 'k': k, 'v': j + 1} for j, k in enumerate(keys[:rng.choice([0, 1, 2])])]
        ops.append({'op': 'free', 'free': {'clients': rng.choice([2, 3, 4, 8]), 'ops': rng.choice([20, 40, 80]),
                                           'seed': rng.randrange(1, 1 << 20), 'flush': True, 'gc': pid == 'C05'}})
        out.append({'id': '%s-%04d' % (prefix, i), 'family': 'free',
                    'conf': {'filemax_blk': rng.choice([2, 3, 4, 8]), 'splitcap': rng.choice([1, 2, 3]), 'bodymax_blk': 1,
                             'buckets': 16, 'bucket': 15, 'height': 3, 'rotflush': 'free', 'micro': True},
                    'keys': {k: k for k in keys}, 'ops': ops})
    return out


def gc2_scenarios():
    """two GC requests for one bucket while the first pass has not registered yet (C17 single-pass clause)"""
    out = []
    for i, fm in enumerate((2, 3)):
        ops = [{'op': 'set', 'k': 'a', 'v': 1}, {'op': 'set', 'k': 'a', 'v': 2}, {'op': 'set', 'k': 'b', 'v': 3},
               {'op': 'set', 'k': 'b', 'v': 4}, {'op': 'set', 'k': 'c', 'v': 5}, {'op': 'set', 'k': 'c', 'v': 6}, {'op': 'set', 'k': 'c', 'v': 7},
               {'op': 'flush'}, {'op': 'gc2', 'begin': 0, 'end': -1}, {'op': 'readall'}]
        out.append({'id': 'gc2-%d' % i, 'family': 'gc2', 'keys': {'a': 'a', 'b': 'b', 'c': 'c'},
                    'conf': {'filemax_blk': fm, 'splitcap': 3, 'bodymax_blk': 1, 'buckets': 16, 'bucket': 15, 'height': 3}, 'ops': ops})
    return out


def gcp_scenarios():
    """pretend mode: two dry-run requests, then a real one, over stores with 2 and 3 collectable files"""
    out = []
    for i, (fm, rng_) in enumerate(((2, (0, -1)), (3, (0, -1)), (2, (0, 0)), (2, (1, -1)))):
        ops = [{'op': 'set', 'k': 'a', 'v': 1}, {'op': 'set', 'k': 'a', 'v': 2}, {'op': 'set', 'k': 'b', 'v': 3},
               {'op': 'set', 'k': 'b', 'v': 4}, {'op': 'set', 'k': 'c', 'v': 5}, {'op': 'set', 'k': 'c', 'v': 6}, {'op': 'set', 'k': 'c', 'v': 7},
               {'op': 'flush'}, {'op': 'gcp', 'begin': rng_[0], 'end': rng_[1]}, {'op': 'readall'}]
        out.append({'id': 'gcp-%d' % i, 'family': 'gc2', 'keys': {'a': 'a', 'b': 'b', 'c': 'c'},
                    'conf': {'filemax_blk': fm, 'splitcap': 3, 'bodymax_blk': 1, 'buckets': 16, 'bucket': 15, 'height': 3}, 'ops': ops})
    return out


def check_gcp(traces):
    """C17 pretend clause from GCP events: a dry run registers nothing, changes no file, and refuses nobody after it"""
    bad = []
    n = 0
    for sid, evs in traces.items():
        for e in evs:
            if e.get('a') != 'GCP':
                continue
            n += 1
            ok = (e['p1'][2] == '' and e['p2'][2] == e['p1'][2] and e['reg1'] == 0 and e['reg2'] == 0 and not e['changed']
                  and e['real'][2] == '' and not e['stillrunning'] and e['p1'][:2] == e['p2'][:2] == e['real'][:2])
            # (a range that is refused must be refused alike by all three requests)
            if e['p1'][2] != '':
                ok = e['p2'][2] != '' and e['real'][2] != '' and e['reg1'] == 0 and e['reg2'] == 0 and not e['changed']
            if not ok:
                bad.append((sid, e['n'], 'C17_Pretend'))
    return bad, n


def check_gc2(traces):
    """returns list of (sid, n, check) from GC2 events: both requests accepted, or two passes overlapped"""
    bad = []
    n_ok = 0
    for sid, evs in traces.items():
        for e in evs:
            if e.get('a') != 'GC2':
                continue
            n_ok += 1
            ok1, ok2 = e['r1'][2] == '', e['r2'][2] == ''
            active = 0
            overlap = False
            for kind, p in e.get('passes', []):
                if kind == 'register':
                    active += 1
                    overlap = overlap or active > 1
                elif kind == 'end':
                    active -= 1
            if (ok1 and ok2) or overlap:
                bad.append((sid, e['n'], 'C17_Single'))
    return bad, n_ok


def run(pid, tier, seed, work, log, replay=None):
    t0 = time.time()
    res = {'violations': [], 'known': [], 'drift': [], 'lead': [], 'coverage': {}}
    states = trans = 0
    mcruns = []
    if not replay:
        for i, over in enumerate(MC[pid][tier]):
            r = V.tlc_run('MC_Conc', mc_cfg(**over), os.path.join(work, 'mc%d' % i), timeout=3000)
            mcruns.append({'module': 'MC_Conc', 'constants': over, 'distinct': r['distinct'], 'generated': r['states'],
                           'depth': r['depth'], 'wall_s': round(r['wall'], 1), 'violated': r['violated']})
            states += r['distinct']
            trans += r['states']
            log('MC_Conc %s: %d distinct / %d generated, depth %d, %.1fs%s' % (over, r['distinct'], r['states'], r['depth'], r['wall'],
                                                                                (' VIOLATED ' + str(r['violated'])) if r['violated'] else ''))
            if r['error'] or r['timeout']:
                raise V.Inconclusive('TLC failed: %s\n%s' % (r['error'] or 'timeout', r['out'][-1500:]))
            if r['violated']:
                res['lead'].append(('MC', 'MC_Conc', r['violated']))
        if pid == 'C05':
            # "... (or is cancelled)": CancelGC enabled at every step of every pass of the sequential configuration
            import fam_seq
            for j, (over, expect) in enumerate(
                    [(dict(MaxOps=5, WithGC='TRUE', FileMax=2, Vals='{1}', Revs='{0}', MaxChunk=3, Mutants='{"cancel"}'), None)] +
                    ([(dict(MaxOps=5, WithGC='TRUE', FileMax=2, Vals='{1}', Revs='{0}', MaxChunk=3, Mutants='{"cancel", "F20"}'), 'C01_ReadMap'),
                      (dict(MaxOps=6, MaxRestarts=1, WithGC='TRUE', FileMax=2, Vals='{1}', Revs='{0}', MaxChunk=4, Mutants='{"cancel"}'), None)]
                     if tier == 'thorough' else [])):
                r = V.tlc_run('MC_Seq', fam_seq.mc_cfg(over), os.path.join(work, 'mcc%d' % j), timeout=3000)
                mcruns.append({'module': 'MC_Seq', 'constants': over, 'distinct': r['distinct'], 'generated': r['states'],
                               'depth': r['depth'], 'wall_s': round(r['wall'], 1), 'violated': r['violated'], 'expected_violation': expect})
                states += r['distinct']
                trans += r['states']
                log('MC_Seq+cancel %s: %d distinct / %d generated, %.1fs%s' % (over, r['distinct'], r['states'], r['wall'],
                                                                               (' VIOLATED ' + str(r['violated'])) if r['violated'] else ''))
                if r['error'] or r['timeout']:
                    raise V.Inconclusive('TLC failed: %s\n%s' % (r['error'] or 'timeout', r['out'][-1500:]))
                if expect and r['violated'] != expect:
                    raise V.Inconclusive('self-test: the specification mutant F20 (old endGCWriting) was not rediscovered by TLC')
                if r['violated'] and not expect:
                    res['lead'].append(('MC', 'MC_Seq+cancel', r['violated']))
    rng = random.Random(seed * 15485863 + int(pid[1:]))
    gated, free = [], []
    if replay:
        sc = json.load(open(replay))
        (free if sc.get('family') == 'free' else gated).append(sc)
    else:
        if pid == 'C05':
            gated = conc_templates()
            if tier == 'quick':
                always = [g for g in gated if g['id'].startswith('cr-')]        # (24: pass over a just rotated file)
                gated = rng.sample([g for g in gated if not g['id'].startswith('cr-')], 320) + always
        free = free_scenarios(rng, {'quick': 24, 'thorough': 300}[tier], pid, '%s-free-%d' % (pid.lower(), seed))
        fixed = os.path.join(V.VERIF, 'scenarios', 'fixed', pid)
        if os.path.isdir(fixed):
            for f in sorted(os.listdir(fixed)):
                if f.endswith('.json'):
                    sc = json.load(open(os.path.join(fixed, f)))
                    (free if sc.get('family') == 'free' else gated).append(sc)
    tb = V.build_harness(work)
    scen = gated + free
    traces, crashed = V.run_scenarios(tb, scen, work, timeout=1500)
    res['violations'] += V.crash_verdicts(crashed, pid)
    res['violations'] += V.died_verdicts(traces, pid)
    nval = 0
    nevents = 0
    nontrivial = set()
    # (b) gated schedules -> Trace_Bucket
    if gated:
        allev = []
        for s in gated:
            if s['id'] in traces:
                l1 = V.normalize_l1(traces[s['id']])
                allev += l1
                nval += 1
                if any(e['a'] == 'GCAt' for e in l1):
                    nontrivial.add(json.dumps(s['ops'], sort_keys=True))
        r = V.tlc_validate(allev, os.path.join(work, 'tv'))
        if not r['accepted']:
            raise V.Inconclusive('gated trace validation did not consume the whole trace: %s\n%s' % (r.get('tlc_error'), r['out'][-1500:]))
        nevents += len(allev)
        for sid, n, chk in r['bad']:
            name, _, kf = chk.partition('!')
            if name.startswith(('C01_', 'C02_', 'C03_', 'C13_')):      # a wrong read in a concurrent-GC scenario is C05
                name = 'C05_' + name[4:]
            if not name.startswith(pid + '_'):
                continue
            res['violations' if not kf else 'known'].append({'sid': sid, 'n': n, 'check': name, 'kf': kf})
        res['drift'] += r['drift']
        res['lead'] += list(r['lead'])
    # (c) free-running histories -> Trace_Conc
    nerr = 0
    if free:
        allev = []
        for s in free:
            if s['id'] in traces:
                lc = V.normalize_conc(traces[s['id']])
                allev += lc
                nval += 1
                nerr += sum(1 for e in lc if e['a'] == 'Res' and e.get('res') == 'err')
                procs = {e['p'] for e in lc if e['a'] == 'Inv'}
                if len(procs) >= 2:
                    nontrivial.add(s['id'])
        r = V.tlc_validate_conc(allev, os.path.join(work, 'tvc'))
        if not r['accepted']:
            raise V.Inconclusive('history validation did not consume the whole trace: %s\n%s' % (r.get('tlc_error'), r['out'][-1500:]))
        nevents += len(allev)
        for sid, n, chk in r['bad']:
            name = chk.replace('C04_', pid + '_') if pid == 'C05' else chk
            res['violations'].append({'sid': sid, 'n': n, 'check': name, 'kf': ''})
        # level 2: the hook micro-events of the same runs against the write-path / flush-path protocol of Bucket.tla
        lev = []
        for s in free:
            if s['id'] in traces:
                lev += V.normalize_lock(traces[s['id']])
        if len(lev) > len(free):
            r2 = V.tlc_validate_conc(lev, os.path.join(work, 'tvl'), module='Trace_Lock')
            if not r2['accepted']:
                raise V.Inconclusive('protocol validation did not consume the whole trace: %s\n%s' % (r2.get('tlc_error'), r2['out'][-1500:]))
            nevents += len(lev)
            res['coverage_l2'] = len(lev)
            for sid, n, chk in r2['bad']:
                name = chk.replace('C04_', pid + '_') if pid == 'C05' else chk
                res['violations'].append({'sid': sid, 'n': n, 'check': name, 'kf': ''})
    sample = scen[0]
    res['coverage'] = {
        'states': states, 'transitions': trans, 'traces_validated_against_impl': nval,
        'samples': [{'scenario': sample}],
        'evaluations': len(scen), 'distinct_nontrivial': len(nontrivial),
        'rule': 'gated: one scenario per (store shape, GC hook point, client operation, keys) where the pass really parked at the point; '
                'free-running: histories with >= 2 client goroutines',
        'events_validated': nevents, 'micro_events_validated': res.get('coverage_l2', 0), 'read_errors_counted': nerr, 'mc_runs': mcruns, 'exhaustive': bool(mcruns),
        'drift': len(res['drift']), 'model_only_leads': len(res['lead']),
    }
    res['assumptions'] = ['free-running schedules are samples; the gated grammar enumerates hook point x operation x shape']
    res['scen'] = {s['id']: s for s in scen}
    return res
