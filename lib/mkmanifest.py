#!/usr/bin/env python3
"""Regenerates /verif/MANIFEST.json from the table below (single source of truth)."""
import json, os
HERE = os.path.dirname(os.path.dirname(os.path.abspath(__file__)))
BASELINE_OFF = "cd /repo && GOFLAGS=-mod=mod GOPROXY=off GOSUMDB=off GOTOOLCHAIN=local go test -json -vet=off -count=1 -timeout 25m ./..."
import glob, importlib, sys
sys.path.insert(0, os.path.join(HERE, 'lib'))
CLAIMS = {}
for f in sorted(glob.glob(os.path.join(HERE, 'lib', 'fam_*.py'))):
    mod = importlib.import_module(os.path.basename(f)[:-3])
    if getattr(mod, 'READY', False):   # a family is claimed only once the main session has verified it
        CLAIMS.update(getattr(mod, 'PROPS', {}))
NOT_YET = {}
def main():
    allp = [json.loads(l)['id'] for l in open(os.path.join(HERE, 'properties.jsonl'))]
    checks = []
    for pid in allp:
        if pid not in CLAIMS:
            continue
        c = CLAIMS[pid]
        checks.append({
            'property_id': pid,
            'quick_cmd': './check %s --tier quick' % pid,
            'thorough_cmd': './check %s --tier thorough' % pid,
            'evidence_file': '/verif/evidence/%s.json' % pid,
            'replay_cmd_template': './check %s --replay {path}' % pid,
            'engine': 'tlc',
            'level_claimed': {'category': c['level'], 'text': c['text'], 'design_ref': c['design']},
            'level_note': c['note'],
            'technique': c['technique'],
        })
    na = [{'property_id': p, 'reason': NOT_YET.get(p, 'check not built yet in this session (work in progress; see DESIGN.md 9.3 build order)')}
          for p in allp if p not in CLAIMS]
    m = {
        'version': 1,
        'setup_cmd': 'cd /verif && ./setup.sh',
        'hooks': {'guard': 'verif', 'enable': 'go test -tags verif -overlay <harness overlay> (hooks are `if utils.VerifOn { utils.Verif(...) }` one-liners)',
                  'baseline_off_cmd': BASELINE_OFF,
                  'source_commits': ['ab90584', 'e3eb092', '9137260'], 'add_only': True},
        'engines': [
            {'name': 'tlc', 'path': '/verif/spec', 'serves_properties': sorted(CLAIMS), 'kind_free_text': 'TLA+ specification Bucket.tla + MC_*/Trace_* configurations checked with TLC'},
            {'name': 'go-harness', 'path': '/verif/harness', 'serves_properties': sorted(CLAIMS), 'kind_free_text': 'in-package Go test files overlaid on /repo (never copied into it); executes scenarios, records ndjson traces'},
        ],
        'checks': checks,
        'not_applicable': na,
        'notes': 'All verdicts are TLC verdicts about executions of the code built from /repo\'s working tree; see DESIGN.md.',
    }
    json.dump(m, open(os.path.join(HERE, 'MANIFEST.json'), 'w'), indent=1)
    print('claimed', sorted(CLAIMS), 'not yet', [x['property_id'] for x in na])
if __name__ == '__main__':
    main()
