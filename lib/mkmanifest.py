#!/usr/bin/env python3
"""Regenerates /verif/MANIFEST.json from the table below (single source of truth)."""
import json, os
HERE = os.path.dirname(os.path.dirname(os.path.abspath(__file__)))
BASELINE_OFF = "cd /repo && GOFLAGS=-mod=mod GOPROXY=off GOSUMDB=off GOTOOLCHAIN=local go test -json -vet=off -count=1 -timeout 25m ./..."
CLAIMS = {
 'C01': dict(level='model_checking', design='DESIGN.md 6 C01',
   text='Bucket.tla (write/read/incr/flush/rotation at critical-section grain, reference map by the documented version arithmetic) is model-checked exhaustively for small constants (all positions of flush and rotation, check_vhash on/off); seeded random and fixed histories are executed on the real HStore built from the working tree and every logged reply is validated by TLC against the reference map (level-1 trace validation).',
   note='Trusted: TLC, the harness value-id table (byte equality), hooks only park the post-rotation flusher. Values up to a few KB (not body_max); one served bucket per scenario; memcached text path is covered by C11.',
   technique='TLA+ model checking (TLC) + TLC trace validation of real executions'),
 'C02': dict(level='model_checking', design='DESIGN.md 6 C02',
   text='MC_Seq with clean restarts: every subset of tree dump / hint files removed before Open, the post-rotation flusher released at any point or never (shutdown race); Recover(disk) transcribes Bucket.open. Real executions: close/reopen at random positions with index files deleted, replies validated by TLC against the reference map.',
   note='Merged hint (*.idx.m) subsets only when a merge ran; versions of deleted keys and of tree-only revision changes are adopted from the implementation as the property allows.',
   technique='TLA+ model checking (TLC) + TLC trace validation of real executions'),
 'C03': dict(level='model_checking', design='DESIGN.md 6 C03',
   text='GC (range check, destination choice, in-place rewrite, copy, two-step tree repoint, hint write, source clear, truncate) is part of Bucket.tla at the grain of gc.go; MC_Seq with GC enumerates every accepted (begin,end) over small multi-file histories incl. restarts; on the real store random histories with GC passes (also repeated, followed by writes and restarts with index subsets removed) are executed and all reads validated by TLC against the reference map.',
   note='merge=off passes only so far (merge-on GC sleeps SecsBeforeDump+1 s per pass and is exercised in the thorough tier only when enabled); GC is requested only when no post-rotation flush is pending (that schedule belongs to C05).',
   technique='TLA+ model checking (TLC) + TLC trace validation of real executions'),
 'C17': dict(level='model_checking', design='DESIGN.md 6 C17',
   text='RangeOf (gcCheckStart/End/Range with the age predicate as input) is part of Bucket.tla; every GC request of the scenarios is compared with it (accepted range or refusal), and the before/after inventory of the data files (sizes, content hashes of the old prefix) is checked against the frame clause: files outside [begin,end] keep their bytes, at most one earlier file grows, nothing at or above the head is touched.',
   note='The "at most one pass per bucket" clause (two concurrent requests) is checked by the schedule family once built; pretend mode and days>0 arguments are exercised through gcCheckRange only.',
   technique='TLA+ model checking (TLC) + TLC trace validation of real executions'),
 'C18': dict(level='model_checking', design='DESIGN.md 6 C18',
   text='After every GC pass the data files are scanned with an independent record reader (own header parse + stdlib CRC-32); TLC checks that every record surviving in the collected range is the newest record of its key (by the specification\'s record history), exactly once, and that an identical second pass releases nothing. The same invariants are model-checked on Bucket.tla (C18_OnlyCurrent, C18_Once) where TLC rediscovers finding F7.',
   note='Known finding F7 (superseded tombstone kept when the key is absent from a rebuilt tree and begin > 0) is excused by its predicate only; colliding keys excluded as the property says.',
   technique='TLA+ model checking (TLC) + TLC trace validation of real executions'),
}
NOT_YET = {}
def main():
    allp = [json.loads(l)['id'] for l in open(os.path.join(HERE, 'properties.jsonl'))]
    checks = []
    for pid in allp:
        if pid not in CLAIMS:
            continue
        c = CLAIMS[pid]
        checks.append({
            'property_id': pid,
            'quick_cmd': './check %s --tier quick' % pid,
            'thorough_cmd': './check %s --tier thorough' % pid,
            'evidence_file': '/verif/evidence/%s.json' % pid,
            'replay_cmd_template': './check %s --replay {path}' % pid,
            'engine': 'tlc',
            'level_claimed': {'category': c['level'], 'text': c['text'], 'design_ref': c['design']},
            'level_note': c['note'],
            'technique': c['technique'],
        })
    na = [{'property_id': p, 'reason': NOT_YET.get(p, 'check not built yet in this session (work in progress; see DESIGN.md 9.3 build order)')}
          for p in allp if p not in CLAIMS]
    m = {
        'version': 1,
        'setup_cmd': 'cd /verif && ./setup.sh',
        'hooks': {'guard': 'verif', 'enable': 'go test -tags verif -overlay <harness overlay> (hooks are `if utils.VerifOn { utils.Verif(...) }` one-liners)',
                  'baseline_off_cmd': BASELINE_OFF,
                  'source_commits': ['ab90584', 'e3eb092'], 'add_only': True},
        'engines': [
            {'name': 'tlc', 'path': '/verif/spec', 'serves_properties': sorted(CLAIMS), 'kind_free_text': 'TLA+ specification Bucket.tla + MC_*/Trace_* configurations checked with TLC'},
            {'name': 'go-harness', 'path': '/verif/harness', 'serves_properties': sorted(CLAIMS), 'kind_free_text': 'in-package Go test files overlaid on /repo (never copied into it); executes scenarios, records ndjson traces'},
        ],
        'checks': checks,
        'not_applicable': na,
        'notes': 'All verdicts are TLC verdicts about executions of the code built from /repo\'s working tree; see DESIGN.md.',
    }
    json.dump(m, open(os.path.join(HERE, 'MANIFEST.json'), 'w'), indent=1)
    print('claimed', sorted(CLAIMS), 'not yet', [x['property_id'] for x in na])
if __name__ == '__main__':
    main()
