"""Property family C14 - hint files: faithful round-trip, total lookup, correct merge.

(a) exhaustive model checking of spec/HintFile.tla (MC_HintFile) over small abstract files;
(b) cases (TLC-enumerated abstract cases materialised with real 64-bit hashes and 1..250 byte keys,
    seeded random multisets of 0..5000 items in 1..8 files, fixed regression cases) executed on the
    REAL HintBuffer.Dump / hintFileReader / loadHintIndex / hintFileIndex.get / merge()+CollisionTable
    by harness/store/zz_verif_hint_test.go (observations only);
(c) TLC (spec/Trace_HintFile.tla) validates every observation against the specification side of
    HintFile.tla; failures are accumulated in `bad` and mapped to verdicts here.
"""
import bisect, hashlib, json, os, random, re, time, copy, shutil, subprocess, sys
from concurrent.futures import ThreadPoolExecutor
import vcommon as V

READY = True
PROPS = {
 'C14': dict(level='model_checking', design='DESIGN.md 6 C14',
   text='HintFile.tla states the hint-file property declaratively (Sorted, LookupSpec, MergeSpec, CollisionsSpec) and '
        'transcribes the code (writeItem index rule, hintFileReader, hintFileIndex.get incl. the j>1 quirk and the lagging '
        'end-of-items test of finding F1, merge heap + mergeWriter). TLC checks the transcription against the declarative '
        'side exhaustively for small abstract files (5 hash points x 3 keys, <=6 items, 1-3 overlapping files, index '
        'interval every item / every 2nd / none, ALL lookups). TLC-enumerated cases and seeded random multisets (0..5000 '
        'items, 1..8 files, IndexIntervalSize 64 B..4 KB, key lengths 1..250, hashes incl. 0 and 2^64-1, same-hash groups, '
        'duplicates across files) are executed on the real Dump/reader/loadHintIndex/get/merge code and every observation '
        '(items read back, data size, every lookup answer, merged file, collision table) is validated by TLC against the '
        'specification.',
   note='Assumptions: merge() is never given an EMPTY hint file (it dereferences the first item of each source; the store '
        'never writes one, needDump requires items); positions (chunk, offset) of the same key differ between sources; keys '
        'are printable ASCII without quote/backslash (Go string order is transcribed over that alphabet); offsets+record '
        'sizes stay below 2^32. Big random cases are samples, not enumeration. Trusted: TLC, the JSON reformatting and the '
        'bisection witnesses of the orchestrator (every witness is re-verified by TLC).',
   technique='TLA+ model checking (TLC) + TLC validation of observations of the real code'),
}

ASSUMPTIONS = [
    'merge() is never called with an empty hint file as a source (nil dereference in merge(); the store never writes empty hint files)',
    'positions (chunk, offset) of one key differ between source files',
    'keys are printable ASCII (0x21..0x7e) without double quote and backslash',
]

# many JVMs run side by side: keep each one's GC / JIT threads few (measured: 36 s -> 7 s CPU per validation shard)
JAVA_SHORT = ['-Xmx6g', '-Xss64m', '-XX:ParallelGCThreads=2', '-XX:TieredStopAtLevel=1']
JAVA_MC = ['-Xmx8g', '-Xss64m', '-XX:ParallelGCThreads=4']

KEYCHARS = "!#$%&'()*+,-./0123456789:;<=>?@ABCDEFGHIJKLMNOPQRSTUVWXYZ[]^_`abcdefghijklmnopqrstuvwxyz{|}~"
M64 = (1 << 64) - 1

# ----------------------------------------------------------------------------- (a) model checking
MC_TEMPLATE = '''SPECIFICATION Spec
CONSTANTS
  NH = {NH}
  NK = {NK}
  MaxItems = {MaxItems}
  MaxFiles = {MaxFiles}
  Intervals = {Intervals}
  Mutants = {Mutants}
  GenMode = {GenMode}
INVARIANTS {INVS}
CHECK_DEADLOCK FALSE
'''
MC_DEFAULTS = dict(NH=5, NK=3, MaxItems=6, MaxFiles=1, Intervals='{64, 303, 329, 1279}', Mutants='{}', GenMode='FALSE',
                   INVS='Inv_RoundTrip Inv_Lookup Inv_F1Exact Inv_Merge')
ALL_IV = '{64, 303, 329, 1279}'

MC = {
    'quick': [
        dict(NH=5, NK=3, MaxItems=4, MaxFiles=1),                                   # single file, all lookups
        dict(NH=2, NK=3, MaxItems=3, MaxFiles=2, Intervals='{64}', INVS='Inv_Merge'),  # groups of 3, two sources
    ],
    'thorough': [
        dict(NH=5, NK=3, MaxItems=6, MaxFiles=1),
        dict(NH=3, NK=2, MaxItems=3, MaxFiles=3, Intervals='{64}', INVS='Inv_Merge'),
        dict(NH=2, NK=3, MaxItems=4, MaxFiles=2, Intervals='{64, 303}', INVS='Inv_Merge'),
    ],
}
# specification mutants: each must be REJECTED by the named invariant (the invariants are not vacuous;
# "F1" is the code as it is today - TLC rediscovers the finding from the transcription)
MC_MUTANTS = [
    ('F1', dict(NH=5, NK=3, MaxItems=4, MaxFiles=1, INVS='Inv_Lookup'), 'Inv_Lookup'),
    ('StartAtJ', dict(NH=4, NK=2, MaxItems=4, MaxFiles=1, INVS='Inv_Lookup'), 'Inv_Lookup'),
    ('IdxMid', dict(NH=4, NK=2, MaxItems=3, MaxFiles=1, INVS='Inv_Lookup'), 'Inv_Lookup'),
    ('OlderWins', dict(NH=2, NK=2, MaxItems=2, MaxFiles=2, Intervals='{64}', INVS='Inv_Merge'), 'Inv_Merge'),
    ('FirstWins', dict(NH=2, NK=2, MaxItems=2, MaxFiles=2, Intervals='{64}', INVS='Inv_Merge'), 'Inv_Merge'),
    ('Group2', dict(NH=1, NK=3, MaxItems=3, MaxFiles=1, Intervals='{64}', INVS='Inv_Merge'), 'Inv_Merge'),
]


def mc_cfg(over):
    d = dict(MC_DEFAULTS)
    d.update(over)
    return MC_TEMPLATE.format(**d)


def _mc_one(args):
    i, over, work, workers, timeout = args
    r = V.tlc_run('MC_HintFile', mc_cfg(over), os.path.join(work, 'mc%s' % i), workers=workers, timeout=timeout,
                  java=JAVA_SHORT if workers <= 2 else JAVA_MC)
    return over, r


def run_mc(tier, work, log):
    """exhaustive configurations + (thorough, or quick: F1 only) the specification mutants"""
    jobs = [(i, over, work, 4 if tier == 'quick' else 8, 1500) for i, over in enumerate(MC[tier])]
    muts = MC_MUTANTS if tier == 'thorough' else MC_MUTANTS[:1]
    for name, over, inv in muts:
        o = dict(over, Mutants='{"%s"}' % name)
        jobs.append(('m' + name, o, work, 2, 600))
    runs, leads = [], []
    states = trans = 0
    with ThreadPoolExecutor(max_workers=3 if tier == 'quick' else 2) as ex:
        results = list(ex.map(_mc_one, jobs))
    for (jid, over, _, _, _), (_, r) in zip(jobs, results):
        mutant = isinstance(jid, str)
        rec = {'module': 'MC_HintFile', 'constants': over, 'distinct': r['distinct'], 'generated': r['states'],
               'depth': r['depth'], 'wall_s': round(r['wall'], 1), 'violated': r['violated'], 'error': r['error'],
               'timeout': r['timeout'], 'mutant': mutant}
        runs.append(rec)
        log('MC %s: %d distinct states, depth %d, %.1fs%s' % (
            {k: v for k, v in over.items() if k != 'INVS'}, r['distinct'], r['depth'], r['wall'],
            (' VIOLATED ' + str(r['violated'])) if r['violated'] else ''))
        if r['timeout'] or (r['error'] and not r['violated']):
            raise V.Inconclusive('TLC failed on MC_HintFile %s: %s\n%s' % (over, r['error'] or 'timeout', r['out'][-1500:]))
        if mutant:
            want = [m for m in MC_MUTANTS if 'm' + m[0] == jid][0][2]
            if r['violated'] != want:
                raise V.Inconclusive('specification mutant %s was NOT rejected by %s (vacuous invariant?)' % (jid[1:], want))
        else:
            states += r['distinct']
            trans += r['states']
            if r['violated']:
                leads.append(('MC', 'MC_HintFile', r['violated'], json.dumps(over)))
    return states, trans, runs, leads


# ----------------------------------------------------------------------------- (b) case generation
def hx(h):
    return '%016x' % h


def rand_key(rng, n=None):
    if n is None:
        c = rng.random()
        n = 1 if c < 0.05 else 250 if c < 0.10 else rng.randint(2, 24) if c < 0.8 else rng.randint(25, 249)
    return ''.join(rng.choice(KEYCHARS) for _ in range(n))


def key_family(rng, n):
    """n different keys that stress the bytewise order: common prefixes, different lengths"""
    out = set()
    base = rand_key(rng, rng.choice([1, 2, 5, 40, 200]))
    while len(out) < n:
        c = rng.random()
        if c < 0.4 and len(base) < 250:
            k = base + rand_key(rng, rng.randint(1, min(8, 250 - len(base))))
        elif c < 0.6 and len(base) > 1:
            k = base[:rng.randint(1, len(base))]
        elif c < 0.8:
            k = rand_key(rng)
        else:
            k = base[:-1] + rng.choice(KEYCHARS)
        out.add(k)
    return sorted(out)


def hash_points(rng, n):
    """n increasing 64-bit hashes incl. the extremes and adjacent values"""
    mode = rng.random()
    s = set()
    if mode < 0.5:
        s.update([0, M64])
    if mode < 0.25:
        x = rng.getrandbits(64)
        s.update([x, min(M64, x + 1)])
    while len(s) < n:
        c = rng.random()
        if c < 0.6:
            s.add(rng.getrandbits(64))
        elif c < 0.8:
            s.add(rng.getrandbits(rng.choice([8, 16, 32, 42, 43])))          # limb boundaries
        else:
            s.add(M64 - rng.getrandbits(rng.choice([4, 21, 22])))
    return sorted(rng.sample(sorted(s), n))


def gen_tlc_cases(work, tier, log):
    """abstract cases enumerated by TLC (every state of small MC_HintFile configurations)"""
    cfgs = [dict(NH=4, NK=2, MaxItems=4, MaxFiles=1, INVS='Gen', GenMode='TRUE'),
            dict(NH=2, NK=3, MaxItems=2, MaxFiles=2, Intervals='{64, 329}', INVS='Gen', GenMode='TRUE')]
    if tier == 'thorough':
        cfgs.append(dict(NH=2, NK=3, MaxItems=3, MaxFiles=2, Intervals='{64}', INVS='Gen', GenMode='TRUE'))
        cfgs.append(dict(NH=2, NK=2, MaxItems=2, MaxFiles=3, Intervals='{64}', INVS='Gen', GenMode='TRUE'))

    def one(ic):
        i, c = ic
        return V.tlc_run('MC_HintFile', mc_cfg(c), os.path.join(work, 'gen%d' % i), workers=1, timeout=900,
                         java=JAVA_SHORT)
    with ThreadPoolExecutor(max_workers=len(cfgs)) as ex:
        rs = list(ex.map(one, enumerate(cfgs)))
    out = []
    for i, (c, r) in enumerate(zip(cfgs, rs)):
        if r['error'] or r['timeout']:
            raise V.Inconclusive('TLC case generation failed: %s\n%s' % (r['error'], r['out'][-1200:]))
        n0 = len(out)
        for m in re.finditer(r'^"VERIF-CASE (.*)"$', r['out'], re.M):
            js = m.group(1).encode('utf8').decode('unicode_escape')
            d = json.loads(js)
            d['cfg'] = i
            d['NH'], d['NK'] = c['NH'], c['NK']
            out.append(d)
        log('TLC enumerated %d abstract cases (%s)' % (len(out) - n0, {k: v for k, v in c.items() if k not in ('INVS', 'GenMode')}))
    return out


def absent_for(rng, files, cap=80):
    """absent-lookup candidates of every class (TLC decides which are absent in which file)"""
    hs = sorted({int(s['h'], 16) for f in files for s in f['set']})
    keys = {}
    for f in files:
        for s in f['set']:
            keys.setdefault(int(s['h'], 16), set()).add(s['k'])
    q = [(0, 'nokey'), (M64, 'nokey'), (M64, '~'), (1, 'nokey'), (M64 - 1, 'nokey')]
    if hs:
        lo, hi = hs[0], hs[-1]
        q += [(max(0, lo - 1), 'below'), (lo // 2, 'below'), (min(M64, hi + 1), 'above'), (hi + (M64 - hi) // 2, 'above')]
        gaps = [(a, b) for a, b in zip(hs, hs[1:]) if b - a > 1]
        for a, b in rng.sample(gaps, min(10, len(gaps))):
            q += [(a + 1, 'between'), (a + (b - a) // 2, 'between'), (b - 1, 'between')]
        for h in rng.sample(hs, min(10, len(hs))) + [lo, hi]:
            k = rng.choice(sorted(keys[h]))
            alts = ['!', '~~~', k + 'x' if len(k) < 250 else k[:-1], k[:-1] if len(k) > 1 else k + '!',
                    k[:-1] + ('~' if k[-1] != '~' else '}')]
            for a in alts:
                if a and len(a) <= 250:
                    q.append((h, a))
        # per-file extremes (a key above the greatest hash of ONE file is "above all" there)
        for f in files:
            fh = sorted({int(s['h'], 16) for s in f['set']})
            if fh:
                q += [(min(M64, fh[-1] + 1), 'above'), (max(0, fh[0] - 1), 'below'), (fh[-1], '~other~')]
    seen, out = set(), []
    for h, k in q:
        if (h, k) not in seen:
            seen.add((h, k))
            out.append([hx(h), k])
    head, tail = out[:12], out[12:]
    rng.shuffle(tail)
    return (head + tail)[:cap]


def materialise(rng, ac, cid):
    """abstract TLC case -> real case: 64-bit hashes, keys of 1..250 bytes, real interval"""
    NH, NK = ac['NH'], ac['NK']
    hp = hash_points(rng, NH)
    same_len = rng.random() < 0.5
    kl = rng.choice([1, 3, 9, 60, 250])
    kmap = {}
    for h in range(1, NH + 1):
        ks = sorted({rand_key(rng, kl) for _ in range(NK * 3)})[:NK] if same_len else key_family(rng, NK)
        while len(ks) < NK:
            ks = sorted(set(ks) | {rand_key(rng, kl if kl > 1 else 2)})[:NK]
        for k in range(1, NK + 1):
            kmap[(h, k)] = ks[k - 1]
    T = ac['T']
    if T < 0:
        interval = rng.choice([64, 100, 128, 256, 279])
    elif T < 100:
        interval = 279 + 23 + (kl if same_len else rng.randint(1, 60)) + rng.choice([0, 0, 1, 26])
    else:
        interval = rng.choice([1024, 4096])
    files = []
    for f in ac['files']:
        r = f['rank']
        st = []
        for i, (h, k) in enumerate(f['keys']):
            off = ((r % 2) * 1000 + i + 1) * 256
            st.append({'h': hx(hp[h - 1]), 'k': kmap[(h, k)], 'c': 0, 'o': off, 'v': rng.choice([1, 2, -3, 70000, r + 1]),
                       'vh': rng.getrandbits(16), 'z': 256 * rng.randint(1, 3)})
        rng.shuffle(st)
        files.append({'chunk': r // 2, 'set': st})
    absent = [[hx(hp[h - 1]), kmap[(h, k)]] for h in range(1, NH + 1) for k in range(1, NK + 1)]
    absent += [a for a in absent_for(rng, files, 20) if a not in absent]
    return {'id': cid, 'interval': interval, 'files': files, 'absent': absent, 'idxlk': True, 'lkmem': True, 'merge': True,
            'src': 'tlc', 'abstract': {k: ac[k] for k in ('T', 'files', 'cfg')}}


def random_case(rng, cid, size):
    """seeded random multiset: size in 'small' | 'medium' | 'large'"""
    nfiles = rng.randint(1, 8) if size != 'small' else rng.randint(1, 4)
    total = {'small': rng.randint(0, 40), 'medium': rng.randint(41, 700), 'large': rng.randint(1500, 5000)}[size]
    per_file_cap = 5000
    # pool of (hash, key): same-hash groups, clustered or spread hashes
    npool = max(1, int(total * rng.choice([0.4, 0.7, 1.0])))
    mode = rng.random()
    hashes = []
    if mode < 0.55:
        hashes = [rng.getrandbits(64) for _ in range(npool)]
    elif mode < 0.8:
        base = rng.getrandbits(64) & ~0xffff
        hashes = [min(M64, base + rng.randint(0, max(4, npool * 2))) for _ in range(npool)]   # dense: many neighbours
    else:
        hashes = [rng.choice([0, M64, 1, M64 - 1, rng.getrandbits(64), rng.getrandbits(21), rng.getrandbits(43)]) for _ in range(npool)]
    if rng.random() < 0.5:
        hashes[:2] = [0, M64][:len(hashes)]
    pool = set()
    for h in hashes:
        g = rng.random()
        n = 1 if g < 0.85 else 2 if g < 0.95 else rng.randint(3, 5)
        for k in (key_family(rng, n) if n > 1 else [rand_key(rng)]):
            pool.add((h, k))
    if size == 'large' and rng.random() < 0.3:       # one very large same-hash group (mergeWriter buffer growth at 1000)
        h = rng.getrandbits(64)
        for i in range(1100):
            pool.add((h, 'g%04d' % i + rand_key(rng, rng.randint(1, 6))))
    pool = sorted(pool)
    chunks = sorted(rng.choice(range(0, 12)) for _ in range(nfiles))
    used_off = {}
    files = []
    left = total
    for fi in range(nfiles):
        n = left if fi == nfiles - 1 else rng.randint(0, left) if rng.random() < 0.5 else left // (nfiles - fi)
        n = min(n, per_file_cap, len(pool))
        left -= n
        ch = chunks[fi]
        picks = rng.sample(pool, n)
        st = []
        for h, k in picks:
            while True:
                off = rng.randrange(0, 1 << 24) * 256 if rng.random() < 0.9 else rng.randrange(0, (1 << 32) - 70000)
                if off not in used_off.setdefault(ch, set()):
                    used_off[ch].add(off)
                    break
            st.append({'h': hx(h), 'k': k, 'c': 0 if rng.random() < 0.9 else rng.randint(0, 255), 'o': off,
                       'v': rng.choice([1, 2, 3, -1, -2, rng.randint(-2 ** 31, 2 ** 31 - 1)]), 'vh': rng.getrandbits(16),
                       'z': 256 * rng.randint(1, 200) if off < (1 << 32) - 60000 else 256})
        if size == 'small' and st and rng.random() < 0.4:     # the same key Set twice into one buffer: last wins
            for _ in range(rng.randint(1, 3)):
                d = dict(rng.choice(st))
                while True:
                    off = rng.randrange(0, 1 << 24) * 256
                    if off not in used_off[ch]:
                        used_off[ch].add(off)
                        break
                d.update(o=off, v=d['v'] + 1 if d['v'] < 2 ** 31 - 1 else 1)
                st.insert(rng.randint(0, len(st)), d)
        files.append({'chunk': ch, 'set': st})
    interval = rng.choice([64, 96, 128, 256, 279, 300, 303, 320, 330, 400, 512, 600, 1024, 2048, 4096, 4096])
    return {'id': cid, 'interval': interval, 'files': files, 'absent': absent_for(rng, files), 'idxlk': True,
            'lkmem': size != 'large' or rng.random() < 0.3, 'merge': True, 'src': 'random-' + size}


def rollover_case(rng, cid, n=4200):
    """ONE hint file with more than 4096 items and an index entry for every item: the sparse index buffer fills a whole
    row (4096 entries) and starts the next one"""
    hs = sorted(rng.sample(range(1, 1 << 40), n))
    st = [{'h': hx(h << 20), 'k': 'k%05d' % i, 'c': 0, 'o': 256 * (i + 1), 'v': 1 + i % 5, 'vh': i % 65536, 'z': 256} for i, h in enumerate(hs)]
    rng.shuffle(st)
    files = [{'chunk': 3, 'set': st}]
    return {'id': cid, 'interval': 280, 'files': files, 'absent': absent_for(rng, files), 'idxlk': True, 'lkmem': False, 'merge': True,
            'src': 'rollover'}


def gen_cases(tier, seed, work, log):
    rng = random.Random(seed * 7919 + (1 if tier == 'quick' else 2))
    abstract = gen_tlc_cases(work, tier, log)
    if tier == 'quick':
        pick = rng.sample(abstract, min(260, len(abstract)))
    else:                             # every case of the two small configurations, a seeded sample of the larger ones
        pick = []
        for cfg in sorted({a['cfg'] for a in abstract}):
            grp = [a for a in abstract if a['cfg'] == cfg]
            pick += grp if cfg < 2 else rng.sample(grp, min(3500, len(grp)))
    cases = [materialise(rng, ac, 't%d' % i) for i, ac in enumerate(pick)]
    plan = {'quick': dict(small=150, medium=30, large=2), 'thorough': dict(small=3000, medium=600, large=36)}[tier]
    i = 0
    for size in ('large', 'medium', 'small'):
        for _ in range(plan[size]):
            cases.append(random_case(rng, 'r%d' % i, size))
            i += 1
    for j in range(1 if tier == 'quick' else 3):
        cases.append(rollover_case(rng, 'ro%d' % j, 4200 + 500 * j))
    fixed = os.path.join(V.VERIF, 'scenarios', 'fixed', 'C14')
    if os.path.isdir(fixed):
        for f in sorted(os.listdir(fixed)):
            if f.endswith('.json'):
                cases.append(json.load(open(os.path.join(fixed, f))))
    return cases, len(abstract)


# ----------------------------------------------------------------------------- (c) normalisation for TLC
def limbs(hexs):
    h = int(hexs, 16)
    return [h >> 42, (h >> 21) & 0x1fffff, h & 0x1fffff]


def u32(x):
    x = int(x)
    return [x >> 16, x & 0xffff]


def n_item(row):
    return {'h': limbs(row[0]), 'k': row[1], 'c': int(row[2]), 'o': u32(row[3]), 'v': int(row[4]), 'vh': int(row[5])}


DUMMY_ITEM = {'h': [0, 0, 0], 'k': '', 'c': 0, 'o': [0, 0], 'v': 0, 'vh': 0}


def n_idx(rows):
    return [{'h': limbs(r[0]), 'off': int(r[1])} for r in rows or []]


def okey(row):
    return (int(row[0], 16), row[1].encode('latin1', 'replace'))


def normalize(case, events):
    """Pure reformatting of the observations of one case into the schema of Trace_HintFile.tla, plus the
    bisection WITNESSES (positions in the observed sorted sequences) that TLC re-verifies."""
    out = []
    total = sum(len(f['set']) for f in case['files'])
    small = total <= 64        # small cases are also checked with the definitional (quadratic) operators
    rkeys = {}      # file no -> sorted key list as the reader yielded it
    ritems = {}
    srcs = []
    for e in events:
        a, n = e['a'], e['n']
        if a == 'Reset':
            out.append({'a': 'Case', 'n': n, 'sid': e['sid'], 'T': int(e['interval']) - 279, 'small': small})
        elif a == 'Dump':
            f = e['f']
            st = case['files'][f - 1]['set']
            out.append({'a': 'Dump', 'n': n, 'f': f, 'chunk': e['chunk'], 'err': e.get('err', ''), 'refused': e.get('refused', 0),
                        'set': [{'h': limbs(s['h']), 'k': s['k'], 'c': s['c'], 'o': u32(s['o']), 'v': s['v'], 'vh': s['vh'],
                                 'z': u32(s['z'])} for s in st],
                        'midx': n_idx(e.get('midx')), 'mds': u32(e.get('mds', 0)), 'mnkey': e.get('mnkey', -1)})
        elif a == 'Read':
            f = e['f']
            rows = e.get('items') or []
            rkeys[f] = [okey(r) for r in rows]
            ritems[f] = rows
            ne = {'a': 'Read', 'n': n, 'f': f, 'err': e.get('err', ''), 'lerr': e.get('lerr', ''),
                  'io': int(e.get('io', -1)), 'nkey': int(e.get('nkey', -1)), 'ds': u32(e.get('ds', 0)), 'size': int(e.get('size', -1)),
                  'items': [n_item(r) for r in rows], 'lidx': n_idx(e.get('lidx')),
                  'lio': int(e.get('lio', -1)), 'lnkey': int(e.get('lnkey', -1)), 'lds': u32(e.get('lds', 0)),
                  'ow': [], 'sw': []}
            if f == 0:
                # witnesses: where each output item comes from, and where each source item's key sits in the output
                byfile = []
                for s in srcs:
                    ch = case['files'][s - 1]['chunk']
                    byfile.append({(r[0], r[1]): (j, [r[0], r[1], ch] + list(r[3:])) for j, r in enumerate(ritems.get(s, []))})
                for r in rows:
                    w = [1, 1]
                    for i, m in enumerate(byfile):
                        hit = m.get((r[0], r[1]))
                        if hit and hit[1] == list(r):
                            w = [i + 1, hit[0] + 1]
                            break
                    ne['ow'].append(w)
                ok = rkeys[0]
                for s in srcs:
                    ne['sw'].append([min(max(1, len(ok)), bisect.bisect_left(ok, okey(r)) + 1) for r in ritems.get(s, [])])
            out.append(ne)
        elif a == 'Lookup':
            f = e['f']
            ks = rkeys.get(f, [])
            q = []
            for r in e['q']:
                w = bisect.bisect_left(ks, okey(r)) + 1
                d = {'h': limbs(r[0]), 'k': r[1], 'w': w, 'res': r[2]}
                if r[2] == 'found':          # `it` is read by TLC only for answers "found"
                    d['it'] = n_item(r[4:10]) if len(r) >= 10 else DUMMY_ITEM
                q.append(d)
            out.append({'a': 'Lookup', 'n': n, 'f': f, 'via': e['via'], 'q': q})
        elif a == 'Merge':
            if not e.get('forgc'):
                srcs = list(e['srcs'])
            out.append({'a': 'Merge', 'n': n, 'srcs': list(e['srcs']), 'forgc': bool(e.get('forgc')), 'err': e.get('err', ''),
                        'midx': n_idx(e.get('midx')), 'mds': u32(e.get('mds', 0)), 'mnkey': e.get('mnkey', -1),
                        'ct': [n_item(r) for r in e.get('ct') or []], 'dst': bool(e.get('dst'))})
        elif a == 'End':
            out.append({'a': 'End', 'n': n})
    return out


def _cost(evs):
    return sum(2 * len(e.get('items', ())) + len(e.get('set', ())) + len(e.get('q', ())) + 120 for e in evs)


def _pack(sid, evs):
    """(sid, cost, number of events, ndjson text)"""
    return sid, _cost(evs), len(evs), ''.join(json.dumps(e, separators=(',', ':')) + '\n' for e in evs)


# ---- per-shard pipeline: harness process -> normaliser process (this file, `--norm`) -> files.
# The orchestrator never holds the raw observations of a whole tier in memory.
def norm_shard(work, i):
    """normalise the observations of shard i: norm-i.ndjson (TLC events, case after case) + norm-i.idx.json"""
    cases = {}
    for line in open(os.path.join(work, 'scen-%d.ndjson' % i)):
        if line.strip():
            c = json.loads(line)
            cases[c['id']] = c
    idx = {'cases': [], 'selftest': [], 'head': None}
    out = open(os.path.join(work, 'norm-%d.ndjson' % i), 'w')
    pos = 0

    def finish(sid, evs):
        nonlocal pos
        c = cases[sid]
        complete = bool(evs) and evs[-1].get('a') == 'End'
        _, cost, nev, text = _pack(sid, normalize(c, evs))
        out.write(text)
        nlook = sum(len(e['q']) for e in evs if e['a'] == 'Lookup')
        nabs = sum(1 for e in evs if e['a'] == 'Lookup' for q in e['q'] if q[2] != 'found')
        idx['cases'].append({'sid': sid, 'cost': cost, 'nev': nev, 'off': pos, 'len': len(text), 'complete': complete,
                             'nontrivial': nontrivial(c, evs), 'digest': case_digest(c), 'nlook': nlook, 'nabs': nabs})
        pos += len(text)
        if idx['head'] is None and c.get('src') == 'tlc':
            idx['head'] = {'sid': sid, 'trace_head': trace_head(evs)}
        if len(idx['selftest']) < 2 and c.get('src') in ('tlc', 'random-small', 'random-medium') \
                and sum(len(f['set']) for f in c['files']) <= 300 and len(corruptions(c, evs)) >= 8:
            idx['selftest'].append({'sid': sid, 'events': evs})
    cur, evs = None, []
    tp = os.path.join(work, 'trace-%d.ndjson' % i)
    if os.path.exists(tp):
        for line in open(tp):
            if not line.strip():
                continue
            e = json.loads(line)
            if e.get('a') == 'Reset':
                if cur is not None:
                    finish(cur, evs)
                cur, evs = e['sid'], []
            if cur is not None:
                evs.append(e)
        if cur is not None:
            finish(cur, evs)
    out.close()
    json.dump(idx, open(os.path.join(work, 'norm-%d.idx.json' % i), 'w'))


def _run_shard(args):
    i, tb, part, work, timeout = args
    inp = os.path.join(work, 'scen-%d.ndjson' % i)
    outp = os.path.join(work, 'trace-%d.ndjson' % i)
    wd = os.path.join(work, 'run-%d' % i)
    logp = os.path.join(work, 'run-%d.log' % i)
    os.makedirs(wd, exist_ok=True)
    with open(inp, 'w') as f:
        for c in part:
            f.write(json.dumps(c) + '\n')
    env = dict(V.GOENV, GOMAXPROCS='2')             # 16 single-threaded harness processes side by side
    cmd = [tb, '-test.run', '^TestVerifHint$', '-test.timeout', '%ds' % timeout, '-verif.in', inp, '-verif.out', outp,
           '-verif.work', wd]
    with open(logp, 'w') as lf:
        try:
            rc = subprocess.run(cmd, cwd=os.path.join(V.REPO, 'store'), stdout=lf, stderr=subprocess.STDOUT, env=env,
                                timeout=timeout + 60).returncode
        except subprocess.TimeoutExpired:
            rc = -9
    shutil.rmtree(wd, ignore_errors=True)
    if rc != 0:
        return {'crash': (i, rc, open(logp).read()[-2000:])}
    r = subprocess.run([sys.executable, os.path.abspath(__file__), '--norm', work, str(i)], stdout=subprocess.PIPE,
                       stderr=subprocess.STDOUT, text=True)
    if r.returncode != 0:
        return {'crash': (i, r.returncode, 'normaliser: ' + r.stdout[-2000:])}
    try:
        os.remove(outp)
    except OSError:
        pass
    idx = json.load(open(os.path.join(work, 'norm-%d.idx.json' % i)))
    idx['shard'] = i
    return idx


def run_cases(tb, cases, work, shards=V.NCPU, timeout=1500):
    """execute the cases on the real code, 16-wide, and normalise the observations shard by shard"""
    shards = max(1, min(shards, len(cases)))
    jobs = [(i, tb, cases[i::shards], work, timeout) for i in range(shards)]
    with ThreadPoolExecutor(max_workers=shards) as ex:
        res = list(ex.map(_run_shard, jobs))
    crashed = [r['crash'] for r in res if 'crash' in r]
    if crashed:
        raise V.Inconclusive('harness process died: shard %s rc=%s %s' % crashed[0])
    return res


def _validate_shard(args):
    i, parts, nev, work = args
    rundir = os.path.join(work, 'tv%s' % i)
    os.makedirs(rundir, exist_ok=True)
    with open(os.path.join(rundir, 'trace.ndjson'), 'wb') as f:
        for p in parts:
            if isinstance(p, str):
                f.write(p.encode('ascii'))
            else:                                   # (file, offset, length) of a normalised case (ASCII: chars = bytes)
                with open(p[0], 'rb') as src:
                    src.seek(p[1])
                    f.write(src.read(p[2]))
    r = V.tlc_run('Trace_HintFile', 'Trace_HintFile.cfg', rundir, workers=1, timeout=3000, java=JAVA_SHORT)
    res = {'bad': [], 'drift': [], 'consumed': -1, 'out': r['out'], 'wall': r['wall'], 'states': r['distinct'], 'n': nev}
    m = re.findall(r'<<"VERIF-RESULT", "(.*)">>', r['out'])
    if m:
        js = m[-1].encode('utf8').decode('unicode_escape') if '\\' in m[-1] else m[-1]
        try:
            d = json.loads(js)
            res['bad'] = [tuple(x) for x in d.get('bad', [])]
            res['drift'] = [tuple(x) for x in d.get('drift', [])]
            res['consumed'] = d.get('consumed', -1)
        except Exception as ex:
            res['error'] = 'unparsable VERIF-RESULT: %s' % ex
    if r['rc'] != 0 or r['error'] or r['timeout'] or res['consumed'] != nev:
        res['error'] = res.get('error') or ('TLC rc=%s error=%s consumed=%s/%s' % (r['rc'], r['error'], res['consumed'], nev))
    try:
        os.remove(os.path.join(rundir, 'trace.ndjson'))
    except OSError:
        pass
    return res


def validate(packed, work, shards, tag=''):
    """packed: list of (sid, cost, nevents, text | (file, offset, length)) per case; balanced over `shards` TLC
    processes (1 worker each)."""
    bins = [[0, [], 0] for _ in range(max(1, min(shards, len(packed))))]
    for sid, cost, nev, text in sorted(packed, key=lambda x: -x[1]):
        b = min(bins, key=lambda b: b[0])
        b[0] += cost
        b[1].append(text)
        b[2] += nev
    jobs = [('%s%d' % (tag, i), b[1], b[2], work) for i, b in enumerate(bins) if b[1]]
    with ThreadPoolExecutor(max_workers=len(jobs)) as ex:
        results = list(ex.map(_validate_shard, jobs))
    bad, drift, states, nev = [], [], 0, 0
    for r in results:
        if r.get('error'):
            raise V.Inconclusive('trace validation failed: %s\n%s' % (r['error'], r['out'][-2000:]))
        bad += r['bad']
        drift += r['drift']
        states += r['states']
        nev += r['n']
    return {'bad': bad, 'drift': drift, 'states': states, 'events': nev, 'wall': max(r['wall'] for r in results)}


# ----------------------------------------------------------------------------- binding self-test
def corruptions(case, events):
    """copies of one case's RAW observations with one logged field altered each; every copy must be rejected"""
    out = []

    def clone(tag):
        ev = copy.deepcopy(events)
        for e in ev:
            if e['a'] in ('Reset', 'End'):
                e['sid'] = case['id'] + '#' + tag
        return ev
    reads = [i for i, e in enumerate(events) if e['a'] == 'Read' and e['f'] > 0 and len(e.get('items') or []) >= 2]
    if reads:
        ev = clone('swap')
        its = ev[reads[0]]['items']
        its[0], its[1] = its[1], its[0]
        out.append(('C14_RoundTrip', ev))
        ev = clone('ver')
        ev[reads[0]]['items'][-1][4] += 1
        out.append(('C14_RoundTrip', ev))
        ev = clone('ds')
        ev[reads[0]]['ds'] += 256
        out.append(('C14_RoundTrip', ev))
        ev = clone('drop')
        ev[reads[0]]['items'].pop()
        out.append(('C14_RoundTrip', ev))
    lks = [i for i, e in enumerate(events) if e['a'] == 'Lookup']
    for i in lks:
        f = [j for j, r in enumerate(events[i]['q']) if r[2] == 'found']
        nf = [j for j, r in enumerate(events[i]['q']) if r[2] == 'none']
        if f and nf:
            ev = clone('lk-none')
            ev[i]['q'][f[0]] = ev[i]['q'][f[0]][:2] + ['none', '']
            out.append(('C14_Lookup', ev))
            ev = clone('lk-off')
            ev[i]['q'][f[-1]][7] += 256
            out.append(('C14_Lookup', ev))
            ev = clone('lk-ghost')
            g = ev[i]['q'][nf[0]]
            ev[i]['q'][nf[0]] = g[:2] + ['found', '', g[0], g[1], 0, 0, 1, 0]
            out.append(('C14_Lookup', ev))
            ev = clone('lk-err')
            ev[i]['q'][nf[0]] = g[:2] + ['err', 'unexpected EOF']
            out.append(('C14_Lookup', ev))
            break
    mr = [i for i, e in enumerate(events) if e['a'] == 'Read' and e['f'] == 0 and len(e.get('items') or []) >= 2]
    mg = [i for i, e in enumerate(events) if e['a'] == 'Merge' and not e.get('forgc')]
    if mr and mg:
        ev = clone('m-drop')
        ev[mr[0]]['items'].pop(len(ev[mr[0]]['items']) // 2)
        out.append(('C14_Merge', ev))
        ev = clone('m-pos')
        ev[mr[0]]['items'][0][3] += 256
        out.append(('C14_Merge', ev))
        ev = clone('m-ds')
        ev[mr[0]]['ds'] += 256
        out.append(('C14_Merge', ev))
        # the OLDER duplicate of a key in the output
        srcrows = {}
        for e in events:
            if e['a'] == 'Read' and e['f'] > 0:
                for r in e.get('items') or []:
                    srcrows.setdefault((r[0], r[1]), []).append((e['f'], r))
        for j, r in enumerate(events[mr[0]]['items']):
            alts = [(f, s) for f, s in srcrows.get((r[0], r[1]), []) if [case['files'][f - 1]['chunk']] + s[3:] != r[2:]]
            if alts:
                ev = clone('m-older')
                f, s = alts[0]
                ev[mr[0]]['items'][j] = [s[0], s[1], case['files'][f - 1]['chunk']] + s[3:]
                out.append(('C14_Merge', ev))
                break
        if events[mg[0]].get('ct'):
            ev = clone('m-ct')
            ev[mg[0]]['ct'].pop()
            out.append(('C14_Merge', ev))
    return out


def self_test(picked, byid, work, log):
    """the binding is real: altered observations must be rejected by TLC (else the run is inconclusive)"""
    per, want = [], {}
    for p in picked[:6]:
        c = byid[p['sid']]
        for tag, cev in corruptions(c, p['events']):
            sid = cev[0]['sid']
            want[sid] = tag
            per.append(_pack(sid, normalize(c, cev)))
    if not per:
        raise V.Inconclusive('binding self-test: no suitable case')
    r = validate(per, work, 4, tag='st')
    got = {}
    for sid, n, chk in r['bad']:
        got.setdefault(sid, set()).add(chk)
    missed = [sid for sid, tag in want.items() if not any(c.startswith(tag) for c in got.get(sid, ()))]
    if missed:
        raise V.Inconclusive('binding self-test: altered observations were NOT rejected: %s' % missed[:5])
    log('self-test: %d altered observation logs, all rejected by TLC' % len(want))
    return len(want)


# ----------------------------------------------------------------------------- run
def nontrivial(case, events):
    """a case exercises the mechanism when a lookup had to start from a sparse-index entry (>= 2 entries) and both
    present and absent keys were looked up there, or when a merge saw a key in >= 2 sources or a same-hash group"""
    idx2 = any(e['a'] == 'Read' and len(e.get('lidx') or []) >= 2 for e in events)
    res = {r[2] for e in events if e['a'] == 'Lookup' for r in e['q']}
    lk = idx2 and 'found' in res and ('none' in res or 'err' in res)
    seen, dup, grp = {}, False, False
    hk = {}
    for f in case['files']:
        for s in f['set']:
            hk.setdefault(s['h'], set()).add(s['k'])
    grp = any(len(v) > 1 for v in hk.values())
    for i, f in enumerate(case['files']):
        for s in f['set']:
            if seen.setdefault((s['h'], s['k']), i) != i:
                dup = True
    mg = any(e['a'] == 'Merge' for e in events) and (dup or grp)
    return lk or mg


def case_digest(case):
    return hashlib.sha1(json.dumps([case['interval'], case['files'], case['absent']], sort_keys=True).encode()).hexdigest()


def trace_head(evs, n=6):
    out = []
    for e in evs[:n]:
        d = {}
        for k, v in e.items():
            d[k] = v[:3] + ['...(%d)' % len(v)] if isinstance(v, list) and len(v) > 3 else v
        out.append(d)
    return out


def run(pid, tier, seed, work, log, replay=None):
    t0 = time.time()
    res = {'violations': [], 'known': [], 'drift': [], 'lead': [], 'coverage': {}, 'assumptions': ASSUMPTIONS}
    states = trans = 0
    mcruns = []
    nabstract = 0
    with ThreadPoolExecutor(max_workers=2) as bg:
        mcf = None
        tbf = bg.submit(V.build_harness, work)
        if replay:
            cases = [json.load(open(replay))]
        else:
            mcf = bg.submit(run_mc, tier, work, log)              # (a) runs beside (b)
            cases, nabstract = gen_cases(tier, seed, work, log)
        byid = {c['id']: c for c in cases}
        # ---- (b) execute on the real code
        tb = tbf.result()
        log('harness built; %d cases' % len(cases))
        order = sorted(cases, key=lambda c: -sum(len(f['set']) for f in c['files']))   # large cases first in every shard
        shards = run_cases(tb, order, work)
        info = {}
        per = []
        for sh in shards:
            nf = os.path.join(work, 'norm-%d.ndjson' % sh['shard'])
            for ci in sh['cases']:
                info[ci['sid']] = ci
                per.append((ci['sid'], ci['cost'], ci['nev'], (nf, ci['off'], ci['len'])))
        missing = [c['id'] for c in cases if c['id'] not in info or not info[c['id']]['complete']]
        if missing:
            raise V.Inconclusive('no complete trace for cases %s' % missing[:5])
        log('executed %d cases on the real code, observations normalised (%.1fs)' % (len(cases), time.time() - t0))
        # ---- (c) TLC validates the observations
        r = validate(per, work, 12 if tier == 'thorough' else 6)
        log('TLC validated %d observation events of %d cases (%.1fs wall of the slowest shard)' % (r['events'], len(per), r['wall']))
        ntest = 0
        if tier == 'thorough' and not replay:
            ntest = self_test([p for sh in shards for p in sh['selftest']], byid, work, log)
        if mcf is not None:
            states, trans, mcruns, leads = mcf.result()
            res['lead'] += leads
    for sid, n, chk in r['bad']:
        if not chk.startswith('C14_'):
            continue
        name, _, kf = chk.partition('!')
        res['known' if kf else 'violations'].append({'sid': sid, 'n': n, 'check': name, 'kf': kf})
    res['drift'] = sorted(set((sid, what) for sid, n, what in r['drift']))[:50]
    nt = {ci['digest'] for ci in info.values() if ci['nontrivial']}
    nlook = sum(ci['nlook'] for ci in info.values())
    nabs = sum(ci['nabs'] for ci in info.values())
    head = next((sh['head'] for sh in shards if sh.get('head')), None)
    if head:
        sample, shead = byid[head['sid']], head['trace_head']
    else:
        sample, shead = cases[0], []
    res['coverage'] = {
        'states': max(states, 1) if not replay else 1, 'transitions': max(trans, 1) if not replay else 1,
        'traces_validated_against_impl': len(per),
        'samples': [{'case': sample, 'trace_head': shead}],
        'evaluations': len(cases), 'distinct_nontrivial': len(nt),
        'rule': 'distinct case contents (sha1 of interval+files+lookups) in which a lookup started from a sparse-index entry '
                '(real index with >= 2 entries, present and absent keys looked up) or a merge met a key in >= 2 sources / a same-hash group',
        'exhaustive': bool(mcruns) and all(not m['timeout'] for m in mcruns),
        'mc_runs': mcruns, 'abstract_cases_enumerated_by_tlc': nabstract,
        'cases_by_source': {k: sum(1 for c in cases if c.get('src', 'fixed') == k) for k in sorted({c.get('src', 'fixed') for c in cases})},
        'items_total': sum(len(f['set']) for c in cases for f in c['files']),
        'largest_case_items': max(sum(len(f['set']) for f in c['files']) for c in cases),
        'lookups_observed': nlook, 'lookups_not_found_or_err': nabs,
        'events_validated': r['events'], 'trace_states': r['states'], 'selftest_altered_logs_rejected': ntest,
        'drift': len(r['drift']), 'model_only_leads': len(res['lead']),
    }
    res['scen'] = byid
    res['wall'] = time.time() - t0
    return res


if __name__ == '__main__':
    if len(sys.argv) == 4 and sys.argv[1] == '--norm':
        norm_shard(sys.argv[2], int(sys.argv[3]))
