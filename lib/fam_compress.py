"""C10 - server-side compression is invisible to clients.

(a) MC        : MC_Compress.tla / MCSpec - the one-key state machine of Compress.tla, every case value
                as Set argument, flush / close / open with any subset of {hints, tree dump} removed / GC,
                invariants C10_Transparent, C10_VHash.  The specification mutants must be refuted
                (non-vacuity self-test).
(b) generation: MC_Compress.tla / GenSpec - TLC enumerates class x size point x content x client flag x
                read path, walks each through the model and prints it as JSON = the scenarios.
(c) execution : TestVerifCompress (harness/store/zz_verif_compress_test.go) constructs the bytes, measures
                the inputs of Decision, runs the path on the real HStore, logs observations.
(d) validation: Trace_Compress.tla - TLC compares every observation with the client's view (bad ->
                VIOLATION), and the transcription with the code (drift -> DRIFT lines, never a verdict).
"""
import json, os, random, re, time, hashlib, copy
import vcommon as V

READY = True
PROPS = {
 'C10': dict(level='model_checking', design='DESIGN.md 6 C10',
   text='Compress.tla transcribes TryCompress as a decision table (Decision) and a one-key state machine '
        '(set -> stored record carries 0x10000 iff Decision; get from the write buffer / after flush / after '
        'restart with hints and/or tree dump deleted / after GC); C10_Transparent and C10_VHash are model-checked '
        'exhaustively over all case values and all bounded operation orders, and every specification mutant '
        '(flag not cleared, vhash after compression, no Decompress in the hint rebuild, probe only, ...) must be '
        'refuted. TLC enumerates class x size point (record 255/256/257 B, value 10 KB-1/10 KB/10 KB+1, 1024/1025, '
        'up to 6 MB, QuickLZ 3/9-byte header) x content (constant, periodic, text, random, mixes with a measured '
        'probe ratio just below / above 0.7, WAV/MP3 headers, compressible-head/incompressible-tail and the '
        'reverse) x client flag x read path; each case is executed on the real HStore and TLC validates every '
        'observation: reply bytes equal, reply flag = client flag, tree and hint value hash = independently '
        'computed hash of the UNCOMPRESSED bytes, and the C<->Go QuickLZ cross-checks of every stored value. '
        'NOT covered: "decompressing ARBITRARY bytes returns an error instead of crashing" - robustness of C code '
        'over all byte strings is outside this technique (DESIGN.md section 7); only well-formed compressed '
        'bodies reach the decompressors here.',
   note='Trusted: TLC, byte equality against the harness\'s own copy of the value, the independent record scanner '
        'and value-hash transcription in the harness. The compression POLICY is not part of the property: a '
        'disagreement between the on-disk flag and Decision is reported as DRIFT only. Codec cross-check coverage '
        'is what the value classes reach (QuickLZ level 3 only, the level the C code is built with). Client flags '
        'that themselves contain bit 0x10000 are not exercised. One key, one bucket, merge=off GC.',
   technique='TLA+ model checking (TLC) + TLC-enumerated cases replayed on the real store + TLC trace validation'),
}

ALL_SP = ['v0', 'v1', 'rec255', 'rec256', 'rec257', 'v1024', 'v1025', 'p10k-1', 'p10k', 'p10k+1', 'big',
          'mb', 'mb6', 'lk100', 'lk215', 'lk216']
BIG_SP = ('mb', 'mb6')
MUTANTS = ['NoClearFlagBuf', 'NoClearFlagDisk', 'NoDecompressBuf', 'NoDecompressDisk', 'VHashAfterCompress',
           'NoDecompressRebuild', 'ProbeOnly', 'CorruptMixed']
POLICY_MUTANTS = ['ProbeWrongLen']      # changes the policy only: the property holds, DRIFT is expected

MC_CFG = '''SPECIFICATION MCSpec
CONSTANTS
  Mutants = {%s}
  MaxOps = %d
  MaxSets = %d
  SPFilter = {%s}
INVARIANTS C10_Transparent C10_VHash StoredFlagOK
CHECK_DEADLOCK FALSE
'''
GEN_CFG = '''SPECIFICATION GenSpec
CONSTANTS
  Mutants = {}
  MaxOps = 0
  MaxSets = 0
  SPFilter = {%s}
INVARIANTS GenPrint GenWellFormed GenProps
CHECK_DEADLOCK FALSE
'''

TIER = {
    'quick': dict(mc=[(6, 2, ['rec256', 'rec257', 'p10k+1', 'lk100'])], workers=4,
                  gen_sp=[s for s in ALL_SP if s != 'mb6'], nscen=200, nbig=4, mutants=[]),
    'thorough': dict(mc=[(8, 2, ['v0', 'rec256', 'rec257', 'p10k', 'p10k+1', 'big', 'lk100']),
                         (6, 3, ['rec256', 'rec257', 'p10k+1'])],
                     workers=V.NCPU, gen_sp=ALL_SP, nscen=None, nbig=None, mutants=MUTANTS + POLICY_MUTANTS),
}


def q(xs):
    return ', '.join('"%s"' % x for x in xs)


def unescape(sx):
    return sx.encode('utf8').decode('unicode_escape') if '\\' in sx else sx


# ----------------------------------------------------------------------------- (a) model checking
def run_mc(tier, work, log):
    runs = []
    st = tr = 0
    for i, (maxops, maxsets, sps) in enumerate(TIER[tier]['mc']):
        r = V.tlc_run('MC_Compress', MC_CFG % ('', maxops, maxsets, q(sps)), os.path.join(work, 'mc%d' % i), timeout=900,
                      workers=TIER[tier]['workers'])
        runs.append({'module': 'MC_Compress', 'constants': {'MaxOps': maxops, 'MaxSets': maxsets, 'SPFilter': sps},
                     'distinct': r['distinct'], 'generated': r['states'], 'depth': r['depth'], 'wall_s': round(r['wall'], 1),
                     'violated': r['violated'], 'error': r['error'], 'timeout': r['timeout']})
        log('MC MC_Compress MaxOps=%d MaxSets=%d |SP|=%d: %d distinct / %d generated, depth %d, %.1fs%s' % (
            maxops, maxsets, len(sps), r['distinct'], r['states'], r['depth'], r['wall'],
            (' VIOLATED ' + str(r['violated'])) if r['violated'] else ''))
        if r['error'] or r['timeout'] or not r['distinct']:
            raise V.Inconclusive('TLC failed on MC_Compress: %s\n%s' % (r['error'] or 'timeout', r['out'][-1500:]))
        st += r['distinct']
        tr += r['states']
    return st, tr, runs


def run_mc_mutants(tier, work, log):
    """non-vacuity: every property-breaking specification mutant must be refuted by TLC; the policy mutant must not."""
    out = {}
    sps = ['rec257', 'p10k+1', 'big']
    for m in TIER[tier]['mutants']:
        r = V.tlc_run('MC_Compress', MC_CFG % ('"%s"' % m, 6, 2, q(sps)), os.path.join(work, 'mcm-' + m), timeout=600, workers=4)
        if r['error'] or r['timeout']:
            raise V.Inconclusive('TLC failed on mutant %s: %s' % (m, r['error'] or 'timeout'))
        out[m] = r['violated']
        if m in POLICY_MUTANTS:
            if r['violated']:
                raise V.Inconclusive('self-test: policy mutant %s violates %s in the model (it must not)' % (m, r['violated']))
        elif not r['violated']:
            raise V.Inconclusive('self-test: specification mutant %s is not refuted by the invariants' % m)
    if out:
        log('MC self-test: %d specification mutants refuted (%s); policy mutant(s) %s leave the properties intact' % (
            len([m for m in out if out[m]]), ', '.join('%s->%s' % (m, out[m]) for m in out if out[m]), POLICY_MUTANTS))
    return out


# ----------------------------------------------------------------------------- (b) generation
def gen_cases(tier, work, log):
    r = V.tlc_run('MC_Compress', GEN_CFG % q(TIER[tier]['gen_sp']), os.path.join(work, 'gen'), workers=1, timeout=900)
    if r['error'] or r['timeout'] or r['violated']:
        raise V.Inconclusive('TLC generator failed: %s\n%s' % (r['error'] or r['violated'] or 'timeout', r['out'][-1500:]))
    cases = []
    for m in re.findall(r'<<"VERIF-CASE", "(.*)">>', r['out']):
        cases.append(json.loads(unescape(m)))
    # TLC's print order depends on fingerprints: fix an order of our own
    cases.sort(key=lambda c: (c['class'], c['sp'], c['content'], c['cflag'], c['path']))
    uniq = []
    seen = set()
    for c in cases:
        k = json.dumps(c, sort_keys=True)
        if k not in seen:
            seen.add(k)
            uniq.append(c)
    log('generator: TLC enumerated %d cases (%d states, %.1fs)' % (len(uniq), r['distinct'], r['wall']))
    if not uniq:
        raise V.Inconclusive('generator printed no case\n' + r['out'][-1500:])
    return uniq, r


def valkey(c):
    return (c['class'], c['sp'], c['content'], c['cflag'])


def choose(cases, tier, seed):
    """thorough: everything.  quick: every VALUE at least once (path chosen by the seed), every path equally often,
    a few multi-MB values."""
    conf = TIER[tier]
    rng = random.Random(seed * 7919 + 13)
    if conf['nscen'] is None:
        return list(cases)
    byval = {}
    for c in cases:
        byval.setdefault(valkey(c), []).append(c)
    small = [k for k in sorted(byval) if k[1] not in BIG_SP]
    big = [k for k in sorted(byval) if k[1] in BIG_SP]
    chosen = []
    paths = sorted({c['path'] for c in cases})
    rng.shuffle(paths)
    for i, k in enumerate(small):
        want = paths[(i + seed) % len(paths)]
        chosen.append([c for c in byval[k] if c['path'] == want][0])
    rest = [c for k in small for c in byval[k] if c not in chosen]
    rng.shuffle(rest)
    chosen += rest[:max(0, conf['nscen'] - len(chosen) - conf['nbig'])]
    rng.shuffle(big)
    for i, k in enumerate(big[:conf['nbig']]):
        chosen.append(byval[k][(i + seed) % len(byval[k])])
    return chosen


def to_scenarios(cases, seed):
    out = []
    for i, c in enumerate(cases):
        h = hashlib.md5(json.dumps(c, sort_keys=True).encode()).hexdigest()[:8]
        cs = {k: c[k] for k in ('class', 'sp', 'content', 'permille', 'cflag', 'path', 'len', 'ksz', 'ops')}
        out.append({'id': 'c10-%s-%s-%s-%d-%s-%s' % (c['class'][:5], c['sp'], c['content'], c['cflag'], c['path'], h),
                    'family': 'compress', 'seed': (seed * 1000003 + int(h, 16)) % 1000000007,
                    'bodymax_mb': 1 if c['len'] < 500000 else c['len'] // (1 << 20) + 3, 'case': cs,
                    'model': {'expect_comp': c.get('expect_comp'), 'reads': c.get('reads')}})
    return out


# ----------------------------------------------------------------------------- (d) normalisation + validation
GET0 = {'res': 'down', 'eq': False, 'flag': -1, 'len': -1, 'ver': 0}
TREE0 = {'found': False, 'vh': -1, 'ver': 0}
DISK0 = {'found': False, 'flag': -1, 'vsz': -1, 'ver': 0, 'nrec': 0, 'vh': -1}
CODEC = ('c2g', 'c2gs', 'c2cs', 'gcomp', 'g2cs', 'g2gs', 'sized', 's2g')


def _obs(e):
    g = e.get('get') or {}
    t = e.get('tree') or {}
    d = e.get('disk') or {}
    return {'get': {k: g.get(k, v) for k, v in GET0.items()},
            'tree': {k: t.get(k, v) for k, v in TREE0.items()},
            'disk': {k: d.get(k, v) for k, v in DISK0.items()},
            'hints': [{'c': h.get('c', -1), 'vh': h.get('vh', -1), 'ver': h.get('ver', 0)} for h in (e.get('hints') or [])]}


def normalize(events):
    """pure reformatting into the fixed schema Trace_Compress.tla reads (every field present)."""
    out = []
    for e in events:
        a, n = e['a'], e['n']
        if e.get('harness_timeout'):
            raise V.Inconclusive('harness timed out waiting for the store to open (machine overloaded?): %s' % e.get('err'))
        if a == 'Reset':
            out.append({'a': 'Reset', 'n': n, 'sid': e['sid']})
        elif a == 'CSet':
            c = e.get('codec')
            x = {'a': 'CSet', 'n': n, 'role': e.get('role', ''), 'id': e['id'], 'cflag': e['cflag'], 'len': e['len'],
                 'ksz': e['ksz'], 'nocomp': bool(e['nocomp']), 'pc': e['probe_c'], 'fc': e['full_c'], 'vh': e['vh'],
                 'svh': e['svh'], 'sflag': e['sflag'], 'slen': e['slen'], 'res': e.get('res', 'err'),
                 'hascodec': bool(c) and 'skipped' not in c, 'codec_empty': bool(c and c.get('empty')),
                 'codec': {k: bool((c or {}).get(k, False)) for k in CODEC}}
            x.update(_obs(e))
            out.append(x)
        elif a == 'CFiller':
            out.append({'a': 'CFiller', 'n': n})
        elif a in ('CGet', 'CFlush', 'CClose'):
            x = {'a': a, 'n': n}
            x.update(_obs(e))
            out.append(x)
        elif a == 'COpen':
            x = {'a': 'COpen', 'n': n, 'rmhint': bool(e.get('rmhint')), 'rmtree': bool(e.get('rmtree')),
                 'ok': 'err' not in e and 'fatal' not in e}
            x.update(_obs(e))
            out.append(x)
        elif a == 'CGC':
            x = {'a': 'CGC', 'n': n, 'res': e.get('res', 'err'), 'released': int(e.get('released', 0))}
            x.update(_obs(e))
            out.append(x)
        elif a in ('Abort', 'End'):
            out.append({'a': a, 'n': n})
        else:
            out.append({'a': a, 'n': n})
    return out


def tlc_validate(events, rundir, mutants=''):
    os.makedirs(rundir, exist_ok=True)
    with open(os.path.join(rundir, 'trace.ndjson'), 'w') as f:
        for e in events:
            f.write(json.dumps(e) + '\n')
    cfg = open(os.path.join(V.SPEC, 'Trace_Compress.cfg')).read().replace('%MUTANTS%', mutants)
    r = V.tlc_run('Trace_Compress', cfg, rundir, workers=1, timeout=1200)
    res = {'bad': [], 'drift': [], 'lead': [], 'consumed': 0, 'out': r['out'], 'wall': r['wall'], 'states': r['distinct']}
    m = re.findall(r'<<"VERIF-RESULT", "(.*)">>', r['out'])
    if m:
        try:
            d = json.loads(unescape(m[-1]))
            res['bad'] = [tuple(x) for x in d.get('bad', [])]
            res['drift'] = [tuple(x) for x in d.get('drift', [])]
            res['lead'] = [tuple(x) for x in d.get('lead', [])]
            res['consumed'] = d.get('consumed', 0)
        except Exception as ex:
            res['parse_error'] = str(ex)
    res['accepted'] = res['consumed'] == len(events) and r['rc'] == 0 and not r['error'] and 'parse_error' not in res
    if not res['accepted']:
        res['tlc_error'] = r['error'] or res.get('parse_error') or ('rc=%s consumed=%d/%d' % (r['rc'], res['consumed'], len(events)))
    return res


def binding_selftest(per, badsids, work, log):
    """contract rule 4: corrupted logged fields must be rejected by the trace specification.
    Uses a scenario that the main validation accepted without any failure."""
    pick = None
    for sid in sorted(per):
        evs = per[sid]
        if sid in badsids:
            continue
        if any(e['a'] == 'CSet' and e['role'] == 'case' and e['sflag'] >= 65536 for e in evs) and \
           sum(1 for e in evs if e.get('get', {}).get('res') == 'hit') >= 3:
            pick = sid
            break
    if pick is None:
        log('binding self-test skipped: no failure-free scenario with a compressed value and 3 reads')
        return None
    base = per[pick]
    want = []
    mut = copy.deepcopy(base)
    hits = [e for e in mut if e.get('get', {}).get('res') == 'hit' and e['a'] != 'CSet']
    hits[-1]['get']['flag'] += 65536                       # the server bit leaks on the last read
    want.append('C10_Transparent_flag_')
    cs = [e for e in mut if e['a'] == 'CSet' and e['role'] == 'case'][0]
    hits[0]['tree']['vh'] = cs['svh'] if cs['svh'] != cs['vh'] else (cs['vh'] + 1) % 65536   # hash of the compressed bytes
    want.append('C10_VHash_tree_')
    if len(hits) > 2:
        hits[1]['get']['eq'] = False
        want.append('C10_Transparent_bytes_')
    cs['codec']['g2cs'] = False
    want.append('C10_Codec_g2cs')
    r = tlc_validate(mut, os.path.join(work, 'selftest'))
    if not r['accepted']:
        raise V.Inconclusive('binding self-test: validation run failed: %s' % r.get('tlc_error'))
    got = [b[2] for b in r['bad']]
    missing = [w for w in want if not any(g.startswith(w) for g in got)]
    if missing:
        raise V.Inconclusive('binding self-test failed: corrupted fields not rejected: %s (got %s)' % (missing, got))
    log('binding self-test: %d corrupted observations of scenario %s rejected (%s); its clean copy was accepted by the main validation' % (
        len(want), pick, ', '.join(sorted(set(got)))))
    return {'scenario': pick, 'rejected': sorted(set(got))}


# ----------------------------------------------------------------------------- run
def run(pid, tier, seed, work, log, replay=None):
    t0 = time.time()
    res = {'violations': [], 'known': [], 'drift': [], 'lead': [], 'coverage': {}}
    states = trans = 0
    mcruns = []
    mutres = {}
    genstates = 0
    if replay:
        scen = [json.load(open(replay))]
    else:
        states, trans, mcruns = run_mc(tier, work, log)
        for m in mcruns:
            if m['violated']:
                res['lead'].append(('MC', m['module'], m['violated']))
        mutres = run_mc_mutants(tier, work, log)
        cases, gr = gen_cases(tier, work, log)
        genstates = gr['distinct']
        states += gr['distinct']
        trans += gr['states']
        scen = to_scenarios(choose(cases, tier, seed), seed)
        fixed = os.path.join(V.VERIF, 'scenarios', 'fixed', pid)
        if os.path.isdir(fixed):
            for f in sorted(os.listdir(fixed)):
                if f.endswith('.json'):
                    scen.append(json.load(open(os.path.join(fixed, f))))
    # big values last in each shard is not needed: shards are interleaved
    tb = V.build_harness(work)
    log('harness built; running %d scenarios on the real store' % len(scen))
    traces, crashed = V.run_scenarios(tb, scen, work, runname='TestVerifCompress', timeout=1500)
    if crashed:
        raise V.Inconclusive('harness process died: %s' % crashed[0][2][-1200:])
    per = {}
    allev = []
    for sc in scen:
        if sc['id'] not in traces:
            raise V.Inconclusive('no trace for scenario %s' % sc['id'])
        ne = normalize(traces[sc['id']])
        per[sc['id']] = ne
        allev += ne
    log('executed: %d scenarios, %d events (%.1fs since start)' % (len(per), len(allev), time.time() - t0))
    r = tlc_validate(allev, os.path.join(work, 'tv'))
    if not r['accepted']:
        raise V.Inconclusive('trace validation did not consume the whole trace: %s\n%s' % (r.get('tlc_error'), r['out'][-1500:]))
    for sid, n, chk in r['bad']:
        if not chk.startswith('C10_'):
            continue
        name, _, kf = chk.partition('!')
        res['violations' if not kf else 'known'].append({'sid': sid, 'n': n, 'check': name, 'kf': kf})
    res['drift'] = sorted(r['drift'])
    res['lead'] += list(r['lead'])
    selftest = None
    if not replay:
        selftest = binding_selftest(per, {b[0] for b in r['bad']}, work, log)
    # ---- measured coverage
    nt = set()
    nsets = ncomp = ncodec = maxlen = 0
    paths_seen = set()
    ratios = []
    for sc in scen:
        evs = per[sc['id']]
        comp = False
        hits = 0
        casever = -1
        for e in evs:
            if e['a'] == 'CSet':
                nsets += 1
                ncomp += 1 if e['sflag'] >= 65536 else 0
                ncodec += 1 if e['hascodec'] and not e['codec_empty'] else 0
                maxlen = max(maxlen, e['len'])
                if e['role'] == 'case':
                    casever = e['get']['ver']
                    pl = min(e['len'], 10240)
                    if pl:
                        ratios.append(round(e['pc'] / pl, 4))
            if e.get('disk', {}).get('found') and e['disk']['flag'] >= 65536 and e['disk']['ver'] == casever:
                comp = True
            if e.get('get', {}).get('res') == 'hit' and e['a'] != 'CSet':
                hits += 1
        if comp and hits >= 2:
            c = sc['case']
            nt.add((c['class'], c['sp'], c['content'], c['cflag'], c['path']))
        paths_seen.add(sc['case']['path'])
    near = len([x for x in ratios if 0.68 <= x <= 0.72])
    sample = scen[0]
    res['coverage'] = {
        'states': states, 'transitions': trans,
        'traces_validated_against_impl': len(per),
        'samples': [{'scenario': sample, 'trace_head': per[sample['id']][:3]}],
        'evaluations': len(scen), 'distinct_nontrivial': len(nt),
        'rule': 'cases = TLC enumeration (GenSpec) of class x size point x content x client flag x read path, executed on the '
                'real store; a case counts as non-trivial when the independent scanner found the case value ON DISK with the '
                'server compress bit 0x10000 set (the store really compressed it) and at least two later gets returned it; '
                'distinct by (class, size point, content, client flag, path)',
        'events_validated': len(allev), 'trace_states': r['states'], 'generator_states': genstates,
        'mc_runs': mcruns, 'mc_mutants': mutres,
        'exhaustive': bool(mcruns) and all(not m['timeout'] for m in mcruns),
        'sets_executed': nsets, 'sets_compressed_by_store': ncomp, 'values_codec_cross_checked': ncodec,
        'max_value_bytes': maxlen, 'probe_ratios_within_0.02_of_0.7': near, 'paths': sorted(paths_seen),
        'drift': len(r['drift']), 'model_only_leads': len(res['lead']), 'binding_selftest': selftest,
    }
    res['scen'] = {sc['id']: sc for sc in scen}
    res['assumptions'] = ['arbitrary-byte robustness of the decompressors is NOT covered (DESIGN.md section 7)',
                          'compression policy (Decision) is compared as drift only']
    res['wall'] = time.time() - t0
    return res
