"""Crash family (C06, C07): every file-system mutation boundary of a scenario is snapshotted (fs.pre/fs.post hooks),
torn variants of data appends are synthesised, each snapshot is opened by a fresh child process, and TLC decides
from the specification's record history + the independently scanned durable set whether what was served is allowed."""
import json, os, random, time
import vcommon as V
import gen_seq as G
import fam_seq as S

READY = True
PROPS = {
 'C06': dict(level='model_checking', design='DESIGN.md 6 C06',
   text='Bucket.tla has a Crash action enabled in every state (plus torn prefixes of the data write in progress) followed by Recover(disk); TLC checks C06_Recovered exhaustively for small histories with flush, rotation, inline hint dump and shutdown steps. On the real code every fs mutation boundary of each scenario is snapshotted, torn variants of data appends (every 256-byte boundary + unaligned cuts) are synthesised, each snapshot is opened by a fresh child process, and TLC validates the served values against Allowed(k) computed from the record history and the independently scanned durable records; refusal to start is accepted only for a torn tail.',
   note='Crash model = SIGKILL (page cache survives): snapshots are directory copies taken inside the fs hooks. Torn writes are synthesised prefixes (the kernel decides real tearing). Known finding F11 (hint file ahead of its data file) is excused by its signature only.',
   technique='TLA+ model checking (TLC, crash at every state) + fs-boundary snapshots recovered in child processes, validated by TLC'),
 'C07': dict(level='model_checking', design='DESIGN.md 6 C07',
   text='Same machinery with a GC pass in progress: Crash at every step of the GC actions of Bucket.tla (copy, in-place overwrite incl. torn prefixes, destination switch, truncate, source clear, hint dump, GC-state write); real GC passes are snapshotted at every fs boundary and each snapshot recovered in a child process; TLC checks that every key reads exactly its pre-GC value/flags/liveness.',
   note='Sequential histories (no client writes during the pass). Known finding F6 (stale tail of an in-place rewrite from file 0 resurrects a deleted key) is excused by its signature only.',
   technique='TLA+ model checking (TLC, crash at every state) + fs-boundary snapshots recovered in child processes, validated by TLC'),
}

MC = {
    'C06': {'quick': [dict(MaxOps=4, MaxRestarts=1, WithCrash='TRUE', FileMax=3, SplitCap=1, Vals='{1}', Revs='{0}', Mutants="{}",
                           INVS='TypeOK C06_Recovered NoFatal')],
            'thorough': [dict(MaxOps=5, MaxRestarts=1, WithCrash='TRUE', FileMax=3, SplitCap=1, Vals='{1}', Revs='{0}', Mutants="{}",
                              INVS='TypeOK C06_Recovered NoFatal'),
                         dict(MaxOps=4, MaxRestarts=1, WithCrash='TRUE', FileMax=2, SplitCap=2, Vals='{1, 3}', Revs='{0}', Mutants="{}",
                              INVS='TypeOK C06_Recovered NoFatal')]},
    # a pass needs at least 5 operations (3 writes to rotate, flush of the head, gc): MaxOps=4 never reached one
    'C07': {'quick': [dict(MaxOps=5, MaxRestarts=1, WithCrash='TRUE', WithGC='TRUE', FileMax=2, Vals='{1}', Revs='{0}',
                           Mutants='{}', INVS='TypeOK C07_Recovered NoFatal', MaxChunk=3)],
            'thorough': [dict(MaxOps=6, MaxRestarts=1, WithCrash='TRUE', WithGC='TRUE', FileMax=2, Vals='{1}', Revs='{0}',
                              Mutants='{}', INVS='TypeOK C07_Recovered NoFatal', MaxChunk=3)]},
}


def gen_crash(rng, sid, pid):
    if pid == 'C07':
        sc = G.gen_gc(rng, sid)
        # keep it short: snapshots multiply the cost
        sc['ops'] = [o for o in sc['ops'] if o['op'] != 'readall']
    else:
        sc = G.gen_seq(rng, sid, 'c02', nops=rng.choice([5, 8, 12]))
        sc['conf']['check_vhash'] = False
    sc['conf']['crash'] = True
    sc['conf']['rotflush'] = 'auto'
    sc['conf']['maxtorn'] = rng.choice([2, 4, 6])
    sc['family'] = 'crash'
    for o in sc['ops']:
        o.pop('twice', None)
        o.pop('comp', None)      # (the child process and the snapshot scanner identify values by their stored bytes)
    return sc


def crash_gc_templates():
    """in-place rewrites whose relocated multi-block record overlaps its own old copy (dead data in front of it is
    smaller than the record), so that a torn copy leaves a header claiming a length that reaches over the intact old
    copy; plus destinations below the range and two-file ranges.  Every fs boundary and torn cut is recovered."""
    out = []
    n = 0
    for big in (2, 3):
        for dead in (1, 2):
            for tail in (0, 1, 2):
                for rng_ in ((0, 0), (0, -1)):
                    fm = dead + big + tail + 1 + (1 if tail == 0 else 0)
                    ops = []
                    for i in range(dead):
                        ops.append({'op': 'set', 'k': 'x', 'v': 1 + i, 'nblk': 1})          # superseded below
                    ops.append({'op': 'set', 'k': 'r', 'v': 5, 'nblk': big})                   # the multi-block survivor
                    for i in range(tail):
                        ops.append({'op': 'set', 'k': 'y%d' % i, 'v': 6 + i, 'nblk': 1})
                    ops.append({'op': 'set', 'k': 'x', 'v': 9, 'nblk': 1})                     # supersedes the dead ones
                    # fill file 0 so that the next record rotates, then a second file with data
                    ops.append({'op': 'set', 'k': 'z', 'v': 3, 'nblk': big})
                    ops.append({'op': 'set', 'k': 'z', 'v': 4, 'nblk': 1})
                    ops += [{'op': 'flush'}, {'op': 'gc', 'begin': rng_[0], 'end': rng_[1], 'merge': False}, {'op': 'close'}]
                    out.append({'id': 'cgt-%03d' % n, 'family': 'crash',
                                'conf': {'filemax_blk': fm, 'splitcap': 100, 'bodymax_blk': big, 'rotflush': 'auto', 'crash': True,
                                         'maxtorn': 8, 'buckets': 16, 'bucket': 15, 'height': 3, 'micro': False},
                                'ops': ops})
                    n += 1
    return out


def crash_gc_cascade_templates():
    """ranges of three files starting with an in-place rewrite whose destination fills up and CASCADES onto the second
    file of the range while that file is being read (second in-place rewrite), with a record of the second file that is
    superseded in the third: a stale tail left behind the write head of the second file would win the (chunk, offset)
    order after a kill."""
    out = []
    n = 0
    for dead0 in (1, 2):
        for sup in ('x', 'f', 'd'):
            for live2 in (0, 1):
                for rng_ in ((0, 2), (0, -1)):
                    v = [0]

                    def st(k):
                        v[0] += 1
                        return {'op': 'set', 'k': k, 'v': v[0] % 7 + 1, 'nblk': 1}
                    ops = []
                    f0 = ['a', 'b', 'c', 'a'] if dead0 == 1 else ['a', 'b', 'a', 'b']
                    ops += [st(k) for k in f0]                       # file 0: 4 records, dead0 of them superseded
                    ops += [st(k) for k in ('d', 'e', 'f', 'x')]     # file 1: all live for now
                    ops += [st(k) for k in (sup, 'y', 'z', 'w')]     # file 2: supersedes one record of file 1
                    head = ['y', 'z', 'w'][:3 - live2]
                    ops += [st(k) for k in head]                     # head: supersedes most of file 2
                    ops += [{'op': 'flush'}, {'op': 'gc', 'begin': rng_[0], 'end': rng_[1], 'merge': False}, {'op': 'close'}]
                    out.append({'id': 'cgc-%03d' % n, 'family': 'crash',
                                'conf': {'filemax_blk': 4, 'splitcap': 100, 'bodymax_blk': 1, 'rotflush': 'auto', 'crash': True,
                                         'maxtorn': 2, 'buckets': 16, 'bucket': 15, 'height': 3, 'micro': False},
                                'ops': ops})
                    n += 1
    return out


def run(pid, tier, seed, work, log, replay=None):
    t0 = time.time()
    res = {'violations': [], 'known': [], 'drift': [], 'lead': [], 'coverage': {}}
    states = trans = 0
    mcruns = []
    if not replay:
        for i, over in enumerate(MC[pid][tier]):
            r = V.tlc_run('MC_Seq', S.mc_cfg(over), os.path.join(work, 'mc%d' % i), timeout=3000)
            mcruns.append({'module': 'MC_Seq', 'constants': over, 'distinct': r['distinct'], 'generated': r['states'],
                           'depth': r['depth'], 'wall_s': round(r['wall'], 1), 'violated': r['violated']})
            states += r['distinct']
            trans += r['states']
            log('MC crash %s: %d distinct / %d generated, %.1fs%s' % (over, r['distinct'], r['states'], r['wall'],
                                                                       (' VIOLATED ' + str(r['violated'])) if r['violated'] else ''))
            if r['error'] or r['timeout']:
                raise V.Inconclusive('TLC failed: %s\n%s' % (r['error'] or 'timeout', r['out'][-1500:]))
            if r['violated']:
                res['lead'].append(('MC', 'MC_Seq', r['violated']))
    if replay:
        scen = [json.load(open(replay))]
    else:
        rng = random.Random(seed * 104729 + (6 if pid == 'C06' else 7))
        n = {'quick': 32 if pid == 'C06' else 20, 'thorough': 600 if pid == 'C06' else 300}[tier]
        scen = [gen_crash(rng, '%s-%d-%04d' % (pid.lower(), seed, i), pid) for i in range(n)]
        if pid == 'C07':
            tpl = crash_gc_templates()
            scen += tpl if tier == 'thorough' else rng.sample(tpl, 12)
            tpl2 = crash_gc_cascade_templates()
            scen += tpl2 if tier == 'thorough' else rng.sample(tpl2, 6)
        fixed = os.path.join(V.VERIF, 'scenarios', 'fixed', pid)
        if os.path.isdir(fixed):
            for f in sorted(os.listdir(fixed)):
                if f.endswith('.json'):
                    scen.append(json.load(open(os.path.join(fixed, f))))
    tb = V.build_harness(work)
    traces, crashed = V.run_scenarios(tb, scen, work, timeout=1500 if tier == 'quick' else 10000)   # a GC scenario = dozens of child recoveries
    res['violations'] += V.crash_verdicts(crashed, pid)
    res['violations'] += V.died_verdicts(traces, pid)
    allev, per = [], {}
    for s in scen:
        if s['id'] in traces:
            l1 = V.normalize_l1(traces[s['id']])
            per[s['id']] = l1
            allev += l1
    r = V.tlc_validate(allev, os.path.join(work, 'tv'))
    if not r['accepted']:
        raise V.Inconclusive('trace validation did not consume the whole trace: %s\n%s' % (r.get('tlc_error'), r['out'][-1500:]))
    for sid, n, chk in r['bad']:
        if not chk.startswith(pid + '_'):
            continue
        name, _, kf = chk.partition('!')
        res['violations' if not kf else 'known'].append({'sid': sid, 'n': n, 'check': name, 'kf': kf})
    res['drift'] = r['drift']
    res['lead'] += list(r['lead'])
    nrec = sum(1 for e in allev if e['a'] == 'Recovered')
    inside = set()
    for sid, l1 in per.items():
        for e in l1:
            if e['a'] == 'Recovered' and (e['phase'] == 'torn' or e['kind'] not in ('data.flush',)):
                if pid == 'C06' or e['ingc']:
                    inside.add((sid, e['op'], e['kind'], e['phase'], e['torn']))
    sample = scen[0]
    res['coverage'] = {
        'states': states, 'transitions': trans, 'traces_validated_against_impl': len(per),
        'samples': [{'scenario': sample, 'trace_head': [e for e in per.get(sample['id'], []) if e['a'] != 'Reset'][:5]}],
        'evaluations': nrec, 'distinct_nontrivial': len(inside),
        'rule': 'evaluations = snapshots recovered in a child process; non-trivial = distinct (scenario, operation, fs kind, phase, cut) '
                'where the kill fell inside an operation (not at its last boundary) or tore a record'
                + ('; for C07 only boundaries inside a GC pass' if pid == 'C07' else ''),
        'scenarios': len(scen), 'events_validated': len(allev), 'mc_runs': mcruns,
        'exhaustive': bool(mcruns), 'drift': len(r['drift']), 'model_only_leads': len(res['lead']),
    }
    res['assumptions'] = ['kill = SIGKILL: completed writes survive (directory copy inside the fs hook), buffers are lost',
                          'torn data appends are synthesised prefixes at 256-byte boundaries and a few unaligned cuts']
    res['scen'] = {s['id']: s for s in scen}
    return res
